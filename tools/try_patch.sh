#!/bin/bash
# usage: try_patch.sh <patch.diff> [property ...]   -- developer helper: applies a seeded change to /repo, runs the given
# checks (default: all) with the evidence redirected to a scratch directory, and undoes the change straight afterwards.
P=$1; shift
git -C /repo apply "$P" || exit 2
trap 'git -C /repo checkout -- .' EXIT
export VERIF_EVIDENCE_DIR=$(mktemp -d /tmp/ev_scratch.XXXX)
cd /verif
for prop in ${@:-all}; do ./check $prop | grep -E "^\[C|VIOLATION|^  |ERROR|UNDETERMINED" | cut -c1-330; done
rm -rf "$VERIF_EVIDENCE_DIR"
