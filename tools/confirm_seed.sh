#!/bin/bash
# usage: confirm_seed.sh <worktree> <seed-id> <property>   -- re-confirms a seeded change produced by a sub-agent
# (demo fails with the change, passes without; unedited suite passes with the change), then files it under /verif/seeded/<seed-id>/
WT=$1; ID=$2; PROP=$3
OUT=/verif/seeded/$ID; mkdir -p $OUT
cd $WT || exit 2
git diff -- scoda > /tmp/confirm_$ID.diff
[ -s /tmp/confirm_$ID.diff ] || git apply patch.diff
git diff -- scoda > $OUT/patch.diff
cp demo.py $OUT/demo.py
PYTHONPATH=$WT /venv/bin/python demo.py > /tmp/confirm_${ID}_with.log 2>&1; RC_WITH=$?
git stash -q
PYTHONPATH=$WT /venv/bin/python demo.py > /tmp/confirm_${ID}_without.log 2>&1; RC_WITHOUT=$?
git stash pop -q
/venv/bin/python -m pytest -q -p no:cacheprovider --timeout=900 > /tmp/confirm_${ID}_suite.log 2>&1; RC_SUITE=$?
SUITE=$(tail -1 /tmp/confirm_${ID}_suite.log)
cat > $OUT/confirm.json <<JSON
{"seed": "$ID", "property": "$PROP", "demo_exit_with_change": $RC_WITH, "demo_exit_without_change": $RC_WITHOUT, "suite_exit_with_change": $RC_SUITE, "suite_summary": "$SUITE"}
JSON
echo "$ID demo_with=$RC_WITH demo_without=$RC_WITHOUT suite=$RC_SUITE ($SUITE)"
