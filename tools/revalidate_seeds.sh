#!/bin/bash
# usage: revalidate_seeds.sh [seed-id ...]  -- developer helper: after a `fix:` commit, checks that every kept seed still is what
# its meta.json says on the *current* /repo: the patch applies, the demo fails with it and passes without it.  (The full suite
# was run when the seed was confirmed; it is not repeated here.)  Prints one line per seed; never leaves /repo modified.
cd /verif
ids=${@:-$(ls seeded)}
trap 'git -C /repo checkout -q -- . 2>/dev/null' EXIT
for id in $ids; do
  d=/verif/seeded/$id
  [ -f $d/patch.diff ] || continue
  if ! git -C /repo apply --check $d/patch.diff 2>/dev/null; then echo "$id patch-does-not-apply"; continue; fi
  # some demos insist that scoda is imported from their own directory: run a copy next to a link to /repo's package
  r=$(mktemp -d /tmp/reval.XXXX); cp $d/demo.py $r/; ln -s /repo/scoda $r/scoda; [ -d /repo/test ] && ln -s /repo/test $r/test
  git -C /repo apply $d/patch.diff
  (cd $r && PYTHONPATH=$r timeout 600 /venv/bin/python $r/demo.py >/dev/null 2>&1); w=$?
  git -C /repo checkout -q -- .
  (cd $r && PYTHONPATH=$r timeout 600 /venv/bin/python $r/demo.py >/dev/null 2>&1); wo=$?
  rm -rf $r
  if [ $w -ne 0 ] && [ $wo -eq 0 ]; then echo "$id ok (with=$w without=$wo)"; else echo "$id STALE (with=$w without=$wo)"; fi
done
