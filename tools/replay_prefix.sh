#!/bin/bash
# Developer helper: runs every check against the pinned snapshot *before* the fix commits (a scratch worktree of /repo's first
# commit under /tmp, removed afterwards) and lists the distinct findings -- each repaired defect must show up again.
set -e
BASE=$(git -C /repo log --format=%H --grep="^fix:" | tail -1)~1
WT=$(mktemp -d /tmp/wt_prefix.XXXX); rmdir $WT
git -C /repo worktree add -q --detach $WT $BASE
trap 'git -C /repo worktree remove --force '$WT'; rm -rf $VERIF_EVIDENCE_DIR' EXIT
export VERIF_EVIDENCE_DIR=$(mktemp -d /tmp/ev_prefix.XXXX)
cd /verif
./check all --repo $WT 2>&1 | grep -E "^\[C" | awk '{print $1,$7,$8}' | tr '\n' ';'; echo
./check all --repo $WT 2>&1 | grep -E "^  [a-z]" | sed 's/^  [^ ]* //' | cut -c1-150 | sort | uniq -c | sort -rn
