#!/usr/bin/env python3
"""Regenerates /verif/MANIFEST.json from the claim table below (run from /verif)."""
import json

NOTE = ("Trusted base: CPython's ast parser; the analysers under /verif/sa (structured abstract interpreter, effect, kind, ownership, "
        "key-domain, template, clock, unit engines); scoda/config/default_settings.json; the hypotheses of the property itself "
        "(integer-tick inputs, integer arguments, duplicate-free user lists); mido/numpy behave as documented. A static verdict decides "
        "the named structural clauses (necessary conditions) on every path / flag assignment / history; value-level clauses listed as "
        "'not decided' in DESIGN.md section 4 are not covered.")

CLAIMS = {
 "C01": ("template + clock-effect agreement (abstract string interpretation, rational normal forms)",
         "Decides the emitter/parser agreement the round trip needs for all 16 flag assignments: every emitted token shape is a vocabulary shape and is parsed from the same field positions; the clock effect of each REST/BAR/TIME_SIGNATURE token is identical (normal form) in tokenise and detokenise; one capacity formula; running-value discipline; guards dominate emission; note-off = onset + value. Does not decide note-set equality. Also: running-value tokens exist under the unfused test, event dispatch by the pairing's first message, rest before every event whose time differs from the clock, all inputs labelled and merged, BAR exactly when the bar is full and requested, an untouched bar is not closed; plus the rule groups of every routine tokenise/detokenise reach (pairing table, interleaving, merge, normaliser, sorted insertion, conversions) and VIEW on the Sequence wrappers used."),
 "C02": ("template analysis over all flag assignments + counter discipline + numeric-kind analysis",
         "Decides, for every flag assignment and symbolic configuration, that every token shape the emitter can produce is a vocabulary key shape with the same field domains, that ids are 0..size-1 with an exact inverse, that every vocabulary prefix is parsed, and that numeric token fields are integer-typed. Assumes duplicate-free lists."),
 "C03": ("def-use / state-key analysis of tokenise's state dictionary",
         "Decides that the state dictionary carries every call-crossing variable under matching keys with defaults equal to detokenise's initial clock, derived capacity recomputed by the common formula, state written after the bar closing. Does not decide equality of outputs across partitions. Also: a bar holding a note is closed at the end of a call and an untouched bar is not (abstract interpretation over bar-time/has-note/capacity states), no shared mutable default state, concatenation of bars in order, dependency closure as in C01."),
 "C04": ("typestate abstract interpretation (disjunctive worlds), inductive over histories",
         "Decides the staleness discipline for all histories by induction: every Sequence method maps each valid freshness state to a valid one, invalidates the other view after a content mutation, marks replaced views fresh, generators and external clients obey the protocol, no accessor leaks internal messages. Conversion values assumed. Also: the two message accessors are generator functions (the view is read when the iteration starts)."),
 "C05": ("key-domain analysis, grid-provenance abstract interpretation, per-type event counting",
         "Decides channel-aware bookkeeping, ascending index removal, grid provenance of every written time, retention of non-note events, final re-sort in quantise. Not nearest-choice, displacement bound or survival. Also decided as case tables: the bookkeeping of the main loop (kind x open? x recorded? x overlap?), the zero-length removal pass, candidate coverage per step size, the three comparisons with polarity and the empty-candidate fallback."),
 "C06": ("frame (effect) analysis + linear normal form + provenance",
         "Decides the frame (only note-off times change), that the new duration is symbolically the chosen allowed value drawn from a shrinking copy of the allowed list, per-channel scoping, pass-through of other events, shorten-only filter. Not the closest-fit arithmetic. Also: the whole path condition of the shorten-only filter, the pairing table (PAIR), the nearest-candidate helper."),
 "C07": ("key-domain analysis + accumulator discipline (per-type event counting)",
         "Decides key-domain consistency of the open-note stacks, conservation of wait time (accumulator discipline), the in-force comparison of the signature filter, keep/skip structure. Not idempotence or sounding-set equality. Also: the keep/skip table by number of open notes incl. nesting count, accumulator init and reset-after-flush, component-wise signature comparison with polarity. Also a frame rule: no attribute of an input message is written (every emitted wait is a new object)."),
 "C08": ("key-domain analysis, must-consume dataflow, linear identities, effect analysis",
         "Decides channel-aware open-note state, that deferred events are consumed on every path, that a cut wait conserves time, that re-struck notes copy channel/pitch/velocity, that the source is not written, piece count. Not piece durations or piano-roll equality. Also: the 9-row destination table (piece vs deferred queue, registration of open notes, round control), the typestate of the current piece, the work-list plumbing (front pop, end-of-input exit, [0:0] splice, hand-over of every non-empty piece, the unread rest)."),
 "C09": ("per-path event counting, def-use order, unit analysis, normal forms",
         "Decides one bar per track per round on every path, Bar built from the signature that sized it, tick-unit integer bar length in normal form, look-up before clock advance, shorten-only re-quantisation, untouched inputs. Not durations or conservation. Also: round-control flag, the three outcomes of a split (remainder / placeholder / empty piece), consumption of applied signature events, default entry; and, by dependency closure, the rules of split, Bar.__init__, pad, normalise, quantise_note_lengths' filters, the pairing table, the conversions, plus VIEW on every Sequence wrapper reached. Also TAIL: split puts nothing into the fresh piece when the input runs out (the bar loop counts pieces to decide whether music remains)."),
 "C10": ("dimension (unit) analysis + rational normal forms + statement-order rules",
         "Decides unit-consistent capacity tests, capacity = numerator*4/denominator in the unit compared, the single leading signature rewrite after the rejection tests, pad argument in ticks, copy field coverage. Not the exact resulting duration. Also: only duration-below-capacity tests govern the pad, polarity and content of the two signature rejections, the duration measure (sum of waits / PPQN), dependency closure."),
 "C11": ("whole-program numeric-kind abstract interpretation (int/float), inductive",
         "Decides, inductively over all operations, that every time written and every tick formatted into a token is integer-typed, under the property's integer-input hypothesis."),
 "C12": ("writer/reader table agreement + delta-buffer discipline (per-type event counting)",
         "Decides delta-buffer discipline, writer/reader kind and field agreement, key-name table round trip against mido's table, file resolution from the library's, order-preserving unfiltered conversion. Not content equality after reload. Also: the reader decided as a case table (mido type x velocity class x has-channel), buffer start and guard polarity, and by dependency closure the loader's normaliser, sorted insertion, merge and conversion rules."),
 "C13": ("def-use (accumulate-then-round), unit analysis, routing table by per-type execution, table check",
         "Decides accumulate-then-round without feedback, the unit and value of the rescale factor, the per-kind routing table, the velocity-0 partition, reader key-table exhaustiveness w.r.t. mido. Not the half-tick bound. Also: slot selection polarity for grouped and meta-only tracks, the reader case table, and by dependency closure the normaliser, sorted insertion, merge and conversion rules."),
 "C14": ("totality (structured reachability), exhaustive value-set evaluation, per-type frame analysis",
         "Decides totality and tonic arithmetic of key transposition (15 keys x 49 intervals), symmetric on/off shifting by the interval, wrap-loop/flag exactness, the frame (only pitch and key written), range width, delegation. Not pitch-class arithmetic on notes. Also: the octave flag is never overwritten per message, re-normalisation under exactly the flag, dependency closure (normaliser, note-length quantisation)."),
 "C15": ("per-path event counting + must-follow + table order",
         "Decides that all messages of all inputs are merged and re-sorted, the canonical order leads with time and orders note-off before note-on, Sequence.merge always normalises. Not the union/fusion equalities. Also: the sorted insertion (bisection pieces), the normaliser's fusion table and signature filter."),
 "C16": ("ownership (taint) analysis with FRESH/DERIVED summaries to a fixpoint",
         "Decides that every copy/split/bar-split/conversion route returns only objects created by the call, that copies cover all fields, that message fields stay immutable scalars."),
 "C17": ("comparison-coverage analysis (linear forms, rank) by per-type execution",
         "Decides that equals compares onset, duration, pitch, velocity, channel, signature values and ticks, that each ignore flag relaxes only its own attribute, symmetry of every comparison. Not behaviour under re-ordering. Also: return polarity (every `return False` under a difference, fall-through True, flags off by default), attributes compared alone (a quotient of numerator and denominator does not count), the pairing table and interleaving with their initial state."),
 "C18": ("frame (effect) analysis per operation + linear normal forms + unit analysis",
         "Decides the 'nothing else changes' half and the shape of the one change: each operation writes only its attribute on its message kind, visits every such message, pad appends requested - measured under measured < requested in ticks, cutoff rewrites to onset + replacement under > maximum. Not exact durations. Also: sole guards (pad exactly when measured < requested; every closed note reaches the length test), the pairing table cutoff reads, dependency closure."),
 "C19": ("clock-effect summaries in rational normal form + per-path event counting",
         "Decides that get_info applies the same clock effects as detokenise for every token kind, appends exactly one entry per list per token on every path, records time before the token's effect, derives pitch/fifths from one parsed field. Also: the PITCH part is selected by prefix with the right polarity."),
 "C20": ("complete literal-table checks + totality + exhaustive value-set evaluation over Z12",
         "Decides all table identities exhaustively from the literals, totality and additivity of transpose_key, and the circle-of-fifths distance range / inversion over the complete residue space."),
}

props = [json.loads(l) for l in open("properties.jsonl")]
checks = []
for pr in props:
    pid = pr["id"]
    tech, text = CLAIMS[pid]
    checks.append({
        "property_id": pid,
        "quick_cmd": f"./check {pid} --tier quick",
        "thorough_cmd": f"./check {pid} --tier thorough",
        "evidence_file": f"/verif/evidence/{pid}.json",
        "replay_cmd_template": "./check --replay {path}",
        "engine": "sa",
        "level_claimed": {"category": "other", "text": "Static analysis of /repo's current source (nothing is run). " + text,
                          "design_ref": f"DESIGN.md section 4, {pid}"},
        "level_note": NOTE,
        "technique": "static analysis: " + tech,
    })
m = {
    "version": 1,
    "setup_cmd": "true",
    "hooks": {"guard": "SCODA_VERIF", "enable": "no hook exists: the checks read the source tree, nothing is built or instrumented",
              "baseline_off_cmd": "cd /repo && /venv/bin/python -m pytest -ra -q -p no:cacheprovider --timeout=900", "source_commits": [], "add_only": True},
    "engines": [{"name": "sa", "path": "/verif/sa", "serves_properties": [p["id"] for p in props],
                 "kind_free_text": "repository-specific static analysers over Python ast: structured abstract interpreter, typestate, effects, numeric kinds, ownership, key domains, templates, clock effects, units, tables"}],
    "checks": checks,
    "not_applicable": [],
    "notes": "All 20 properties are claimed at the level of named structural clauses; the value-level clauses each check does not decide are listed in DESIGN.md section 4 and in each evidence file's explanation. Known findings: /verif/known_findings.json.",
}
json.dump(m, open("MANIFEST.json", "w"), indent=1)
print("written", len(checks))
