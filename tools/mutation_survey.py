#!/usr/bin/env python3
"""Developer survey (not a registered check): applies standard mutation operators to the anchor functions of a property,
runs the property's static check on each in-memory mutant and lists the survivors.  Survivors are then triaged by hand:
equivalent / harmless, outside the decided clauses (value level), or a gap worth a new rule."""
import ast
import copy
import sys
import multiprocessing as mp

sys.path.insert(0, "/verif")
from sa.model import Program, AnalysisError            # noqa: E402
from sa import selfcheck                               # noqa: E402

from sa.mutops import CMP, BIN, mutants_of, apply     # noqa: E402,F401


_P = None
_BASEKEYS = set()


def job(args):
    prop, q, idx, kind, desc = args
    base = _P
    fi = base.functions[q]
    # mutate a deep copy of the *original* (uncanonicalised) source tree of the file
    tree = ast.parse(base.sources[fi.file])
    target = None
    for n in ast.walk(tree):
        if isinstance(n, ast.FunctionDef) and n.name == fi.name and n.lineno == fi.node.lineno:
            target = n
    if target is None:
        return (q, desc, "skip", [])
    apply(target, idx, kind)
    ast.fix_missing_locations(tree)
    try:
        newsrc = ast.unparse(tree)
        var = base.with_source(fi.file, newsrc)
        c2, err = selfcheck._run(var, prop)
    except AnalysisError as e:
        return (q, desc, "analysis-error", [str(e)[:80]])
    except Exception as e:
        return (q, desc, "crash", [f"{type(e).__name__}: {e}"[:100]])
    newf = [f for f in c2.findings if f.key not in _BASEKEYS]
    if err and not newf:
        return (q, desc, "analysis-error", [err[:80]])
    return (q, desc, "killed" if newf else "survived", sorted({f.rule for f in newf}))


def main():
    global _P, _BASEKEYS
    props = sys.argv[1:] or sorted(selfcheck.ANCHORS)
    _P = Program.load("/repo")
    for prop in props:
        base_ctx, err = selfcheck._run(_P, prop)
        _BASEKEYS = {f.key for f in base_ctx.findings}
        jobs = []
        for q in selfcheck.ANCHORS.get(prop, []):
            fi = _P.functions.get(q)
            if fi is None:
                continue
            tree = ast.parse(_P.sources[fi.file])
            target = next((n for n in ast.walk(tree) if isinstance(n, ast.FunctionDef) and n.name == fi.name and n.lineno == fi.node.lineno), None)
            if target is None:
                continue
            for idx, kind, desc in mutants_of(target):
                jobs.append((prop, q, idx, kind, desc))
        with mp.get_context("fork").Pool(16) as pool:
            res = pool.map(job, jobs, chunksize=4)
        tally = {}
        for q, desc, status, rules in res:
            tally[status] = tally.get(status, 0) + 1
        print(f"=== {prop}: {len(res)} mutants: {tally}")
        for q, desc, status, rules in res:
            if status in ("survived", "crash"):
                print(f"   {status:9} {q.split('.')[-1]:28} {desc}")
        for q, desc, status, rules in res:
            if status == "analysis-error":
                print(f"   analysis-error {q.split('.')[-1]:24} {desc}  :: {rules[0] if rules else ''}")


if __name__ == "__main__":
    main()
