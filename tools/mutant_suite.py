#!/usr/bin/env python3
"""Developer survey (not a registered check; results are notes, not evidence): every mutant of the anchor functions is
(1) run through all 20 static checks in memory, (2) materialised in a scratch copy of /repo under /tmp and run against
the unedited test suite.  Output: /tmp/ms/results.jsonl with {function, mutation, killed_by: [props], suite: pass|fail}.
The interesting rows are suite == pass: changes the tests cannot see."""
import ast
import json
import os
import shutil
import subprocess
import sys
import multiprocessing as mp

sys.path.insert(0, "/verif")
from sa.model import Program                           # noqa: E402
from sa import selfcheck                               # noqa: E402
from tools.mutation_survey import mutants_of, apply    # noqa: E402

PROPS = [f"C{n:02d}" for n in range(1, 21)]
_P = None
_BASE = {}
OUT = "/tmp/ms"


def mutated_source(q, idx, kind):
    fi = _P.functions[q]
    tree = ast.parse(_P.sources[fi.file])
    target = next((n for n in ast.walk(tree) if isinstance(n, ast.FunctionDef) and n.name == fi.name and n.lineno == fi.node.lineno), None)
    apply(target, idx, kind)
    ast.fix_missing_locations(tree)
    return fi.file, ast.unparse(tree)


def static_job(args):
    q, idx, kind, desc = args
    try:
        path, srcm = mutated_source(q, idx, kind)
        var = _P.with_source(path, srcm)
    except Exception as e:
        return (q, idx, kind, desc, ["<mutant does not build: %s>" % type(e).__name__], [])
    killed, errs = [], []
    for prop in PROPS:
        try:
            c2, err = selfcheck._run(var, prop)
        except Exception as e:
            errs.append(prop)
            continue
        newf = [f for f in c2.findings if f.key not in _BASE[prop]]
        if newf:
            killed.append(prop)
        elif err:
            errs.append(prop)
    return (q, idx, kind, desc, killed, errs)


def suite_job(args):
    n, q, idx, kind, desc, killed, errs = args
    d = f"{OUT}/w{n}"
    try:
        shutil.rmtree(d, ignore_errors=True)
        shutil.copytree("/repo", d, ignore=shutil.ignore_patterns(".git", "__pycache__", "*.egg-info", "out"))
        path, srcm = mutated_source(q, idx, kind)
        with open(os.path.join(d, path), "w") as f:
            f.write(srcm)
        r = subprocess.run(["/venv/bin/python", "-m", "pytest", "-x", "-q", "-p", "no:cacheprovider", "--timeout=900"], cwd=d,
                           capture_output=True, text=True, timeout=3000)
        tail = r.stdout.strip().splitlines()[-1] if r.stdout.strip() else ""
        status = "pass" if r.returncode == 0 else "fail"
    except Exception as e:
        status, tail = "error", f"{type(e).__name__}: {e}"
    finally:
        shutil.rmtree(d, ignore_errors=True)
    rec = {"function": q, "idx": idx, "kind": kind, "mutation": desc, "killed_by": killed, "analysis_error_in": errs, "suite": status, "tail": tail[:120]}
    with open(f"{OUT}/results.jsonl", "a") as f:
        f.write(json.dumps(rec) + "\n")
    return rec


def main():
    global _P, _BASE
    workers = int(sys.argv[1]) if len(sys.argv) > 1 else 10
    os.makedirs(OUT, exist_ok=True)
    _P = Program.load("/repo")
    for prop in PROPS:
        c, _ = selfcheck._run(_P, prop)
        _BASE[prop] = {f.key for f in c.findings}
    seen, jobs = set(), []
    for prop in PROPS:
        for q in selfcheck.ANCHORS.get(prop, []):
            fi = _P.functions.get(q)
            if fi is None or q in seen:
                continue
            seen.add(q)
            tree = ast.parse(_P.sources[fi.file])
            target = next((n for n in ast.walk(tree) if isinstance(n, ast.FunctionDef) and n.name == fi.name and n.lineno == fi.node.lineno), None)
            for idx, kind, desc in mutants_of(target):
                jobs.append((q, idx, kind, desc))
    print(len(jobs), "unique mutants in", len(seen), "functions", flush=True)
    if os.path.exists(f"{OUT}/static.json") and "--reuse-static" in sys.argv:
        stat = [tuple(x) for x in json.load(open(f"{OUT}/static.json"))]
    else:
        with mp.get_context("fork").Pool(16) as pool:
            stat = pool.map(static_job, jobs, chunksize=4)
        json.dump(stat, open(f"{OUT}/static.json", "w"))
    print("static pass done:", sum(1 for s in stat if s[4]), "killed by some check,", sum(1 for s in stat if not s[4]), "survive all checks", flush=True)
    done = set()
    if os.path.exists(f"{OUT}/results.jsonl"):
        for l in open(f"{OUT}/results.jsonl"):
            r = json.loads(l)
            done.add((r["function"], r["idx"], r["kind"]))
    todo = [(i,) + tuple(s) for i, s in enumerate(stat) if (s[0], s[1], s[2]) not in done and not (s[4] and s[4][0].startswith("<mutant"))]
    todo.sort(key=lambda t: (bool(t[5]), t[0]))     # mutants that survive every static check first
    print("suite runs to do:", len(todo), flush=True)
    with mp.get_context("fork").Pool(workers) as pool:
        for k, rec in enumerate(pool.imap_unordered(suite_job, todo)):
            if k % 25 == 0:
                print(k, "suite runs finished", flush=True)
    print("done", flush=True)


if __name__ == "__main__":
    main()
