#!/usr/bin/env python3
"""Writes /verif/seeded/<id>/meta.json from the table below + confirm.json produced by tools/confirm_seed.sh,
and re-runs the property's quick check against the seeded change (applied to /repo, undone afterwards)."""
import json, os, subprocess, sys

SEEDS = {
 "C16-a": ("C16", "RelativeSequence.split: up-front deep copy replaced by copy-on-pop (`list(self._messages)` + `pop(0).copy()`), the untouched tail `extend(working_memory)` now moves the source's own Message objects into the remainder piece",
           "the remainder piece of a direct split whose capacities are shorter than the sequence, followed by an in-place relative operation (transpose / set_channel / scale) on either side"),
 "C13-a": ("C13", "MidiFile.convert: the group-membership guard removed from the NOTE_ON / NOTE_OFF branches, so notes of a meta-only track land on the meta sequence and are merged into the target",
           "a track listed only in meta_track_indices (in no group) that carries notes, e.g. a conductor track with a count-in click"),
 "C08-a": ("C08", "RelativeSequence.split: the NOTE_OFF closing a sounding note at a boundary built with channel=msg.channel (the straddling WAIT's channel) instead of the open note's channel",
           "multi-channel sequence with a note sounding across a boundary while the wait crossing it belongs to an event of another channel"),
 "C18-a": ("C18", "AbsoluteSequence.cutoff: the trailing normalise_absolute() moved to the top of the method; shortened note-offs stay at their old list position",
           "a note longer than the maximum whose original end lies after a later event, followed by an operation reading the relative view (pad, scale, rel, save) before anything re-sorts"),
 "C04-a": ("C04", "Sequence.messages_abs / messages_rel: try/finally removed and the invalidation moved after the yield; the other view is not invalidated before the first yield nor when the generator is closed early",
           "other view fresh, the yielded message edited, iteration left early (break / single next() / close) or the other view read before advancing"),
 "C05-a": ("C05", "AbsoluteSequence.quantise: `sorted(...)` dropped from the shifted-pop removal of collapsed notes",
           "two notes collapsing to zero length in one call with interleaved on/off events (a very short chord just before a grid point)"),
 "C07-a": ("C07", "RelativeSequence.normalise_relative: the open-note stack is popped first-in-first-out (`pop(0)` instead of `pop(-1)`), so the emitted outermost note-on is gone from the stack when the unclosed-note clean-up runs",
           "a (channel, pitch) re-triggered while sounding, receiving fewer note-offs than note-ons and still open at the end of the sequence"),
 "C01-a": ("C01", "tokenise: `scaled = numerator * (8 // denominator)` (floor division) instead of true division: x/16 signatures scale to 0 and are rejected",
           "a piece with a time signature of denominator 16 expressible in eighths (6/16)"),
 "C06-a": ("C06", "quantise_note_lengths: the per-channel `note_occurrences` table hoisted out of the channel loop into one table keyed by pitch only, so the last note of a pitch in one channel treats a note of another channel as its next occurrence",
           "two channels containing the same pitch where the later channel's onset falls before onset + best duration of the earlier channel's last note of that pitch"),
 "C09-a": ("C09", "RelativeSequence.split: the NOTE_ON re-opening a sounding note in the next piece built with channel=msg.channel (the straddling WAIT's channel)",
           "a track with notes on more than one channel, a note held across a bar line, the first event after the bar line on another channel"),
 "C02-a": ("C02", "tokenise: `elif self.flag_fuse_value:` turned into a bare `else:`; with value not fused, running values on and an unchanged value the note token gets a fused value part the vocabulary does not contain",
           "flag_fuse_value=False with flag_running_values=True and two consecutive notes of equal duration"),
 "C03-a": ("C03", "tokenise: the running values are restored with a tuple-unpack over (\"prv_track\", \"prv_velocity\", \"prv_value\") -- last two keys swapped -- and saved with state_dict.update(...)",
           "flag_fuse_value=False, a velocity-bin value equal to a note value (8 bins: 24), and a call boundary where the previous velocity bin equals the next note's duration while the previous duration differs"),
 "C10-a": ("C10", "Bar.__init__: capacity factored into a local in quarters; the pad target became int(capacity) * PPQN, truncating to whole quarters before converting to ticks",
           "a signature whose capacity is not a whole number of quarters (3/8, 5/8, 7/8, 9/8) and a sequence shorter than the capacity"),
 "C11-a": ("C11", "detokenise: int() dropped from the initial default bar capacity, so a `bar` token detokenised before any time-signature token turns the clock into a float",
           "a token stream that relies on the default time signature (sequences without a TIME_SIGNATURE tokenised directly, or hand-written/model tokens) spanning at least one bar"),
 "C12-a": ("C12", "MidiTrack.to_mido_track: `time_buffer = 0` deleted from the KEY_SIGNATURE branch; the accumulated wait is added again to the next emitted message",
           "a key signature with a non-zero delta time (after a wait, not coinciding with a note event) followed by at least one more message in the track"),
 "C14-a": ("C14", "Sequence.transpose: the `self.invalidate_abs()` after the relative transposition removed (the `if shifted:` branch still normalises)",
           "absolute view cached before the call, an interval that needs no octave wrapping, result read through an absolute-view accessor"),
 "C15-a": ("C15", "normalise_relative: a note-on arriving while its (channel, pitch) is already open is skipped *before* being pushed on the nesting stack, so the first note-off closes the fused note",
           "two merged sequences with strictly overlapping notes of the same channel and pitch: the fused note ends at the first end instead of the latest"),
 "C19-a": ("C19", "get_info: parsing of the signature fields and the recomputation of the total bar capacity moved in front of the mid-bar guard; only the remaining capacity stays guarded",
           "a time-signature token different from the current one while the bar is partly filled, followed by a bar token (streams not produced by tokenise)"),
 "C20-a": ("C20", "key_transpose_mapping maps Key.C_B to Key.C_S instead of Key.B, so every transposition of Cb major lands two semitones too high",
           "the starting key Cb major (7 flats) and an interval that is not a multiple of 12"),
 "C05-b": ("C05", "quantise: the open-note bookkeeping stores the note-on's original time instead of its quantised time, so the note's own quantised start stays an admissible end candidate",
           "a short note just before / straddling a grid point whose note-on rounds up and whose note-off is nearest to that same grid point: the note collapses and is removed although later grid positions exist"),
 "C02-b": ("C02", "tokenise: the time-signature range guard tests the raw numerator instead of the numerator scaled to eighths, which is what the emitted token carries",
           "a signature whose raw numerator is in range but whose eighths-scaled numerator is not (9/4 -> tsg_18_08, 2/16 -> tsg_01_08)"),
 "C16-b": ("C16", "sequences_split_bars: when split returns no piece the placeholder `Sequence()` became the current `sequence`, which in the first round is the caller's own (empty) input object",
           "an input track without any message (silent / meta-only track): the first bar of that track is built on, and mutates, the caller's object"),
 "C08-b": ("C08", "split: a note-on sitting exactly on a boundary (remaining capacity 0) is added straight to `next_sequence` instead of the deferred queue, so it is never registered as open in the next round",
           "one split call with at least two capacities and a note starting exactly on boundary k that still sounds past boundary k+1: it is neither closed nor re-struck there"),
 "C01-b": ("C01", "tokenise: the separate VELOCITY token is emitted when the velocity differs from the previous note *value* (`msg_velocity != prv_value`) instead of the previous velocity",
           "flag_fuse_velocity=False with running values on, and a note whose velocity bin differs from its predecessor's while equal to the predecessor's duration, or unchanged velocity (extra token) -- only the first loses information"),
 "C04-b": ("C04", "Sequence.overwrite_absolute_messages / overwrite_relative_messages build the view with `AbsoluteSequence(messages=messages)` / `RelativeSequence(messages=messages)`; the time-sorted insertion of add_message is gone",
           "overwrite_absolute_messages called with a valid list that is not in chronological order (e.g. grouped note by note), then the relative view read"),
 "C14-b": ("C14", "RelativeSequence.transpose: the octave-wrap flag is computed per note as `had_to_shift = msg.note != target` (overwritten for every note message) instead of being set inside the wrap loops",
           "a note near the range bound that gets wrapped, followed by a later note message that is not wrapped: transpose returns False, Sequence.transpose skips its clean-up"),
 "C12-b": ("C12", "MidiFile.convert: the default 4/4 is added only when the file holds no time signature at all (`len(time_signature_timings) == 0`) instead of when none sits at tick 0",
           "saved sequences whose first time signature comes after tick 0 (pickup / leading rest before the metre is stated)"),
 "C07-b": ("C07", "normalise_relative: when a new time signature is accepted the remembered denominator is set from the numerator (`current_ts_denominator = msg.numerator`)",
           "the same non-square time signature (3/4, 6/8, 2/4) stated twice: the repetition survives normalising"),
 "C06-b": ("C06", "quantise_note_lengths: the corrections are computed once into a dict keyed by note value and both filter loops iterate the dict, so a value listed twice is removed only once from the copy of the allowed list",
           "an allowed-values list with a repeated entry (triplet and quintuplet values colliding after int()) and a short note for which that value is inadmissible but closest"),
 "C13-b": ("C13", "MidiFile.convert: the KEY_SIGNATURE branch adds the event to the current track's sequence instead of the meta sequence",
           "a key signature inside a grouped track whose sequence is not the meta target (type-1 files repeating the key in every part)"),
 "C10-b": ("C10", "Bar.__init__: the leading time signature is inserted only when the sequence carries none; an existing matching signature is left where it is",
           "a sequence with exactly one matching time-signature event that is not its first message (at tick 24, or after a note at tick 0)"),
 "C09-b": ("C09", "quantise_note_lengths: the two candidate filters merged into one loop; the do_not_extend filter became the `elif` of the next-same-pitch-note branch, so shorten-only is enforced only for the last occurrence of a pitch",
           "quantise_note_lengths=True, a note crossing a bar line whose tail fragment is off the note-value grid with a longer nearest value, and the same pitch struck again later in that bar"),
 "C18-b": ("C18", "Sequence.set_channel: `self.invalidate_abs()` dropped; a cached absolute view keeps the old channel",
           "the absolute view cached before set_channel (get_sequence_duration, equals, cutoff, ...) and the result read through an abs-based getter"),
 "C03-b": ("C03", "tokenise: the reset `cur_bar_has_notes = False` at the end of a bar moved under `if insert_bar_token:`",
           "insert_bar_token=False and a stateful call containing a note whose last bar ends in silence: the closing clause appends a whole extra bar of rests, later chunks decode one bar late"),
 "C15-b": ("C15", "normalise_relative: the time signature in force is remembered as the single quotient numerator/denominator and compared on that quotient",
           "a change between two metres with the same quotient (3/4 to 6/8, 2/2 to 4/4) in the merged family: the second signature is dropped as a repetition"),
 "C19-b": ("C19", "get_info: the BAR branch advances the clock by `max(cur_bar_capacity_remaining, 0)`; detokenise still advances by the raw (possibly negative) remaining capacity",
           "a vocabulary-only stream whose rests overfill a bar before its BAR token: every later note is annotated later than detokenise places it"),
 "C11-b": ("C11", "Bar.__init__: the pad length `int(n * PPQN / (d / 4))` rewritten as `n * PPQN // (d / 4)`; the divisor is a float, so floor division returns a float",
           "a bar built from a sequence shorter than its capacity (last bar of a track, placeholder bars of a shorter track), then anything that concatenates after the padded bar"),
 "C02-c": ("C02", "_construct_dictionary: `self._dictionary_size += 1` dedented out of the loop over the velocity bins (standalone VELOCITY tokens): every vel_XXX gets the same id",
           "flag_fuse_velocity=False with velocity_bins >= 2: decode(encode(.)) returns the top bin for every velocity, dictionary_size < len(dictionary)"),
 "C05-c": ("C05", "quantise: the recorded spans `message_timings[(channel, pitch)]` replaced by `note_endings[pitch]` (pitch alone) at three sites; the open-note table keeps the full key",
           "the same pitch on two channels, a note-on on one channel quantising to a tick before the quantised end of a note on the other: the second note disappears"),
 "C20-b": ("C20", "CircleOfFifths.from_distance: the modular index replaced by an explicit wrap-around whose upper guard is `>` instead of `>=`",
           "base position + distance == 12 (F#+1, B+2, E+3, A+4, D+5, G+6): IndexError instead of pitch class 1"),
 "C16-c": ("C16", "Sequence.copy rewritten as three branches keyed on view freshness; the abs-only branch builds the copy with `self.__class__(absolute_sequence=self.abs)` (no .copy())",
           "a copy taken while the relative view is stale (after an absolute-side operation), followed by another absolute-side operation on either side"),
 "C08-c": ("C08", "split: the remainder guard after the capacity loop is `len(working_memory) > 1` instead of `> 0`; a remainder of exactly one message is discarded",
           "a trailing rest reaching past the last boundary with nothing sounding (only the carried WAIT is left): the silence after the last boundary disappears"),
 "C06-c": ("C06", "get_message_pairings: the leading `self.normalise_absolute()` removed; pairing depends on the list order left by add_message (time only)",
           "a note ending on the tick where the next note of the same channel and pitch starts, the later note-on inserted before the earlier note-off (all note-ons added first)"),
 "C09-c": ("C09", "sequences_split_bars: bar length `int(PPQN * n / d) * 4` -- the truncation happens before the multiplication by 4",
           "odd-numerator /16 signatures and most /32 ones (3/16: 16 ticks sliced instead of 18): Bar pads each bar back, the cursor drifts, one bar too many, later keys at the wrong bar"),
 "C01-c": ("C01", "Sequence.set_channel: `self.invalidate_abs()` dropped (the tokeniser labels track i with channel i through this wrapper and then merges the absolute views)",
           "num_tracks >= 2 and input sequences whose absolute view is live when tokenise runs (built with add_absolute_message, or returned by detokenise): every note ends up in track 0"),
 "C04-c": ("C04", "RelativeSequence.to_absolute_sequence: the cap flag replaced by `if len(messages) > 0 and messages[-1].time < current_point_in_time`",
           "a sequence whose relative view consists of waits only (padded empty sequence, rest piece of a split): the absolute view is empty, the duration is lost / the sequence unreadable"),
 "C03-c": ("C03", "tokenise: `state_dict: dict = None` + `if state_dict is None: state_dict = dict()` replaced by the shared mutable default `state_dict: dict = {}`",
           "an earlier stateless tokenise call, an un-fused running value with running values on, and a first note whose value equals the last value of the earlier call: the whole-piece stream omits the explicit token"),
 "C07-c": ("C07", "Sequence.normalise: `self.invalidate_abs()` dropped after `self.rel.normalise_relative()`",
           "the absolute view materialised before normalising, an input normalisation changes, and the result read through the absolute view"),
 "C17-a": ("C17", "equals: the tick comparison moved into the NOTE_ON branch; time and key signatures are compared by value only",
           "two sequences identical except for the tick of one signature, with no compared event of the channel between the old and the new tick"),
}

INITIALLY_MISSED = {
 "C04-c": "missed by the first version of CONV: its cap rules were written against the bookkeeping flag and were skipped when no flag exists; the guard of the cap is now evaluated in the situations `waits only` and `ends in a wait after the last event`, where it must not be false",
 "C01-c": "caught from the start by C04 (TS3) and C18 (VIEW) -- the same edit as seed C18-b; C01's own check missed it. A table of the Sequence-level operations each property's anchor code goes through (props/common.py) now adds VIEW obligations to C01, C03, C09, C10, C12, C13, C16, C17",
 "C20-b": "the first version aborted with ANALYSIS-ERROR (exit 2): the exhaustive evaluator did not know local aliases of the circle list, len(), augmented assignments; it was extended and now reports VS-LAND with the six failing residue pairs",
 "C15-b": "caught from the start by C07 (SIG); C15's own check missed it because it only shared the STACK rules of the normaliser; C15 now includes the SIG rules, and SIG names the derived-quantity comparison explicitly",
 "C03-b": "missed by the first version of CLOSE (it only demanded that a bar holding a note is closed); the converse obligation was added: in the state (bar time 0, nothing emitted in the current bar) the closing guard must be definitely false",
 "C09-b": "missed by the first versions of C09 and C06: NOEXT judged only the innermost test of the removal; the rule now checks the whole path condition from the candidate loop to the removal (nothing but the flag, the positive-correction test and a membership test) and C09 includes the NOEXT / NEXT rules",
 "C04-b": "missed by the first version of C04 (the ABS-SORTED rule only looked at AbsoluteSequence's own methods); the rule now also covers every construction of an AbsoluteSequence from a message list and raw writes to a locally built one's list",
 "C08-b": "missed by the first versions of the C08 rules (Q1 only lost one of its add sites, which is not a violation); the PLACE rule (each message placed exactly once, in the current piece or on the deferred queue, nowhere else) was added",
 "C14-a": "caught from the start by C04 (TS3); C14's own check missed it; VIEW obligations (typestate of the operation's Sequence wrapper) were added to C05-C08, C14, C15, C18",
 "C15-a": "missed by the first versions of C15 and C07 (the keep/skip decisions are unchanged); the nesting-count rule (every note-on is counted, every note-off of an open note uncounted) was added to STACK and C15 now includes the STACK rules",
 "C03-a": "the first version of the C03 check aborted with ANALYSIS-ERROR (exit 2) on the tuple-unpack / update() idioms; the state extraction was generalised and now reports ST1",
 "C10-a": "detected from the start by CAP on the pad length; the first version additionally reported the harmless local `capacity` (no forward substitution) -- corrected",
 "C18-a": "missed by the first version of the C18 check (frame rules only); the sorted-list invariant rule SORT (and ABS-SORTED in C04) was added",
 "C07-a": "missed by the first version of the C07 check; the STACK rules (keep/skip by number of open notes, LIFO pop) were added",
 "C09-a": "missed by the first version of the C09 check (caught by C08's RESTRIKE only); C09 now includes the split boundary rules KEY/CUT/RESTRIKE",
}

def main():
    ids = sys.argv[1:] or sorted(SEEDS)
    for sid in ids:
        d = f"/verif/seeded/{sid}"
        if not os.path.isdir(d):
            print("missing", d); continue
        prop, change, needs = SEEDS[sid]
        confirm = json.load(open(f"{d}/confirm.json")) if os.path.exists(f"{d}/confirm.json") else {}
        subprocess.check_call(["git", "-C", "/repo", "apply", f"{d}/patch.diff"])
        try:
            r = subprocess.run(["./check", prop, "--tier", "quick"], cwd="/verif", capture_output=True, text=True)
        finally:
            subprocess.check_call(["git", "-C", "/repo", "checkout", "--", "."])
            # evidence must describe /repo itself: rewrite it from the clean tree
            subprocess.run(["./check", prop, "--tier", "quick"], cwd="/verif", capture_output=True, text=True)
        lines = [l for l in r.stdout.splitlines() if l.startswith("  ") or l.startswith("VIOLATION")]
        rules = sorted({l.split("[")[1].split("]")[0] for l in lines if "[" in l and l.startswith("  ")})
        meta = {"seed": sid, "breaks_property": prop, "change": change, "needs_to_manifest": needs,
                "origin": "independent sub-agent given only the property text and a scratch worktree of /repo (nothing from /verif)",
                "confirmed_by_me": confirm,
                "what_i_ran": [f"tools/confirm_seed.sh <worktree> {sid} {prop}  (demo with change, demo without change, full unedited suite with change)",
                               f"git -C /repo apply seeded/{sid}/patch.diff; ./check {prop} --tier quick; git -C /repo checkout -- ."],
                "initially_missed": INITIALLY_MISSED.get(sid, False),
                "check_exit_code": r.returncode, "detected": r.returncode == 1, "detected_by_rules": rules,
                "first_report": lines[1].strip()[:300] if len(lines) > 1 else ""}
        json.dump(meta, open(f"{d}/meta.json", "w"), indent=1)
        print(sid, prop, "detected" if meta["detected"] else "MISSED", rules)

if __name__ == "__main__":
    main()
