import logging
from scoda.sequences.sequence import Sequence
from scoda.elements.message import Message
from scoda.elements.bar import Bar
from scoda.enumerations.message_type import MessageType as MT
from scoda.misc.music_theory import Key
from scoda.tokenisation.notelike_tokenisation import MultiTrackLargeVocabularyNotelikeTokeniser as Tok
logging.disable(logging.CRITICAL)

def mk(notes, extra=()):
    s = Sequence()
    for (ch,p,t0,t1,v) in notes:
        s.add_absolute_message(Message(message_type=MT.NOTE_ON, channel=ch, note=p, time=t0, velocity=v))
        s.add_absolute_message(Message(message_type=MT.NOTE_OFF, channel=ch, note=p, time=t1))
    for m in extra: s.add_absolute_message(m)
    return s
def dump(s): return [repr(m) for m in s.abs._messages]

print("--- C04 overwrite from stale")
s = mk([(0,60,0,24,64)])
try:
    s.overwrite_relative_messages([Message(message_type=MT.WAIT,time=24)])
    print(dump(s))
except Exception as e: print("EXC", type(e).__name__, e)
s = mk([(0,60,0,24,64)]); s.rel; s.invalidate_abs()
try:
    s.overwrite_absolute_messages([Message(message_type=MT.NOTE_ON,note=1,time=0)])
    print(dump(s))
except Exception as e: print("EXC", type(e).__name__, e)

print("--- C05 same pitch two channels")
s = mk([(0,60,0,24,64),(1,60,0,24,64)])
s.quantise([24]); print(dump(s))
print("--- C05 zero-length removal index order")
s = mk([(0,60,13,16,64),(0,62,14,15,64),(0,64,48,72,64),(0,65,96,120,64)])
s.quantise([24]); print(dump(s))

print("--- C07 unclosed")
s = Sequence()
s.add_absolute_message(Message(message_type=MT.NOTE_ON, channel=0, note=60, time=0, velocity=64))
s.add_absolute_message(Message(message_type=MT.NOTE_ON, channel=0, note=62, time=0, velocity=64))
s.add_absolute_message(Message(message_type=MT.NOTE_OFF, channel=0, note=62, time=24))
s.normalise(); print(dump(s))

print("--- C08 event on final boundary")
s = mk([(0,60,0,24,64)], [Message(message_type=MT.KEY_SIGNATURE, channel=0, key=Key.D, time=24)])
print([repr(m) for m in s.rel._messages])
ps = s.split([24]); print([[repr(m) for m in p.rel._messages] for p in ps])
print("--- C08 two channels same pitch crossing")
s = mk([(0,60,0,48,64),(1,60,0,48,70)])
ps = s.split([24]); print([[repr(m) for m in p.rel._messages] for p in ps])

print("--- C10 too long bar")
s = mk([(0,60,0,200,64)])
try:
    b = Bar(s,4,4); print("accepted, duration", b.sequence.get_sequence_duration())
except Exception as e: print("EXC", type(e).__name__, e)
print("--- C11 float pad")
s = mk([(0,60,0,24,64)])
b = Bar(s,4,4); print([repr(m) for m in b.sequence.rel._messages])

print("--- C14/C20 transpose key by 12")
print(Key.transpose_key(Key.D, 12), Key.transpose_key(Key.D, 0), Key.transpose_key(Key.D_B, 1))

print("--- C16 split aliasing")
s = mk([(0,60,0,24,64),(0,62,24,48,64)]); s.abs; s.rel
ps = s.split([24]); ps[0].transpose(5)
print(dump(s), [repr(m) for m in s.rel._messages])

print("--- C17 onset")
a = mk([(0,60,0,24,64)]); b = mk([(0,60,24,48,64)]); print(a.equals(b), a==b)

print("--- C02 vocab configs")
for fv in (True, False):
  for vb in (1,2):
    try:
        t = Tok(num_tracks=1, flag_fuse_velocity=fv, velocity_bins=vb)
        s = mk([(0,60,0,24,64)])
        toks = t.tokenise([s]); missing=[x for x in toks if x not in t.dictionary]
        print(fv, vb, toks[:4], "missing", missing[:3], "bins", t.velocity_bins)
        try: t.detokenise(toks)
        except Exception as e: print("  detok EXC", type(e).__name__, e)
    except Exception as e: print(fv, vb, "EXC", type(e).__name__, e)
