"""Program model: parsed sources of /repo/scoda, symbol index, settings constants, enums.

Everything the analyses know about S-Coda comes from here: source text -> ast.  Nothing is imported
or executed.
"""
from __future__ import annotations

import ast
import copy
import json
import os
from dataclasses import dataclass, field


class AnalysisError(Exception):
    """The analysis itself could not be carried out (missing anchor, unparsable file, idiom outside
    the model).  Reported as ANALYSIS-ERROR, exit 2 -- never as a verdict."""


@dataclass
class FuncInfo:
    qualname: str
    name: str
    node: ast.FunctionDef
    cls: str | None
    file: str
    parent_func: "FuncInfo | None" = None

    @property
    def params(self) -> list[str]:
        a = self.node.args
        return [x.arg for x in a.posonlyargs + a.args + a.kwonlyargs]

    def decorators(self) -> list[str]:
        out = []
        for d in self.node.decorator_list:
            if isinstance(d, ast.Name):
                out.append(d.id)
            elif isinstance(d, ast.Attribute):
                out.append(d.attr)
        return out

    @property
    def is_static(self) -> bool:
        return "staticmethod" in self.decorators()

    @property
    def is_property(self) -> bool:
        return "property" in self.decorators()

    @property
    def is_generator(self) -> bool:
        for n in walk_local(self.node):
            if isinstance(n, (ast.Yield, ast.YieldFrom)):
                return True
        return False


@dataclass
class ClassInfo:
    name: str
    node: ast.ClassDef
    file: str
    bases: list[str]
    methods: dict[str, FuncInfo] = field(default_factory=dict)
    class_attrs: dict[str, ast.expr] = field(default_factory=dict)


@dataclass
class ModuleInfo:
    path: str
    src: str
    tree: ast.Module


def walk_local(fn: ast.AST):
    """ast.walk that does not descend into nested function/class definitions (but yields them)."""
    stack = list(ast.iter_child_nodes(fn))
    while stack:
        n = stack.pop()
        yield n
        if isinstance(n, (ast.FunctionDef, ast.AsyncFunctionDef, ast.ClassDef, ast.Lambda)):
            continue
        stack.extend(ast.iter_child_nodes(n))


class _Canon(ast.NodeTransformer):
    """Syntactic canonicalisation applied to every parsed module, so that the analyses do not depend on spelling:
    `x = x <op> e` becomes `x <op>= e` (names and attribute/subscript targets alike); `pass` is dropped from blocks that
    contain other statements; a two-way `if not c: A else: B` becomes `if c: B else: A`; negations are pushed inwards
    (`not not a` -> `a`, De Morgan, `not a == b` -> `a != b`, likewise in / is; order comparisons are left alone because
    `not a < b` and `a >= b` differ for unordered values).  Positions are preserved."""

    def _loop_var_private(self, loop: ast.For) -> bool:
        """every read of the loop variable in the enclosing function happens inside a loop / comprehension that binds it itself"""
        fns = self.__dict__.get("_fn_nodes") or []
        if not fns:
            return False
        v = loop.target.id
        covered = set()
        for x in ast.walk(fns[-1]):
            if isinstance(x, ast.For) and isinstance(x.target, ast.Name) and x.target.id == v:
                covered |= {id(y) for b in x.body for y in ast.walk(b)}
            elif isinstance(x, (ast.ListComp, ast.SetComp, ast.GeneratorExp, ast.DictComp)) \
                    and any(isinstance(g.target, ast.Name) and g.target.id == v for g in x.generators):
                covered |= {id(y) for y in ast.walk(x)}
        return all(id(x) in covered for x in ast.walk(fns[-1]) if isinstance(x, ast.Name) and x.id == v and isinstance(x.ctx, ast.Load))

    def visit_For(self, n: ast.For):
        # `for v in xs: if C: raise E` (nothing else in the loop, C a plain comparison of names / attributes / constants) is
        # `if any(C for v in xs): raise E` -- the spelling the rejection rules read
        if not n.orelse and len(n.body) == 1 and isinstance(n.body[0], ast.If) and not n.body[0].orelse and len(n.body[0].body) == 1 \
                and isinstance(n.body[0].body[0], ast.Raise) and isinstance(n.target, ast.Name) \
                and all(isinstance(x, (ast.BoolOp, ast.boolop, ast.Compare, ast.cmpop, ast.Name, ast.Attribute, ast.Constant, ast.expr_context, ast.UnaryOp, ast.Not))
                        for x in ast.walk(n.body[0].test)) \
                and not any(isinstance(x, ast.Name) and x.id == n.target.id for x in ast.walk(n.body[0].body[0])) \
                and self._loop_var_private(n):
            inner = n.body[0]
            gen = ast.GeneratorExp(elt=inner.test, generators=[ast.comprehension(target=n.target, iter=n.iter, ifs=[], is_async=0)])
            call = ast.Call(func=ast.Name(id="any", ctx=ast.Load()), args=[gen], keywords=[])
            new = ast.If(test=call, body=inner.body, orelse=[])
            for x in ast.walk(new):
                if not hasattr(x, "lineno") and isinstance(x, (ast.expr, ast.stmt)):
                    ast.copy_location(x, n)
            ast.copy_location(new, n)
            ast.fix_missing_locations(new)
            return self.visit(new)
        # a loop over a short literal table of rows -- `for flag, prefix, xs in ((f1, P1, a), (f2, P2, b)): BODY` -- is BODY once per row
        # with the row's entries in place of the loop variables (rows of plain names / attributes / constants, no break / continue at this
        # level, loop variables not assigned in the body): a table-driven spelling of two or three parallel blocks
        it, tg = n.iter, n.target
        rows = it.elts if isinstance(it, (ast.Tuple, ast.List)) and 2 <= len(it.elts) <= 4 else None
        names = [tg.id] if isinstance(tg, ast.Name) else ([x.id for x in tg.elts] if isinstance(tg, ast.Tuple) and all(isinstance(x, ast.Name) for x in tg.elts) else None)

        def plain(e):
            while isinstance(e, ast.Attribute):
                e = e.value
            return isinstance(e, (ast.Name, ast.Constant))
        if rows is not None and names is not None and not n.orelse and isinstance(tg, ast.Tuple) \
                and all(isinstance(r, (ast.Tuple, ast.List)) and len(r.elts) == len(names) and all(plain(x) for x in r.elts) for r in rows):
            own_level = []

            def collect(stmts):
                for s_ in stmts:
                    if isinstance(s_, (ast.Break, ast.Continue)):
                        own_level.append(s_)
                    if isinstance(s_, (ast.For, ast.While, ast.FunctionDef, ast.ClassDef)):
                        continue
                    for fld in ("body", "orelse", "finalbody"):
                        b = getattr(s_, fld, None)
                        if isinstance(b, list) and b and isinstance(b[0], ast.stmt):
                            collect(b)
            collect(n.body)
            stored = {x.id for y in n.body for x in ast.walk(y) if isinstance(x, ast.Name) and isinstance(x.ctx, (ast.Store, ast.Del))}
            size = sum(1 for y in n.body for x in ast.walk(y) if isinstance(x, ast.stmt))
            stack = self.__dict__.get("_fn_stack") or []
            used_after = bool(stack) and any(stack[-1].get(nm, [0, 0])[0] > sum(1 for y in n.body for x in ast.walk(y) if isinstance(x, ast.Name) and x.id == nm
                                                                                 and isinstance(x.ctx, ast.Load)) for nm in names)
            if not own_level and not (stored & set(names)) and size <= 16 and not used_after:
                out = []
                for r in rows:
                    sub = dict(zip(names, r.elts))

                    class _S(ast.NodeTransformer):
                        def visit_Name(self2, x):
                            if isinstance(x.ctx, ast.Load) and x.id in sub:
                                return ast.copy_location(copy.deepcopy(sub[x.id]), x)
                            return x
                    for s_ in n.body:
                        out.append(_S().visit(copy.deepcopy(s_)))
                res = []
                for s_ in out:
                    v = self.visit(s_)
                    res.extend(v if isinstance(v, list) else [v])
                return res
        return self.generic_visit(n)

    def visit_Call(self, n: ast.Call):
        self.generic_visit(n)
        # `Cls(**{f: getattr(o, f) for f in Cls._FIELDS})` with `_FIELDS` a class-level tuple of names is the call with one keyword per name
        if len(n.keywords) == 1 and n.keywords[0].arg is None and isinstance(n.keywords[0].value, ast.DictComp) and not n.args:
            dc = n.keywords[0].value
            g = dc.generators[0] if len(dc.generators) == 1 else None
            names = None
            if g is not None and not g.ifs and isinstance(g.target, ast.Name) and isinstance(g.iter, ast.Attribute) and isinstance(g.iter.value, ast.Name):
                names = self.__dict__.get("_class_consts", {}).get((g.iter.value.id, g.iter.attr))
            if names and isinstance(dc.key, ast.Name) and dc.key.id == g.target.id and isinstance(dc.value, ast.Call) and isinstance(dc.value.func, ast.Name) \
                    and dc.value.func.id == "getattr" and len(dc.value.args) == 2 and isinstance(dc.value.args[1], ast.Name) and dc.value.args[1].id == g.target.id \
                    and isinstance(dc.value.args[0], ast.Name):
                obj = dc.value.args[0].id
                n.keywords = [ast.copy_location(ast.keyword(arg=f, value=ast.copy_location(ast.Attribute(value=ast.copy_location(ast.Name(id=obj, ctx=ast.Load()), n), attr=f,
                                                                                                       ctx=ast.Load()), n)), n) for f in names]
        return n

    def visit_Expr(self, n: ast.Expr):
        # `xs.extend(map(f, it))` is `xs.extend(f(v) for v in it)` (one iterable, a plain function reference)
        c0 = n.value
        if isinstance(c0, ast.Call) and isinstance(c0.func, ast.Attribute) and c0.func.attr == "extend" and len(c0.args) == 1 and not c0.keywords \
                and isinstance(c0.args[0], ast.Call) and isinstance(c0.args[0].func, ast.Name) and c0.args[0].func.id == "map" and len(c0.args[0].args) == 2 \
                and not c0.args[0].keywords and isinstance(c0.args[0].args[0], (ast.Name, ast.Attribute)):
            v = "_mapped_item"
            f_, it_ = c0.args[0].args
            gen = ast.GeneratorExp(elt=ast.Call(func=f_, args=[ast.Name(id=v, ctx=ast.Load())], keywords=[]),
                                   generators=[ast.comprehension(target=ast.Name(id=v, ctx=ast.Store()), iter=it_, ifs=[], is_async=0)])
            c0.args = [gen]
            for x in ast.walk(gen):
                if isinstance(x, (ast.expr,)) and not hasattr(x, "lineno"):
                    ast.copy_location(x, n)
            ast.fix_missing_locations(n)
        # `xs.extend(f(v) for v in it if c)`  ->  `for v in it: if c: xs.append(f(v))`   (a mapping or a filter; the plain copy `[v for v in it]` is left alone)
        c = n.value
        if isinstance(c, ast.Call) and isinstance(c.func, ast.Attribute) and c.func.attr == "extend" and len(c.args) == 1 and not c.keywords \
                and isinstance(c.args[0], (ast.GeneratorExp, ast.ListComp)) and len(c.args[0].generators) == 1 and not c.args[0].generators[0].is_async:
            g = c.args[0].generators[0]
            recv = c.func.value
            pure = recv
            while isinstance(pure, ast.Attribute):
                pure = pure.value
            stack = self.__dict__.get("_fn_stack") or []
            tnames = [x.id for x in ast.walk(g.target) if isinstance(x, ast.Name)]
            inside = {}
            for x in ast.walk(c.args[0]):
                if isinstance(x, ast.Name) and x.id in tnames:
                    k = inside.setdefault(x.id, [0, 0])
                    k[0 if isinstance(x.ctx, ast.Load) else 1] += 1
            private = bool(stack) and all(stack[-1].get(t, [0, 0]) == inside.get(t) for t in tnames)     # the loop variable is used nowhere else
            private = private or (bool(stack) and all(self._name_private(t) for t in tnames))       # ... or only where something binds it again
            if isinstance(pure, ast.Name) and private and (g.ifs or not (isinstance(c.args[0].elt, ast.Name) and c.args[0].elt.id in tnames)):
                app = ast.Expr(value=ast.Call(func=ast.Attribute(value=recv, attr="append", ctx=ast.Load()), args=[c.args[0].elt], keywords=[]))
                inner: ast.stmt = ast.copy_location(app, n)
                for t in reversed(g.ifs):
                    inner = ast.copy_location(ast.If(test=t, body=[inner], orelse=[]), n)
                loop = ast.copy_location(ast.For(target=g.target, iter=g.iter, body=[inner], orelse=[]), n)
                ast.fix_missing_locations(loop)
                return self.visit(loop)
        # `xs.extend(v for row in rows for v in row)`  ->  `for row in rows: xs.extend(row)`
        if isinstance(c, ast.Call) and isinstance(c.func, ast.Attribute) and c.func.attr == "extend" and len(c.args) == 1 and not c.keywords \
                and isinstance(c.args[0], (ast.GeneratorExp, ast.ListComp)) and len(c.args[0].generators) == 2:
            g1, g2 = c.args[0].generators
            if not g1.ifs and not g2.ifs and not g1.is_async and not g2.is_async and isinstance(g1.target, ast.Name) and isinstance(g2.target, ast.Name) \
                    and isinstance(g2.iter, ast.Name) and g2.iter.id == g1.target.id and isinstance(c.args[0].elt, ast.Name) and c.args[0].elt.id == g2.target.id \
                    and self._name_private(g1.target.id):
                inner = ast.copy_location(ast.Expr(value=ast.Call(func=ast.Attribute(value=c.func.value, attr="extend", ctx=ast.Load()),
                                                                   args=[ast.Name(id=g1.target.id, ctx=ast.Load())], keywords=[])), n)
                loop = ast.copy_location(ast.For(target=g1.target, iter=g1.iter, body=[inner], orelse=[]), n)
                ast.fix_missing_locations(loop)
                return self.visit(loop)
        self.generic_visit(n)
        return n

    def _name_private(self, v: str) -> bool:
        """every read of `v` in the enclosing function happens inside a loop / comprehension that binds it itself"""
        fns = self.__dict__.get("_fn_nodes") or []
        if not fns:
            return False
        covered = set()
        for x in ast.walk(fns[-1]):
            if isinstance(x, ast.For) and any(isinstance(t, ast.Name) and t.id == v for t in ast.walk(x.target)):
                covered |= {id(y) for b in x.body for y in ast.walk(b)}
            elif isinstance(x, (ast.ListComp, ast.SetComp, ast.GeneratorExp, ast.DictComp)) \
                    and any(isinstance(t, ast.Name) and t.id == v for g in x.generators for t in ast.walk(g.target)):
                covered |= {id(y) for y in ast.walk(x)}
        return all(id(x) in covered for x in ast.walk(fns[-1]) if isinstance(x, ast.Name) and x.id == v and isinstance(x.ctx, ast.Load))

    def visit_Return(self, n: ast.Return):
        # `return a if c else b`  ->  `if c: return a` / `else: return b`
        if isinstance(n.value, ast.IfExp):
            new = ast.If(test=n.value.test, body=[ast.copy_location(ast.Return(value=n.value.body), n)],
                         orelse=[ast.copy_location(ast.Return(value=n.value.orelse), n)])
            return self.visit(ast.copy_location(new, n))
        # `return isinstance(x, T) and e`  ->  `if not isinstance(x, T): return False` / `return e`  (isinstance answers a bool, so the
        # short-circuit value is exactly False)
        v = n.value
        if isinstance(v, ast.BoolOp) and isinstance(v.op, ast.And) and len(v.values) >= 2 and isinstance(v.values[0], ast.Call) \
                and isinstance(v.values[0].func, ast.Name) and v.values[0].func.id == "isinstance":
            rest = v.values[1] if len(v.values) == 2 else ast.copy_location(ast.BoolOp(op=ast.And(), values=v.values[1:]), v)
            guard = ast.copy_location(ast.If(test=ast.copy_location(ast.UnaryOp(op=ast.Not(), operand=v.values[0]), v),
                                             body=[ast.copy_location(ast.Return(value=ast.copy_location(ast.Constant(value=False), n)), n)], orelse=[]), n)
            tail = self.visit_Return(ast.copy_location(ast.Return(value=rest), n))
            return [guard] + (tail if isinstance(tail, list) else [tail])
        self.generic_visit(n)
        return n

    def visit_Assign(self, n: ast.Assign):
        # `a, b = e1, e2` with independent sides  ->  `a = e1` / `b = e2` (returned as a list: the block flattens it)
        if len(n.targets) == 1 and isinstance(n.targets[0], (ast.Tuple, ast.List)) and isinstance(n.value, (ast.Tuple, ast.List)) \
                and len(n.targets[0].elts) == len(n.value.elts) and all(isinstance(t, ast.Name) for t in n.targets[0].elts) \
                and not any(isinstance(e, ast.Starred) for e in n.value.elts):
            written = {t.id for t in n.targets[0].elts}
            read = {x.id for e in n.value.elts for x in ast.walk(e) if isinstance(x, ast.Name)}
            if not (written & read) and len(written) == len(n.targets[0].elts):
                out = []
                for t, e in zip(n.targets[0].elts, n.value.elts):
                    a = ast.copy_location(ast.Assign(targets=[ast.Name(id=t.id, ctx=ast.Store())], value=e), n)
                    r = self.visit_Assign(a)
                    out.extend(r if isinstance(r, list) else [r])
                return out
        # `x = [comprehension] or [fallback]`  ->  `x = [comprehension]` / `if len(x) == 0: x = [fallback]` (a list is false iff it is empty)
        if len(n.targets) == 1 and isinstance(n.targets[0], ast.Name) and isinstance(n.value, ast.BoolOp) and isinstance(n.value.op, ast.Or) \
                and len(n.value.values) == 2 and isinstance(n.value.values[0], ast.ListComp) and isinstance(n.value.values[1], ast.List) \
                and not any(isinstance(x, ast.Name) and x.id == n.targets[0].id for x in ast.walk(n.value)):
            nm = n.targets[0].id
            first = ast.copy_location(ast.Assign(targets=[ast.Name(id=nm, ctx=ast.Store())], value=n.value.values[0]), n)
            empty = ast.Compare(left=ast.Call(func=ast.Name(id="len", ctx=ast.Load()), args=[ast.Name(id=nm, ctx=ast.Load())], keywords=[]),
                                ops=[ast.Eq()], comparators=[ast.Constant(value=0)])
            second = ast.If(test=empty, body=[ast.Assign(targets=[ast.Name(id=nm, ctx=ast.Store())], value=n.value.values[1])], orelse=[])
            for x in ast.walk(second):
                if isinstance(x, (ast.expr, ast.stmt)) and not hasattr(x, "lineno"):
                    ast.copy_location(x, n)
            ast.copy_location(second, n)
            ast.fix_missing_locations(second)
            r1 = self.visit_Assign(first)
            return (r1 if isinstance(r1, list) else [r1]) + [self.visit(second)]
        # `x = a if c else b`  ->  `if c: x = a` / `else: x = b`  (a conditional expression that is the whole right-hand side)
        if isinstance(n.value, ast.IfExp) and len(n.targets) == 1 and isinstance(n.targets[0], ast.Name):
            def asg(v):
                return ast.copy_location(ast.Assign(targets=[ast.Name(id=n.targets[0].id, ctx=ast.Store())], value=v), n)
            new = ast.If(test=n.value.test, body=[asg(n.value.body)], orelse=[asg(n.value.orelse)])
            return self.visit(ast.copy_location(new, n))
        self.generic_visit(n)
        if len(n.targets) == 1 and isinstance(n.value, ast.BinOp) and isinstance(n.targets[0], (ast.Name, ast.Attribute, ast.Subscript)) \
                and isinstance(n.value.op, (ast.Add, ast.Sub, ast.Mult)):
            try:
                same = ast.dump(n.targets[0]).replace("Store()", "Load()") == ast.dump(n.value.left)
            except Exception:
                same = False
            if same:
                return ast.copy_location(ast.AugAssign(target=n.targets[0], op=n.value.op, value=n.value.right), n)
        return n

    _FLIP = {ast.Eq: ast.NotEq, ast.NotEq: ast.Eq, ast.In: ast.NotIn, ast.NotIn: ast.In, ast.Is: ast.IsNot, ast.IsNot: ast.Is}

    _MIRROR = {ast.Lt: ast.Gt, ast.Gt: ast.Lt, ast.LtE: ast.GtE, ast.GtE: ast.LtE, ast.Eq: ast.Eq, ast.NotEq: ast.NotEq}

    @staticmethod
    def _constant_like(e: ast.AST) -> bool:
        if isinstance(e, ast.Constant):
            return True
        if isinstance(e, ast.UnaryOp) and isinstance(e.operand, ast.Constant):
            return True
        if isinstance(e, ast.Name):
            return e.id.isupper()
        if isinstance(e, ast.Attribute):
            b = e
            while isinstance(b, ast.Attribute):
                b = b.value
            return isinstance(b, ast.Name) and (b.id[:1].isupper() or b.id == "math") and b.id not in ("self",)
        if isinstance(e, ast.Call) and isinstance(e.func, ast.Name) and e.func.id == "float" and e.args and isinstance(e.args[0], ast.Constant):
            return True
        return False

    @staticmethod
    def _enum_member(e: ast.AST) -> bool:
        return isinstance(e, ast.Attribute) and isinstance(e.value, ast.Name) and e.value.id[:1].isupper() and e.attr.isupper()

    def visit_Compare(self, n: ast.Compare):
        self.generic_visit(n)
        # identity with an enum member is equality with it (members are singletons): one spelling, `==` / `!=`
        if len(n.ops) == 1 and isinstance(n.ops[0], (ast.Is, ast.IsNot)) and (self._enum_member(n.comparators[0]) or self._enum_member(n.left)):
            n.ops = [ast.Eq() if isinstance(n.ops[0], ast.Is) else ast.NotEq()]
        # ... and so is identity between two enum-valued message fields (`a.message_type is not b.message_type`, `a.key is b.key`)
        if len(n.ops) == 1 and isinstance(n.ops[0], (ast.Is, ast.IsNot)) and all(isinstance(x, ast.Attribute) and x.attr in ("message_type", "key")
                                                                                  for x in (n.left, n.comparators[0])):
            n.ops = [ast.Eq() if isinstance(n.ops[0], ast.Is) else ast.NotEq()]
        # one spelling per comparison: a constant-like operand (literal, ALL_CAPS name, enum member) stands on the right;
        # otherwise order comparisons point "upwards" (`<`, `<=`) and (in)equalities put the textually smaller operand first
        if len(n.ops) == 1 and type(n.ops[0]) in self._MIRROR:
            l, r = n.left, n.comparators[0]
            cl, cr = self._constant_like(l), self._constant_like(r)
            swap = False
            if cl != cr:
                swap = cl
            elif isinstance(n.ops[0], (ast.Gt, ast.GtE)):
                swap = not cl            # both constant-like: leave as written
            elif isinstance(n.ops[0], (ast.Eq, ast.NotEq)):
                swap = ast.unparse(l) > ast.unparse(r)
            if swap:
                n.left, n.comparators, n.ops = r, [l], [self._MIRROR[type(n.ops[0])]()]
        return n

    def visit_UnaryOp(self, n: ast.UnaryOp):
        self.generic_visit(n)
        if not isinstance(n.op, ast.Not):
            return n
        x = n.operand
        if isinstance(x, ast.UnaryOp) and isinstance(x.op, ast.Not):
            return x.operand                                             # not not a  ->  a   (in a boolean context)
        if isinstance(x, ast.BoolOp):                                    # De Morgan
            other = ast.Or() if isinstance(x.op, ast.And) else ast.And()
            vals = [self.visit_UnaryOp(ast.copy_location(ast.UnaryOp(op=ast.Not(), operand=v), v)) for v in x.values]
            return ast.copy_location(ast.BoolOp(op=other, values=vals), n)
        if isinstance(x, ast.Compare) and len(x.ops) == 1 and type(x.ops[0]) in self._FLIP:
            return ast.copy_location(ast.Compare(left=x.left, ops=[self._FLIP[type(x.ops[0])]()], comparators=x.comparators), n)
        return n

    @staticmethod
    def _negatives(t: ast.AST) -> int:
        """Number of negative literals of a test in negation normal form (`not x`, `!=`, `not in`, `is not`)."""
        if isinstance(t, ast.BoolOp):
            return sum(_Canon._negatives(v) for v in t.values)
        if isinstance(t, ast.UnaryOp) and isinstance(t.op, ast.Not):
            return 1
        if isinstance(t, ast.Compare) and len(t.ops) == 1 and isinstance(t.ops[0], (ast.NotEq, ast.NotIn, ast.IsNot)):
            return 1
        return 0

    def visit_If(self, n: ast.If):
        self.generic_visit(n)              # the test is now in negation normal form
        # a test that is a literal (an inlined helper called without an optional argument: `if None:`) selects its branch here
        if isinstance(n.test, ast.Constant) and (n.test.value is None or isinstance(n.test.value, (bool, int, str))):
            chosen = n.body if n.test.value else n.orelse
            return chosen if chosen else ast.copy_location(ast.Pass(), n)
        # `if A and B: X  elif A: Y  [else: Z]`  ->  `if A: (if B: X else: Y)  [else: Z]` -- one branch per case of the dispatch, the
        # refinement inside it (A is a comparison of plain names / attributes / constants: evaluating it once instead of twice changes nothing)
        if isinstance(n.test, ast.BoolOp) and isinstance(n.test.op, ast.And) and len(n.orelse) == 1 and isinstance(n.orelse[0], ast.If):
            nxt, first = n.orelse[0], n.test.values[0]
            if ast.dump(first) == ast.dump(nxt.test) and isinstance(first, ast.Compare) \
                    and all(isinstance(x, (ast.Compare, ast.Name, ast.Attribute, ast.Constant, ast.cmpop, ast.expr_context)) for x in ast.walk(first)):
                rest = n.test.values[1:]
                cond = rest[0] if len(rest) == 1 else ast.copy_location(ast.BoolOp(op=ast.And(), values=rest), n.test)
                inner = ast.copy_location(ast.If(test=cond, body=n.body, orelse=nxt.body), n)
                n.test, n.body, n.orelse = first, [inner], nxt.orelse
        # A plain two-way branch (else present, no elif on either side) has two spellings: `if P: A else: B` and
        # `if not-P: B else: A`.  The one whose test has fewer negative literals is canonical (ties: as written).
        if n.orelse and not (len(n.orelse) == 1 and isinstance(n.orelse[0], ast.If)) and not getattr(n, "_is_elif", False) \
                and not (len(n.body) == 1 and isinstance(n.body[0], ast.If) and n.body[0].orelse):
            neg = self.visit_UnaryOp(ast.copy_location(ast.UnaryOp(op=ast.Not(), operand=copy.deepcopy(n.test)), n.test))
            if self._negatives(neg) < self._negatives(n.test):
                n.test = neg
                n.body, n.orelse = n.orelse, n.body
        return n

    def _orient(self, n: ast.If) -> ast.If:
        if n.orelse and not (len(n.orelse) == 1 and isinstance(n.orelse[0], ast.If)) and not getattr(n, "_is_elif", False) \
                and not (len(n.body) == 1 and isinstance(n.body[0], ast.If) and n.body[0].orelse):
            neg = self.visit_UnaryOp(ast.copy_location(ast.UnaryOp(op=ast.Not(), operand=copy.deepcopy(n.test)), n.test))
            if self._negatives(neg) < self._negatives(n.test):
                n.test = neg
                n.body, n.orelse = n.orelse, n.body
        return n

    def _unguard(self, block: list[ast.stmt], tail: bool) -> list[ast.stmt]:
        out = list(block)
        for i, st in enumerate(out):
            if isinstance(st, ast.If):
                changed = False
                if not st.orelse and st.body and isinstance(st.body[-1], ast.Continue) and i + 1 < len(out):
                    st.orelse = out[i + 1:]
                    del out[i + 1:]
                    changed = True
                last = i == len(out) - 1
                if changed and tail:
                    st.body = st.body[:-1]              # the guard's own `continue` is now the end of the iteration anyway
                st.body = self._unguard(st.body, tail and last)
                st.orelse = self._unguard(st.orelse, tail and last) if st.orelse else st.orelse
                if not st.body:                         # `if c: continue` in tail position: only the other branch does anything
                    if st.orelse:
                        st.test = self.visit_UnaryOp(ast.copy_location(ast.UnaryOp(op=ast.Not(), operand=st.test), st.test))
                        st.body, st.orelse = st.orelse, []
                    else:
                        st.body = [ast.copy_location(ast.Pass(), st)]
                elif changed:
                    self._orient(st)
                if changed:
                    break
        return out

    @staticmethod
    def _reroll(first: ast.stmt, loop: ast.stmt):
        """`x = []` directly followed by `for v in it: [if c: ...] x.append(e)`  ->  `x = [e for v in it if c]`, or None."""
        if not (isinstance(first, ast.Assign) and len(first.targets) == 1 and isinstance(first.targets[0], ast.Name)
                and isinstance(first.value, ast.List) and not first.value.elts):
            return None
        if not (isinstance(loop, ast.For) and not loop.orelse and len(loop.body) == 1):
            return None
        name = first.targets[0].id
        ifs = []
        st = loop.body[0]
        while isinstance(st, ast.If) and not st.orelse and len(st.body) == 1:
            ifs.append(st.test)
            st = st.body[0]
        if not (isinstance(st, ast.Expr) and isinstance(st.value, ast.Call) and isinstance(st.value.func, ast.Attribute) and st.value.func.attr == "append"
                and isinstance(st.value.func.value, ast.Name) and st.value.func.value.id == name and len(st.value.args) == 1 and not st.value.keywords):
            return None
        elt = st.value.args[0]
        used = {x.id for e in [elt, loop.iter] + ifs for x in ast.walk(e) if isinstance(x, ast.Name)}
        if name in used or any(isinstance(x, (ast.Yield, ast.YieldFrom, ast.Await, ast.NamedExpr)) for e in [elt] + ifs for x in ast.walk(e)):
            return None
        comp = ast.ListComp(elt=elt, generators=[ast.comprehension(target=loop.target, iter=loop.iter, ifs=ifs, is_async=0)])
        new = ast.Assign(targets=[ast.Name(id=name, ctx=ast.Store())], value=comp)
        ast.copy_location(new, first)
        ast.copy_location(comp, first)
        new.end_lineno = getattr(loop, "end_lineno", first.lineno)
        ast.fix_missing_locations(new)
        return new

    def visit_Module(self, n: ast.Module):
        self._stored_attrs = {x.attr for f in ast.walk(n) if isinstance(f, ast.FunctionDef) and f.name not in ("__init__", "__post_init__")
                              for x in ast.walk(f) if isinstance(x, ast.Attribute) and isinstance(x.ctx, (ast.Store, ast.Del))}
        self._props = {f.name for f in ast.walk(n) if isinstance(f, ast.FunctionDef)
                       and any((isinstance(d, ast.Name) and d.id in ("property", "cached_property")) or (isinstance(d, ast.Attribute) and d.attr in ("setter", "cached_property"))
                               for d in f.decorator_list)}
        self._class_consts = {}
        for c in ast.walk(n):
            if isinstance(c, ast.ClassDef):
                for st in c.body:
                    if isinstance(st, ast.Assign) and len(st.targets) == 1 and isinstance(st.targets[0], ast.Name) and isinstance(st.value, (ast.Tuple, ast.List)) \
                            and st.value.elts and all(isinstance(e, ast.Constant) and isinstance(e.value, str) and e.value.isidentifier() for e in st.value.elts):
                        self._class_consts[(c.name, st.targets[0].id)] = [e.value for e in st.value.elts]
        self._methods = {f.name for c in ast.walk(n) if isinstance(c, ast.ClassDef) for f in c.body if isinstance(f, ast.FunctionDef)
                         and not f.decorator_list} - self._props - self._stored_attrs
        return self.generic_visit(n)

    def _constant_return_guards(self, block: list) -> None:
        """`if C: BODY else: return K` (K a constant, BODY not ending in a jump of its own) is the guard `if not C: return K` followed by
        BODY; `if A or B: return K` is `if A: return K` / `if B: return K`.  One answer per failed comparison, whatever the nesting."""
        i = 0
        while i < len(block):
            st = block[i]
            for fld in ("body", "orelse", "finalbody"):
                b = getattr(st, fld, None)
                if isinstance(b, list) and b and isinstance(b[0], ast.stmt) and not isinstance(st, (ast.FunctionDef, ast.AsyncFunctionDef, ast.ClassDef)):
                    self._constant_return_guards(b)
            if isinstance(st, ast.Try):
                for h in st.handlers:
                    self._constant_return_guards(h.body)
            if isinstance(st, ast.If):
                def const_ret(b):
                    return len(b) == 1 and isinstance(b[0], ast.Return) and isinstance(b[0].value, ast.Constant)
                if st.orelse and const_ret(st.orelse) and not const_ret(st.body) and not isinstance(st.body[-1], (ast.Return, ast.Raise, ast.Continue, ast.Break)) \
                        and not (len(st.orelse) == 1 and isinstance(st.orelse[0], ast.If)):
                    neg = self.visit_UnaryOp(ast.copy_location(ast.UnaryOp(op=ast.Not(), operand=st.test), st.test))
                    guard = ast.copy_location(ast.If(test=neg, body=st.orelse, orelse=[]), st)
                    block[i:i + 1] = [guard] + st.body
                    continue
                if not st.orelse and const_ret(st.body) and isinstance(st.test, ast.BoolOp) and isinstance(st.test.op, ast.Or):
                    block[i:i + 1] = [ast.copy_location(ast.If(test=v, body=[ast.copy_location(ast.Return(value=ast.Constant(value=st.body[0].value.value)), st.body[0])],
                                                                   orelse=[]), st) for v in st.test.values]
                    for g in block[i:i + len(st.test.values)]:
                        ast.fix_missing_locations(g)
                    continue
            i += 1

    def _constant_tuple_locals(self, fn: ast.FunctionDef) -> None:
        """`kinds = (A.x, B.y, 3)` assigned once, at the top level of the function, and read only as the right side of `in` / `not in` is the
        literal tuple at those tests."""
        for a in list(fn.body):
            if isinstance(a, ast.Assign) and len(a.targets) == 1 and isinstance(a.targets[0], ast.Name) and isinstance(a.value, (ast.Tuple, ast.List)) and a.value.elts:
                def plain(e):
                    while isinstance(e, ast.Attribute):
                        e = e.value
                    return isinstance(e, (ast.Name, ast.Constant))
                if not all(plain(e) for e in a.value.elts):
                    continue
                nm = a.targets[0].id
                occ = [x for x in ast.walk(fn) if isinstance(x, ast.Name) and x.id == nm]
                if sum(1 for x in occ if isinstance(x.ctx, (ast.Store, ast.Del))) != 1:
                    continue
                tests = [c for c in ast.walk(fn) if isinstance(c, ast.Compare) and len(c.ops) == 1 and isinstance(c.ops[0], (ast.In, ast.NotIn))
                         and isinstance(c.comparators[0], ast.Name) and c.comparators[0].id == nm]
                if len(tests) != len(occ) - 1 or not tests or any(c.lineno < a.lineno for c in tests):
                    continue
                roots = {x.id for e in a.value.elts for x in ast.walk(e) if isinstance(x, ast.Name)}
                if any(isinstance(x, ast.Name) and x.id in roots and isinstance(x.ctx, (ast.Store, ast.Del)) for x in ast.walk(fn)):
                    continue
                for c in tests:
                    c.comparators = [ast.copy_location(ast.Tuple(elts=[copy.deepcopy(e) for e in a.value.elts], ctx=ast.Load()), c.comparators[0])]
                    ast.fix_missing_locations(c)
                fn.body = [st for st in fn.body if st is not a] or fn.body

    def _method_aliases(self, fn: ast.FunctionDef) -> None:
        """`f = self.m` (m a plain method of a class of this module, never stored to) ... `f(args)` is `self.m(args)`: a bound method
        named for the length of the function."""
        methods = self.__dict__.get("_methods", set())
        for a in list(ast.walk(fn)):
            if isinstance(a, ast.Assign) and len(a.targets) == 1 and isinstance(a.targets[0], ast.Name) and isinstance(a.value, ast.Attribute) \
                    and isinstance(a.value.value, ast.Name) and a.value.value.id == "self" and a.value.attr in methods:
                nm = a.targets[0].id
                occ = [x for x in ast.walk(fn) if isinstance(x, ast.Name) and x.id == nm]
                stores = [x for x in occ if isinstance(x.ctx, (ast.Store, ast.Del))]
                if len(stores) != 1:
                    continue
                calls = [c for c in ast.walk(fn) if isinstance(c, ast.Call) and isinstance(c.func, ast.Name) and c.func.id == nm]
                if len(calls) != len(occ) - 1 or any(c.lineno < a.lineno for c in calls):
                    continue                     # used as a value somewhere, or before the binding
                for c in calls:
                    c.func = ast.copy_location(ast.Attribute(value=ast.copy_location(ast.Name(id="self", ctx=ast.Load()), c.func), attr=a.value.attr, ctx=ast.Load()), c.func)
                a._drop = True

        def prune(block):
            block[:] = [st for st in block if not getattr(st, "_drop", False)] or [ast.Pass()]
            for st in block:
                for fld in ("body", "orelse", "finalbody"):
                    b = getattr(st, fld, None)
                    if isinstance(b, list) and b and isinstance(b[0], ast.stmt):
                        prune(b)
                if isinstance(st, ast.Try):
                    for h in st.handlers:
                        prune(h.body)
        if any(getattr(x, "_drop", False) for x in ast.walk(fn)):
            prune(fn.body)
            ast.fix_missing_locations(fn)

    def visit_FunctionDef(self, n: ast.FunctionDef):
        stack = self.__dict__.setdefault("_fn_stack", [])
        counts: dict = {}
        for x in ast.walk(n):
            if isinstance(x, ast.Name):
                c = counts.setdefault(x.id, [0, 0])
                c[0 if isinstance(x.ctx, ast.Load) else 1] += 1
            elif isinstance(x, (ast.Global, ast.Nonlocal)):
                for nm in x.names:
                    counts.setdefault(nm, [0, 0])[1] += 5
        stack.append(counts)
        self.__dict__.setdefault("_fn_nodes", []).append(n)
        try:
            n = self.generic_visit(n)
            self._constant_return_guards(n.body)
            self._constant_tuple_locals(n)
            self._method_aliases(n)
            self._field_copies(n, counts)
            self._default_fills(n)
            self._flag_locals(n)
            self._stored_copies(n)
            self._entry_aliases(n, counts)
            self._item_copies(n, counts)
            self._working_copies(n)
            return n
        finally:
            stack.pop()
            self.__dict__["_fn_nodes"].pop()

    def _flag_locals(self, fn: ast.FunctionDef) -> None:
        """`emit = not self.flag_x` (assigned once, from attributes of `self` / parameters that the function never stores to, combined
        with not / and / or / comparisons with constants) read later is that expression: a name for a condition, nothing more."""
        stored_attrs = {x.attr for x in ast.walk(fn) if isinstance(x, ast.Attribute) and isinstance(x.ctx, (ast.Store, ast.Del))} | self.__dict__.get("_stored_attrs", set())
        stores = {}
        for x in ast.walk(fn):
            if isinstance(x, ast.Name) and isinstance(x.ctx, (ast.Store, ast.Del)):
                stores[x.id] = stores.get(x.id, 0) + 1
        params = {a.arg for a in ast.walk(fn.args) if isinstance(a, ast.arg)}

        def pure(e):
            if isinstance(e, ast.UnaryOp) and isinstance(e.op, ast.Not):
                return pure(e.operand)
            if isinstance(e, ast.BoolOp):
                return all(pure(v) for v in e.values)
            if isinstance(e, ast.Compare) and len(e.ops) == 1 and isinstance(e.comparators[0], ast.Constant):
                return pure(e.left)
            if isinstance(e, ast.Attribute) and isinstance(e.value, ast.Name) and e.value.id == "self":
                return e.attr not in stored_attrs and stores.get("self", 0) == 0
            if isinstance(e, ast.Name):
                return e.id in params and stores.get(e.id, 0) == 0
            return False
        blocks = [fn.body]
        for x in ast.walk(fn):
            if x is not fn and not isinstance(x, (ast.FunctionDef, ast.Lambda, ast.ClassDef)):
                for fld in ("body", "orelse", "finalbody"):
                    b = getattr(x, fld, None)
                    if isinstance(b, list) and b and isinstance(b[0], ast.stmt):
                        blocks.append(b)
        for body in blocks:
            for i, st in enumerate(list(body)):
                if isinstance(st, ast.Assign) and len(st.targets) == 1 and isinstance(st.targets[0], ast.Name) and stores.get(st.targets[0].id) == 1 \
                        and isinstance(st.value, (ast.UnaryOp, ast.BoolOp, ast.Compare)) and pure(st.value) and st.targets[0].id not in params:
                    name, val = st.targets[0].id, st.value
                    if any(isinstance(x, (ast.Global, ast.Nonlocal)) and name in x.names for x in ast.walk(fn)):
                        continue
                    if any(isinstance(x, ast.Name) and x.id == name and isinstance(x.ctx, ast.Load) and getattr(x, "lineno", 0) < getattr(st, "lineno", 0) for x in ast.walk(fn)):
                        continue
                    inside = {id(x) for other in body for x in ast.walk(other)}
                    if any(isinstance(x, ast.Name) and x.id == name and isinstance(x.ctx, ast.Load) and id(x) not in inside for x in ast.walk(fn)):
                        continue                             # read outside the block it is defined in

                    class _S(ast.NodeTransformer):
                        def visit_Name(self2, x):
                            if x.id == name and isinstance(x.ctx, ast.Load):
                                return ast.copy_location(copy.deepcopy(val), x)
                            return x
                    for other in body:
                        if other is not st:
                            _S().visit(other)
                    body.remove(st)
        # the substituted conditions are brought back into normal form (`not (not self.f)` -> `self.f`)
        for x in ast.walk(fn):
            for fld in ("test",):
                t = getattr(x, fld, None)
                if isinstance(t, ast.expr) and isinstance(x, (ast.If, ast.While, ast.IfExp)):
                    setattr(x, fld, self.visit(t))

    def _stored_copies(self, fn: ast.FunctionDef) -> None:
        """`t = e` / `obj.attr = t` / ... t ...  is  `obj.attr = e` / ... obj.attr ...: a local that only names the value on its way into
        a field, read afterwards while neither the object nor the field changes."""
        def scan(block: list[ast.stmt]):
            i = 0
            while i < len(block):
                st = block[i]
                for fld in ("body", "orelse", "finalbody"):
                    b = getattr(st, fld, None)
                    if isinstance(b, list) and b and isinstance(b[0], ast.stmt):
                        scan(b)
                if isinstance(st, ast.Try):
                    for h in st.handlers:
                        scan(h.body)
                nxt = block[i + 1] if i + 1 < len(block) else None
                if isinstance(st, ast.Assign) and len(st.targets) == 1 and isinstance(st.targets[0], ast.Name) and isinstance(nxt, ast.Assign) \
                        and len(nxt.targets) == 1 and isinstance(nxt.targets[0], ast.Attribute) and isinstance(nxt.targets[0].value, ast.Name) \
                        and isinstance(nxt.value, ast.Name) and nxt.value.id == st.targets[0].id and nxt.targets[0].value.id != st.targets[0].id \
                        and nxt.targets[0].attr not in self.__dict__.get("_props", set()):
                    name, owner, attr = st.targets[0].id, nxt.targets[0].value.id, nxt.targets[0].attr
                    total = self._loads_of_binding(fn, st)
                    if 1 <= total <= 40:
                        seen, j, ok = 1, i + 2, True           # the store itself is one read
                        while j < len(block) and seen < total and ok:
                            cur = block[j]
                            seen += sum(1 for x in ast.walk(cur) if isinstance(x, ast.Name) and x.id == name and isinstance(x.ctx, ast.Load))
                            for x in ast.walk(cur):
                                if isinstance(x, ast.Name) and x.id in (owner, name) and isinstance(x.ctx, (ast.Store, ast.Del)):
                                    ok = False
                                if isinstance(x, ast.Attribute) and isinstance(x.ctx, (ast.Store, ast.Del)) and x.attr == attr:
                                    ok = False
                                if isinstance(x, ast.Call) and ((isinstance(x.func, ast.Attribute) and isinstance(x.func.value, ast.Name) and x.func.value.id == owner)
                                                                or any(isinstance(a, ast.Name) and a.id == owner for a in list(x.args) + [k.value for k in x.keywords])):
                                    # the object handed on (`out.append(msg)`) is fine once every read of the local is behind us
                                    if seen < total or any(isinstance(y, ast.Name) and y.id == name for y in ast.walk(cur)):
                                        ok = ok and not (isinstance(x.func, ast.Attribute) and isinstance(x.func.value, ast.Name) and x.func.value.id == owner)
                                        ok = ok and x.func.attr in ("append", "add") if isinstance(x.func, ast.Attribute) else False
                                if isinstance(x, (ast.For, ast.While)) and any(isinstance(y, ast.Name) and y.id == name for y in ast.walk(x)):
                                    ok = False
                            j += 1
                        if ok and seen == total:
                            class _S(ast.NodeTransformer):
                                def visit_Name(self2, x):
                                    if x.id == name and isinstance(x.ctx, ast.Load):
                                        return ast.copy_location(ast.Attribute(value=ast.Name(id=owner, ctx=ast.Load()), attr=attr, ctx=ast.Load()), x)
                                    return x
                            for cur in block[i + 2:j]:
                                _S().visit(cur)
                            nxt.value = st.value
                            del block[i]
                            continue
                i += 1
        scan(fn.body)

    def _default_fills(self, fn: ast.FunctionDef) -> None:
        """`e = D if p is None else p` (as the if / else it abbreviates) is the default fill `if p is None: p = D` with `e` read as `p`,
        when `p` itself is not used any more; with e == p the else branch `p = p` does nothing and is dropped."""
        def is_none_test(t):
            if isinstance(t, ast.Compare) and len(t.ops) == 1 and isinstance(t.left, ast.Name) and isinstance(t.comparators[0], ast.Constant) \
                    and t.comparators[0].value is None and isinstance(t.ops[0], (ast.Is, ast.Eq, ast.IsNot, ast.NotEq)):
                return t.left.id, isinstance(t.ops[0], (ast.Is, ast.Eq))
            return None

        def single_assign(block):
            if len(block) == 1 and isinstance(block[0], ast.Assign) and len(block[0].targets) == 1 and isinstance(block[0].targets[0], ast.Name):
                return block[0]
            return None
        for st in [x for x in ast.walk(fn) if isinstance(x, ast.If)]:
            nt = is_none_test(st.test)
            a, b = single_assign(st.body), single_assign(st.orelse)
            if nt is None or a is None or b is None or a.targets[0].id != b.targets[0].id:
                continue
            p, positive = nt
            fill, keep = (a, b) if positive else (b, a)
            e = fill.targets[0].id
            if not (isinstance(keep.value, ast.Name) and keep.value.id == p) or any(isinstance(x, ast.Name) and x.id in (p, e) for x in ast.walk(fill.value)):
                continue
            if not hasattr(st, "lineno"):
                continue
            end = getattr(st, "end_lineno", None) or max((getattr(x, "lineno", st.lineno) for x in ast.walk(st)), default=st.lineno)
            if e != p:
                occ = [x for x in ast.walk(fn) if isinstance(x, ast.Name) and x.id in (p, e) and not any(x is y for y in ast.walk(st))]
                if any(not hasattr(x, "lineno") for x in occ):
                    continue
                if any(x.id == e and (isinstance(x.ctx, (ast.Store, ast.Del)) or x.lineno < st.lineno) for x in occ):
                    continue                                    # e is bound or read elsewhere
                if any(x.id == p and x.lineno > end for x in occ) or any(x.id == p and isinstance(x.ctx, (ast.Store, ast.Del)) and x.lineno >= st.lineno for x in occ):
                    continue                                    # p lives on: e and p would have to stay two variables
                if any(isinstance(x, (ast.Global, ast.Nonlocal)) and (p in x.names or e in x.names) for x in ast.walk(fn)):
                    continue
                for x in occ:
                    if x.id == e:
                        x.id = p
            st.test = ast.copy_location(ast.Compare(left=ast.copy_location(ast.Name(id=p, ctx=ast.Load()), st.test), ops=[ast.Is()],
                                                    comparators=[ast.copy_location(ast.Constant(value=None), st.test)]), st.test)
            st.body = [ast.copy_location(ast.Assign(targets=[ast.copy_location(ast.Name(id=p, ctx=ast.Store()), fill)], value=fill.value), fill)]
            st.orelse = []

    @staticmethod
    def _loads_of_binding(fn: ast.FunctionDef, st: ast.Assign) -> int:
        """How many reads of the name belong to this binding: those between it and the next binding of the name in the text (0 when
        the name is also read before its first binding, or declared global / nonlocal -- then positions say nothing)."""
        name = st.targets[0].id
        occ = [x for x in ast.walk(fn) if isinstance(x, ast.Name) and x.id == name]
        if any(not hasattr(x, "lineno") for x in occ) or not hasattr(st, "lineno"):
            ast.fix_missing_locations(fn)
            if any(not hasattr(x, "lineno") for x in occ):
                return 0
        if any(isinstance(x, (ast.Global, ast.Nonlocal)) and name in x.names for x in ast.walk(fn)):
            return 0
        stores = sorted(x.lineno for x in occ if isinstance(x.ctx, (ast.Store, ast.Del)))
        if any(isinstance(x.ctx, ast.Load) and x.lineno < stores[0] for x in occ):
            return 0
        nxt = min((l for l in stores if l > st.lineno), default=float("inf"))
        if sum(1 for l in stores if l == st.lineno) != 1:
            return 0
        return sum(1 for x in occ if isinstance(x.ctx, ast.Load) and st.lineno < x.lineno < nxt) \
            + sum(1 for x in occ if isinstance(x.ctx, ast.Load) and x.lineno == st.lineno and not any(x is y for y in ast.walk(st)))

    def _working_copies(self, fn: ast.FunctionDef) -> None:
        """`t = o.a; <statements that only compute with t>; o.a = t` is that computation on `o.a` itself: between the two copies
        nothing is called and no attribute `a` is touched, and `t` lives only there."""
        def scan(block: list[ast.stmt]):
            for st in block:
                for fld in ("body", "orelse", "finalbody"):
                    b = getattr(st, fld, None)
                    if isinstance(b, list) and b and isinstance(b[0], ast.stmt):
                        scan(b)
                if isinstance(st, ast.Try):
                    for h in st.handlers:
                        scan(h.body)
            i = 0
            while i < len(block):
                st = block[i]
                if isinstance(st, ast.Assign) and len(st.targets) == 1 and isinstance(st.targets[0], ast.Name) and isinstance(st.value, ast.Attribute) \
                        and isinstance(st.value.value, ast.Name) and st.value.value.id != st.targets[0].id:
                    t, o, a = st.targets[0].id, st.value.value.id, st.value.attr
                    j = next((k for k in range(i + 1, len(block)) if isinstance(block[k], ast.Assign) and len(block[k].targets) == 1
                              and isinstance(block[k].targets[0], ast.Attribute) and block[k].targets[0].attr == a and isinstance(block[k].targets[0].value, ast.Name)
                              and block[k].targets[0].value.id == o and isinstance(block[k].value, ast.Name) and block[k].value.id == t), None)
                    if j is not None and j > i + 1:
                        mid = block[i + 1:j]
                        inner = [x for m_ in mid for x in ast.walk(m_)]
                        calm = not any(isinstance(x, (ast.Call, ast.Yield, ast.YieldFrom, ast.Await, ast.Return, ast.Break, ast.Continue, ast.Raise, ast.Try, ast.With,
                                                       ast.FunctionDef, ast.Lambda)) for x in inner) \
                            and not any(isinstance(x, ast.Attribute) and x.attr == a for x in inner) \
                            and not any(isinstance(x, ast.Name) and x.id == o and isinstance(x.ctx, (ast.Store, ast.Del)) for x in inner)
                        inside = {id(x) for x in inner if isinstance(x, ast.Name) and x.id == t}
                        everywhere = [x for x in ast.walk(fn) if isinstance(x, ast.Name) and x.id == t]
                        only_there = len(everywhere) == len(inside) + 2
                        if calm and only_there and inside:
                            class R(ast.NodeTransformer):
                                def visit_Name(self_, n_):
                                    if n_.id == t:
                                        return ast.copy_location(ast.Attribute(value=ast.copy_location(ast.Name(id=o, ctx=ast.Load()), n_), attr=a, ctx=n_.ctx), n_)
                                    return n_
                            new_mid = [R().visit(m_) for m_ in mid]
                            block[i:j + 1] = new_mid
                            for m_ in new_mid:
                                for x in ast.walk(m_):
                                    for c in ast.iter_child_nodes(x):
                                        c._parent = x
                                m_._parent = getattr(st, "_parent", None)
                            continue
                i += 1
        scan(fn.body)

    def _item_copies(self, fn: ast.FunctionDef, counts: dict) -> None:
        """`first = pair[0]` used in the statements that follow, while `pair` is only appended to, is `pair[0]`."""
        def scan(block: list[ast.stmt]):
            i = 0
            while i < len(block):
                st = block[i]
                for fld in ("body", "orelse", "finalbody"):
                    b = getattr(st, fld, None)
                    if isinstance(b, list) and b and isinstance(b[0], ast.stmt):
                        scan(b)
                if isinstance(st, ast.Try):
                    for h in st.handlers:
                        scan(h.body)
                if isinstance(st, ast.Assign) and len(st.targets) == 1 and isinstance(st.targets[0], ast.Name) and isinstance(st.value, ast.Subscript) \
                        and isinstance(st.value.value, ast.Name) and isinstance(st.value.slice, ast.Constant) and isinstance(st.value.slice.value, int) \
                        and st.value.slice.value >= 0 and st.value.value.id != st.targets[0].id \
                        and 1 <= self._loads_of_binding(fn, st) <= 40:
                    name, owner = st.targets[0].id, st.value.value.id
                    total = self._loads_of_binding(fn, st)
                    seen, j, ok = 0, i + 1, True
                    while j < len(block) and seen < total and ok:
                        nxt = block[j]
                        seen += sum(1 for x in ast.walk(nxt) if isinstance(x, ast.Name) and x.id == name and isinstance(x.ctx, ast.Load))
                        for x in ast.walk(nxt):
                            if isinstance(x, ast.Name) and x.id == owner and isinstance(x.ctx, (ast.Store, ast.Del)):
                                ok = False
                            if isinstance(x, ast.Subscript) and isinstance(x.ctx, (ast.Store, ast.Del)) and isinstance(x.value, ast.Name) and x.value.id == owner:
                                ok = False
                            if isinstance(x, ast.Call):
                                if isinstance(x.func, ast.Attribute) and isinstance(x.func.value, ast.Name) and x.func.value.id == owner and x.func.attr not in ("append", "extend", "index", "count", "copy"):
                                    ok = False
                                if any(isinstance(a, ast.Name) and a.id == owner for a in list(x.args) + [k.value for k in x.keywords]):
                                    # handing the list to something that only reads it (`xs.index(pair)`, `out.extend(pair)`, `len(pair)`) is fine
                                    reader = (isinstance(x.func, ast.Attribute) and x.func.attr in ("index", "append", "extend", "count", "remove", "__contains__")
                                              and not (isinstance(x.func.value, ast.Name) and x.func.value.id == owner)) \
                                        or (isinstance(x.func, ast.Name) and x.func.id in ("len", "list", "tuple", "enumerate", "sorted", "min", "max", "sum", "any", "all", "iter"))
                                    if not reader:
                                        ok = False
                        j += 1
                    if ok and seen == total:
                        item = st.value

                        class _S(ast.NodeTransformer):
                            def visit_Name(self2, x):
                                if x.id == name and isinstance(x.ctx, ast.Load):
                                    return ast.copy_location(copy.deepcopy(item), x)
                                return x
                        for nxt in block[i + 1:j]:
                            _S().visit(nxt)
                        del block[i]
                        continue
                i += 1
        scan(fn.body)

    def _entry_aliases(self, fn: ast.FunctionDef, counts: dict) -> None:
        """`inner = table.setdefault(key, default)` followed, in the same block, by uses of `inner` is `table.setdefault(key, default)` and
        uses of `table[key]`: the entry is the same object as long as neither the table's entry nor the key's variables are rebound."""
        def scan(block: list[ast.stmt]):
            for i, st in enumerate(block):
                for fld in ("body", "orelse", "finalbody"):
                    b = getattr(st, fld, None)
                    if isinstance(b, list) and b and isinstance(b[0], ast.stmt):
                        scan(b)
                if isinstance(st, ast.Try):
                    for h in st.handlers:
                        scan(h.body)
                by_default = isinstance(st, ast.Assign) and len(st.targets) == 1 and isinstance(st.targets[0], ast.Name) and isinstance(st.value, ast.Call) \
                    and isinstance(st.value.func, ast.Attribute) and st.value.func.attr == "setdefault" and isinstance(st.value.func.value, ast.Name) \
                    and len(st.value.args) == 2 and not st.value.keywords
                # `inner = table[key]` with a computed key: the same, without the default
                by_key = isinstance(st, ast.Assign) and len(st.targets) == 1 and isinstance(st.targets[0], ast.Name) and isinstance(st.value, ast.Subscript) \
                    and isinstance(st.value.value, ast.Name) and not isinstance(st.value.slice, (ast.Constant, ast.Slice))
                if not (by_default or by_key):
                    continue
                if by_default:
                    name, table, key = st.targets[0].id, st.value.func.value.id, st.value.args[0]
                else:
                    name, table, key = st.targets[0].id, st.value.value.id, st.value.slice
                loads, stores = counts.get(name, [0, 0])
                if loads < 1 or name == table:
                    continue
                keynames = {x.id for x in ast.walk(key) if isinstance(x, ast.Name)}
                if any(isinstance(x, (ast.Call, ast.Await, ast.NamedExpr)) for x in ast.walk(key)):
                    continue
                rest = block[i + 1:]
                seen = sum(1 for y in rest for x in ast.walk(y) if isinstance(x, ast.Name) and x.id == name and isinstance(x.ctx, ast.Load))
                ok = True
                if seen != loads or stores != 1:
                    # other uses of the name: fine when each of them reads a later binding (`for inner in table.values(): ...` further down)
                    inside = {id(x) for y in rest for x in ast.walk(y)} | {id(st.targets[0])}
                    end = max((getattr(x, "lineno", 0) for y in rest for x in ast.walk(y)), default=st.lineno)
                    others = [x for x in ast.walk(fn) if isinstance(x, ast.Name) and x.id == name and id(x) not in inside]
                    if any(not hasattr(x, "lineno") for x in others):
                        continue
                    later = sorted(x.lineno for x in others if isinstance(x.ctx, ast.Store) and x.lineno > end)
                    ok = seen >= 1 and all(x.lineno > end and later and later[0] <= x.lineno for x in others) \
                        and not any(isinstance(x, ast.Name) and x.id == name and isinstance(x.ctx, (ast.Store, ast.Del)) for y in rest for x in ast.walk(y))
                for y in rest:
                    for x in ast.walk(y):
                        if isinstance(x, ast.Name) and isinstance(x.ctx, (ast.Store, ast.Del)) and (x.id == table or x.id in keynames):
                            ok = False
                        if isinstance(x, ast.Subscript) and isinstance(x.ctx, (ast.Store, ast.Del)) and isinstance(x.value, ast.Name) and x.value.id == table:
                            ok = False
                        if isinstance(x, ast.Call) and isinstance(x.func, ast.Attribute) and isinstance(x.func.value, ast.Name) and x.func.value.id == table \
                                and x.func.attr in ("pop", "popitem", "clear", "update", "__setitem__", "__delitem__"):
                            ok = False
                        if isinstance(x, ast.Attribute) and isinstance(x.ctx, (ast.Store, ast.Del)) and any(
                                isinstance(k, ast.Attribute) and k.attr == x.attr for k in ast.walk(key)):
                            ok = False
                if not ok:
                    continue

                class _S(ast.NodeTransformer):
                    def visit_Name(self2, x):
                        if x.id == name and isinstance(x.ctx, ast.Load):
                            return ast.copy_location(ast.Subscript(value=ast.Name(id=table, ctx=ast.Load()), slice=copy.deepcopy(key), ctx=ast.Load()), x)
                        return x
                for y in rest:
                    _S().visit(y)
                block[i] = ast.copy_location(ast.Expr(value=st.value), st) if by_default else ast.copy_location(ast.Pass(), st)
            if len(block) > 1 and any(isinstance(b_, ast.Pass) for b_ in block):
                block[:] = [b_ for b_ in block if not isinstance(b_, ast.Pass)] or block[:1]
        scan(fn.body)

    def _field_copies(self, fn: ast.FunctionDef, counts: dict) -> None:
        """`k = self.key` read a few statements later, with nothing in between that could change the field, is `self.key`:
        a local that only caches a plain field (not a property) for the statements that directly follow."""
        props = self.__dict__.get("_props", set())

        def scan(block: list[ast.stmt]):
            i = 0
            while i < len(block):
                st = block[i]
                for fld in ("body", "orelse", "finalbody"):
                    b = getattr(st, fld, None)
                    if isinstance(b, list) and b and isinstance(b[0], ast.stmt):
                        scan(b)
                if isinstance(st, ast.Try):
                    for h in st.handlers:
                        scan(h.body)
                if isinstance(st, ast.Assign) and len(st.targets) == 1 and isinstance(st.targets[0], ast.Name) and isinstance(st.value, ast.Attribute) \
                        and isinstance(st.value.value, ast.Name) and st.value.attr not in props and st.value.value.id != st.targets[0].id \
                        and counts.get(st.targets[0].id, [0, 0])[1] == 1 and 1 <= counts.get(st.targets[0].id, [0, 0])[0] <= 12:
                    name, attr, owner = st.targets[0].id, st.value.attr, st.value.value.id
                    total = counts[name][0]
                    seen, j, ok = 0, i + 1, True
                    while j < len(block) and seen < total and ok:
                        nxt = block[j]
                        here = sum(1 for x in ast.walk(nxt) if isinstance(x, ast.Name) and x.id == name and isinstance(x.ctx, ast.Load))
                        seen += here
                        last = seen >= total
                        for x in ast.walk(nxt):
                            if isinstance(x, ast.Call) and ((isinstance(x.func, ast.Attribute) and isinstance(x.func.value, ast.Name) and x.func.value.id == owner)
                                                            or any(isinstance(a, ast.Name) and a.id == owner for a in list(x.args) + [k.value for k in x.keywords])):
                                ok = False            # a method of the object, or a function it is handed to, may rebind the field
                            if isinstance(x, ast.Name) and x.id == owner and isinstance(x.ctx, (ast.Store, ast.Del)):
                                ok = False            # the name now denotes another object
                            if isinstance(x, ast.Attribute) and isinstance(x.ctx, (ast.Store, ast.Del)) and x.attr == attr:
                                par_ok = last and isinstance(nxt, (ast.Assign, ast.If))      # value read before the store in `self.a = f(k)`
                                stores_after_reads = all(isinstance(a, ast.Assign) and any(t is x for t in a.targets) and
                                                         any(isinstance(y, ast.Name) and y.id == name for y in ast.walk(a.value))
                                                         for a in ast.walk(nxt) if isinstance(a, ast.Assign) and any(t is x for t in a.targets))
                                sts = [a for a in ast.walk(nxt) if isinstance(a, ast.Assign) and any(t is x for t in a.targets)]
                                late = any(isinstance(y, ast.Name) and y.id == name and getattr(y, "lineno", 0) > getattr(a, "end_lineno", a.lineno)
                                           for a in sts for y in ast.walk(nxt))
                                if not (par_ok and stores_after_reads and sts and not late):
                                    ok = False
                            if isinstance(x, (ast.For, ast.While)) and here:
                                ok = False
                        j += 1
                    if ok and seen == total:
                        for nxt in block[i + 1:j]:
                            class _S(ast.NodeTransformer):
                                def visit_Name(self2, x):
                                    if x.id == name and isinstance(x.ctx, ast.Load):
                                        return ast.copy_location(ast.Attribute(value=ast.Name(id=owner, ctx=ast.Load()), attr=attr, ctx=ast.Load()), x)
                                    return x
                            _S().visit(nxt)
                        del block[i]
                        continue
                i += 1
        scan(fn.body)

    _PURE_CALLS = {"int", "float", "len", "min", "max", "round", "abs", "sorted", "list", "tuple", "set", "dict", "str", "bool", "sum", "next", "any", "all", "enumerate", "zip", "range", "reversed", "isinstance", "getattr"}

    def _pure_value(self, e: ast.AST) -> bool:
        """No effect other than building a value: constructors (capitalised names), a few builtins, arithmetic, attribute reads."""
        for x in ast.walk(e):
            if isinstance(x, ast.Call):
                f = x.func
                nm = f.id if isinstance(f, ast.Name) else None
                if nm is None or not (nm in self._PURE_CALLS or nm[:1].isupper()):
                    return False
                if nm == "next" and not (x.args and isinstance(x.args[0], ast.GeneratorExp)):
                    return False                       # taking from a shared iterator is an effect
            if isinstance(x, (ast.Yield, ast.YieldFrom, ast.Await, ast.NamedExpr, ast.Lambda)):
                return False
        return True

    @staticmethod
    def _first_iterable_or_plain(value: ast.AST, name: str) -> bool:
        """The single read of `name` in `value` is evaluated exactly once and unconditionally: not inside a comprehension except as the
        iterable of its first `for` (which is evaluated when the comprehension is created)."""
        for c in ast.walk(value):
            if isinstance(c, (ast.ListComp, ast.SetComp, ast.GeneratorExp, ast.DictComp)):
                inside = [x for x in ast.walk(c) if isinstance(x, ast.Name) and x.id == name]
                if inside:
                    first_iter = [x for x in ast.walk(c.generators[0].iter) if isinstance(x, ast.Name) and x.id == name]
                    if len(first_iter) != len(inside):
                        return False
        return True

    def _single_use_temp(self, name: str, test: ast.AST) -> bool:
        stack = self.__dict__.get("_fn_stack") or []
        if not stack:
            return False
        loads, stores = stack[-1].get(name, [0, 0])
        if loads != 1 or stores != 1:
            return False
        return sum(1 for x in ast.walk(test) if isinstance(x, ast.Name) and x.id == name and isinstance(x.ctx, ast.Load)) == 1

    def generic_visit(self, node):
        if isinstance(node, ast.If) and len(node.orelse) == 1 and isinstance(node.orelse[0], ast.If):
            node.orelse[0]._is_elif = True      # type: ignore[attr-defined]
        super().generic_visit(node)
        for fld in ("body", "orelse", "finalbody"):
            b = getattr(node, fld, None)
            if isinstance(b, list) and len(b) > 1 and isinstance(b[0], ast.stmt):
                # an explicit accumulate-by-append loop is the same statement as the list comprehension
                i, nb = 0, []
                while i < len(b):
                    r = self._reroll(b[i], b[i + 1]) if i + 1 < len(b) else None
                    if r is not None:
                        nb.append(r)
                        i += 2
                    else:
                        nb.append(b[i])
                        i += 1
                if len(nb) != len(b):
                    setattr(node, fld, nb)
        for fld in ("body", "orelse", "finalbody"):
            b = getattr(node, fld, None)
            if isinstance(b, list) and len(b) > 1 and isinstance(b[0], ast.stmt):
                # a temporary that only names (part of) the condition of the `if` that follows it is that condition:
                # `n = len(xs)` / `if n != 1:`  ==  `if len(xs) != 1:`   (assigned once, read once -- in that test)
                i, nb = 0, []
                while i < len(b):
                    st = b[i]
                    nxt = b[i + 1] if i + 1 < len(b) else None
                    if isinstance(st, ast.Assign) and len(st.targets) == 1 and isinstance(st.targets[0], ast.Name) and isinstance(nxt, ast.If) \
                            and self._single_use_temp(st.targets[0].id, nxt.test):
                        name = st.targets[0].id

                        class _Sub(ast.NodeTransformer):
                            def visit_Name(self2, n):
                                if n.id == name and isinstance(n.ctx, ast.Load):
                                    return ast.copy_location(copy.deepcopy(st.value), n)
                                return n
                        nxt.test = _Sub().visit(nxt.test)
                        if isinstance(nxt.test, ast.Compare):
                            nxt.test = self.visit_Compare(nxt.test)
                        i += 1
                        continue
                    # a plain alias `t = name` that is read once, by the simple statement that follows it, is that name
                    if isinstance(st, ast.Assign) and len(st.targets) == 1 and isinstance(st.targets[0], ast.Name) and isinstance(st.value, ast.Name) \
                            and isinstance(nxt, (ast.Expr, ast.Assign, ast.AugAssign, ast.Return)) and self._single_use_temp(st.targets[0].id, nxt) \
                            and not any(isinstance(x, ast.Name) and x.id == st.value.id and isinstance(x.ctx, ast.Store) for x in ast.walk(nxt)):
                        name, repl = st.targets[0].id, st.value.id
                        for x in ast.walk(nxt):
                            if isinstance(x, ast.Name) and x.id == name and isinstance(x.ctx, ast.Load):
                                x.id = repl
                        i += 1
                        continue
                    # a temporary read once by the assignment that directly follows, whose right-hand side does nothing else that could
                    # interfere (only builtins around it): `ts = seq.times_of(K)` / `found = any(t[0] == 0 for t in ts)`
                    if isinstance(st, ast.Assign) and len(st.targets) == 1 and isinstance(st.targets[0], ast.Name) and isinstance(nxt, ast.Assign) \
                            and len(nxt.targets) == 1 and isinstance(nxt.targets[0], ast.Name) and nxt.targets[0].id != st.targets[0].id \
                            and self._single_use_temp(st.targets[0].id, nxt.value) and isinstance(st.value, ast.Call) \
                            and all((isinstance(c_.func, ast.Name) and c_.func.id in self._PURE_CALLS) for c_ in ast.walk(nxt.value) if isinstance(c_, ast.Call)) \
                            and not any(isinstance(x, (ast.Lambda, ast.IfExp, ast.BoolOp)) for x in ast.walk(nxt.value)) \
                            and self._first_iterable_or_plain(nxt.value, st.targets[0].id):
                        name = st.targets[0].id

                        class _Sub2(ast.NodeTransformer):
                            def visit_Name(self2, n):
                                if n.id == name and isinstance(n.ctx, ast.Load):
                                    return ast.copy_location(st.value, n)
                                return n
                        nxt.value = _Sub2().visit(nxt.value)
                        i += 1
                        continue
                    # a value built into a temporary that the next statement uses once, as an argument of its own call
                    # (`pad = Message(..)` / `xs.append(pad)`): building it is the only effect, whichever side of the method look-up it is on
                    if isinstance(st, ast.Assign) and len(st.targets) == 1 and isinstance(st.targets[0], ast.Name) and self._pure_value(st.value) \
                            and isinstance(nxt, ast.Expr) and isinstance(nxt.value, ast.Call) and self._single_use_temp(st.targets[0].id, nxt) \
                            and any(isinstance(a, ast.Name) and a.id == st.targets[0].id for a in list(nxt.value.args) + [k.value for k in nxt.value.keywords]) \
                            and not any(isinstance(x, ast.Name) and isinstance(x.ctx, ast.Store) for x in ast.walk(nxt)):
                        name = st.targets[0].id
                        nxt.value.args = [ast.copy_location(st.value, a) if isinstance(a, ast.Name) and a.id == name else a for a in nxt.value.args]
                        for k in nxt.value.keywords:
                            if isinstance(k.value, ast.Name) and k.value.id == name:
                                k.value = st.value
                        i += 1
                        continue
                    # `r = self.abs` read once, as the receiver of the call that the next statement makes first: the receiver is
                    # evaluated before the arguments either way, so `r.merge(xs)` is `self.abs.merge(xs)`
                    if isinstance(st, ast.Assign) and len(st.targets) == 1 and isinstance(st.targets[0], ast.Name) and isinstance(st.value, ast.Attribute) \
                            and isinstance(st.value.value, ast.Name) and isinstance(nxt, (ast.Expr, ast.Assign, ast.Return)) \
                            and isinstance(nxt.value, ast.Call) and isinstance(nxt.value.func, ast.Attribute) and isinstance(nxt.value.func.value, ast.Name) \
                            and nxt.value.func.value.id == st.targets[0].id and self._single_use_temp(st.targets[0].id, nxt):
                        nxt.value.func.value = ast.copy_location(copy.deepcopy(st.value), nxt.value.func.value)
                        i += 1
                        continue
                    nb.append(st)
                    i += 1
                if len(nb) != len(b):
                    setattr(node, fld, nb)
        # Guard clauses in a loop: `if c: A; continue` followed by R is `if c: A else: R`; a `continue` that ends up last on its path
        # through the loop body does nothing and is dropped (`if c: continue` + R becomes `if not c: R`).
        if isinstance(node, (ast.For, ast.While)) and isinstance(node.body, list):
            node.body = self._unguard(node.body, True)
        for fld in ("body", "orelse", "finalbody"):
            b = getattr(node, fld, None)
            if isinstance(b, list) and len(b) > 1 and any(isinstance(x, ast.Pass) for x in b):
                nb = [x for x in b if not isinstance(x, ast.Pass)]
                if nb:
                    setattr(node, fld, nb)
        return node


def set_parents(tree: ast.AST) -> None:
    for n in ast.walk(tree):
        for c in ast.iter_child_nodes(n):
            c._parent = n  # type: ignore[attr-defined]


_TREE_CACHE: dict = {}
_RAW_CACHE: dict = {}


class Program:
    def __init__(self, sources: dict[str, str], data_files: dict[str, str] | None = None, root: str = "<memory>"):
        self.root = root
        self.sources = sources
        self.data_files = data_files or {}
        self.modules: dict[str, ModuleInfo] = {}
        self.classes: dict[str, ClassInfo] = {}
        self.functions: dict[str, FuncInfo] = {}
        self.module_funcs: dict[str, FuncInfo] = {}
        self.enums: dict[str, list[tuple[str, object]]] = {}
        self.settings: dict[str, object] = {}
        self.settings_unresolved: list[str] = []
        from .inline import inline_private_helpers, inherited_helpers
        from .sra import split_tuple_locals
        # private helpers inherited from a base class in another module are inlined too: which ones a module sees is part of its cache key
        raw = {}
        for path, src in sources.items():
            r_ = _RAW_CACHE.get((path, src))
            if r_ is None:
                try:
                    r_ = ast.parse(src, filename=path)
                except SyntaxError as e:
                    raise AnalysisError(f"{path}: does not parse: {e}")
                if len(_RAW_CACHE) > 400:
                    _RAW_CACHE.clear()
                _RAW_CACHE[(path, src)] = r_
            raw[path] = r_
        foreign = inherited_helpers(raw)
        for path, src in sorted(sources.items()):
            extra = foreign.get(path) or {}
            key = (path, src, tuple(sorted((k, ast.dump(v)) for k, v in extra.items())))
            tree = _TREE_CACHE.get(key)
            if tree is None:
                try:
                    tree = ast.parse(src, filename=path)
                except SyntaxError as e:
                    raise AnalysisError(f"{path}: does not parse: {e}")
                split_tuple_locals(tree)              # `sig = (n, d)` used only piecewise is two locals
                inline_private_helpers(tree, extra)   # "extract helper" undone before anything looks at the shape of a function
                tree = _Canon().visit(tree)
                ast.fix_missing_locations(tree)
                set_parents(tree)
                if len(_TREE_CACHE) > 400:
                    _TREE_CACHE.clear()
                _TREE_CACHE[key] = tree      # trees are never mutated after loading: variants share the unchanged modules
            self.modules[path] = ModuleInfo(path, src, tree)
        self._index()
        self._load_settings()

    # ------------------------------------------------------------------ loading
    @staticmethod
    def load(root: str) -> "Program":
        pkg = os.path.join(root, "scoda")
        if not os.path.isdir(pkg):
            raise AnalysisError(f"{pkg}: package directory not found")
        sources, data = {}, {}
        for dirpath, dirnames, filenames in os.walk(pkg):
            dirnames[:] = [d for d in dirnames if d != "__pycache__"]
            for fn in sorted(filenames):
                full = os.path.join(dirpath, fn)
                rel = os.path.relpath(full, root)
                if fn.endswith(".py"):
                    with open(full, encoding="utf-8") as f:
                        sources[rel] = f.read()
                elif fn.endswith(".json"):
                    with open(full, encoding="utf-8") as f:
                        data[rel] = f.read()
        return Program(sources, data, root=root)

    def with_source(self, path: str, new_src: str) -> "Program":
        s = dict(self.sources)
        s[path] = new_src
        return Program(s, self.data_files, root=self.root)

    # ------------------------------------------------------------------ index
    def _index(self) -> None:
        def dissolved(fn: ast.FunctionDef, path: str) -> bool:
            # a private helper whose every call in its module was inlined, and that no other module mentions
            return getattr(fn, "_dissolved", False) and not any(fn.name in s for q, s in self.sources.items() if q != path)
        for path, mod in self.modules.items():
            for node in mod.tree.body:
                if isinstance(node, ast.ClassDef):
                    bases = []
                    for b in node.bases:
                        if isinstance(b, ast.Name):
                            bases.append(b.id)
                        elif isinstance(b, ast.Attribute):
                            bases.append(b.attr)
                    ci = ClassInfo(node.name, node, path, bases)
                    self.classes[node.name] = ci
                    for item in node.body:
                        if isinstance(item, ast.FunctionDef) and dissolved(item, path):
                            continue
                        if isinstance(item, ast.FunctionDef):
                            fi = FuncInfo(f"{node.name}.{item.name}", item.name, item, node.name, path)
                            # property setter would clash; repo has none
                            ci.methods[item.name] = fi
                            self.functions[fi.qualname] = fi
                            self._index_nested(fi)
                        elif isinstance(item, ast.Assign) and len(item.targets) == 1 and isinstance(item.targets[0], ast.Name):
                            ci.class_attrs[item.targets[0].id] = item.value
                    if any(b in ("Enum", "enum.Enum") or b.endswith("Enum") for b in bases):
                        members = []
                        for item in node.body:
                            if isinstance(item, ast.Assign) and len(item.targets) == 1 and isinstance(item.targets[0], ast.Name):
                                try:
                                    members.append((item.targets[0].id, ast.literal_eval(item.value)))
                                except Exception:
                                    members.append((item.targets[0].id, None))
                        self.enums[node.name] = members
                elif isinstance(node, ast.FunctionDef) and not dissolved(node, path):
                    fi = FuncInfo(node.name, node.name, node, None, path)
                    self.functions[fi.qualname] = fi
                    self.module_funcs[node.name] = fi
                    self._index_nested(fi)

    def _index_nested(self, outer: FuncInfo) -> None:
        for n in walk_local(outer.node):
            if isinstance(n, ast.FunctionDef):
                fi = FuncInfo(f"{outer.qualname}.{n.name}", n.name, n, outer.cls, outer.file, parent_func=outer)
                self.functions[fi.qualname] = fi
                self._index_nested(fi)

    # ------------------------------------------------------------------ settings
    def _load_settings(self) -> None:
        path = "scoda/settings/settings.py"
        mod = self.modules.get(path)
        if mod is None:
            return
        jpath = "scoda/config/default_settings.json"
        try:
            data = json.loads(self.data_files[jpath]) if jpath in self.data_files else None
        except Exception:
            data = None
        fn = self.module_funcs.get("load_from_file")
        if fn is None or data is None:
            return
        globals_declared = set()
        for n in walk_local(fn.node):
            if isinstance(n, ast.Global):
                globals_declared.update(n.names)
        # the variable holding the parsed JSON: X = json.load(...)
        json_vars = set()
        for n in walk_local(fn.node):
            if isinstance(n, ast.Assign) and isinstance(n.value, ast.Call):
                f = n.value.func
                if isinstance(f, ast.Attribute) and f.attr in ("load", "loads") and isinstance(f.value, ast.Name) and f.value.id == "json":
                    for t in n.targets:
                        if isinstance(t, ast.Name):
                            json_vars.add(t.id)

        def resolve(e: ast.expr):
            if isinstance(e, ast.Subscript):
                base = resolve(e.value)
                if base is _UNKNOWN:
                    return _UNKNOWN
                try:
                    k = ast.literal_eval(e.slice)
                    return base[k]
                except Exception:
                    return _UNKNOWN
            if isinstance(e, ast.Name) and e.id in json_vars:
                return data
            return _UNKNOWN

        assigned: dict[str, list] = {}
        for n in fn.node.body:
            if isinstance(n, ast.Assign) and len(n.targets) == 1 and isinstance(n.targets[0], ast.Name):
                name = n.targets[0].id
                if name in globals_declared:
                    assigned.setdefault(name, []).append(resolve(n.value))
        for name, vals in assigned.items():
            if len(vals) == 1 and vals[0] is not _UNKNOWN:
                self.settings[name] = vals[0]
            else:
                self.settings_unresolved.append(name)
        for name in globals_declared:
            if name not in assigned:
                self.settings_unresolved.append(name)

    # ------------------------------------------------------------------ helpers
    def func(self, qualname: str) -> FuncInfo:
        fi = self.functions.get(qualname)
        if fi is None and "." in qualname:
            # a method moved to a base class is still the method of the class (resolved along the MRO)
            c, _, m = qualname.partition(".")
            if c in self.classes and "." not in m:
                fi = self.lookup_method(c, m)
        if fi is None:
            raise AnalysisError(f"anchor function {qualname} not found in the source tree")
        return fi

    def cls(self, name: str) -> ClassInfo:
        ci = self.classes.get(name)
        if ci is None:
            raise AnalysisError(f"anchor class {name} not found in the source tree")
        return ci

    def mro(self, cls: str) -> list[str]:
        out, todo = [], [cls]
        while todo:
            c = todo.pop(0)
            if c in out or c not in self.classes:
                continue
            out.append(c)
            todo.extend(self.classes[c].bases)
        return out

    def lookup_method(self, cls: str, name: str) -> FuncInfo | None:
        for c in self.mro(cls):
            m = self.classes[c].methods.get(name)
            if m is not None:
                return m
        return None

    def methods_named(self, name: str) -> list[FuncInfo]:
        return [ci.methods[name] for ci in self.classes.values() if name in ci.methods]

    def enum_values(self, cls: str) -> dict[str, object]:
        if cls not in self.enums:
            raise AnalysisError(f"enum {cls} not found")
        return dict(self.enums[cls])

    def enum_order(self, cls: str) -> list[str]:
        if cls not in self.enums:
            raise AnalysisError(f"enum {cls} not found")
        return [m for m, _ in self.enums[cls]]

    def all_functions(self) -> list[FuncInfo]:
        return list(self.functions.values())


class _Unknown:
    def __repr__(self):
        return "<unknown>"


_UNKNOWN = _Unknown()
