"""./check <id>|all [--tier quick|thorough] | --replay <report.json>"""
from __future__ import annotations

import argparse
import importlib
import json
import os
import sys
import time
import traceback

from .model import Program, AnalysisError
from .report import Ctx, emit
from .props.common import run_property as run_rules

PROPS = [f"C{n:02d}" for n in range(1, 21)]


def run_property(prop: str, tier: str, program: Program, seed: int, quiet: bool = False) -> int:
    t0 = time.time()
    mod = importlib.import_module(f"sa.props.{prop.lower()}")
    ctx = Ctx(program, prop, tier)
    run_rules(ctx)
    ctx.finish()
    if tier == "thorough":
        from . import selfcheck
        selfcheck.run(ctx)
        if hasattr(mod, "thorough"):
            mod.thorough(ctx)
    return emit(ctx, time.time() - t0, seed, quiet=quiet)


def main(argv=None) -> int:
    import signal
    try:
        signal.signal(signal.SIGPIPE, signal.SIG_DFL)
    except Exception:
        pass
    ap = argparse.ArgumentParser(prog="check")
    ap.add_argument("prop", nargs="?")
    ap.add_argument("--tier", default=os.environ.get("VERIF_TIER", "quick"), choices=["quick", "thorough"])
    ap.add_argument("--replay")
    ap.add_argument("--repo", default=os.environ.get("SCODA_REPO", "/repo"))
    args = ap.parse_args(argv)
    try:
        seed = int(os.environ.get("VERIF_SEED", "0"))
    except ValueError:
        seed = 0
    try:
        program = Program.load(args.repo)
        if args.replay:
            with open(args.replay) as f:
                rep = json.load(f)
            prop = rep["property"]
            mod = importlib.import_module(f"sa.props.{prop.lower()}")
            ctx = Ctx(program, prop, "quick")
            run_rules(ctx)
            ctx.finish()
            hit = [f for f in ctx.findings if f.key == rep["key"]]
            if hit:
                print(f"REPLAY: still violated on the current tree: property={prop}")
                print(hit[0].diagnostic())
                return 1
            print(f"REPLAY: finding {rep['key']} ({rep['rule']} {rep['function']}) no longer present on the current tree")
            return 0
        if not args.prop:
            ap.error("property id or 'all' required")
        if args.prop.lower() == "all":
            rc = 0
            for p in PROPS:
                if os.path.exists(os.path.join(os.path.dirname(__file__), "props", f"{p.lower()}.py")):
                    rc = max(rc, run_property(p, args.tier, program, seed))
            return rc
        prop = args.prop.upper()
        if prop not in PROPS:
            ap.error(f"unknown property {prop}")
        return run_property(prop, args.tier, program, seed)
    except AnalysisError as e:
        print(f"ANALYSIS-ERROR {e}")
        return 2
    except Exception:
        print("ANALYSIS-ERROR internal error in the analyser:")
        traceback.print_exc()
        return 2


if __name__ == "__main__":
    sys.exit(main())
