"""Developer helper: run a property check on an in-memory variant of /repo (textual replacement)."""
from __future__ import annotations

import importlib
import sys

from .model import Program, AnalysisError
from .report import Ctx, load_known_findings, match_known


def run_variant(program: Program, prop: str, path: str, old: str, new: str, count: int = 1):
    srcs = program.sources[path]
    if srcs.count(old) < 1:
        raise SystemExit(f"pattern not found in {path}: {old!r}")
    var = program.with_source(path, srcs.replace(old, new, count))
    return run_on(var, prop)


def run_on(program: Program, prop: str):
    mod = importlib.import_module(f"sa.props.{prop.lower()}")
    ctx = Ctx(program, prop, "quick")
    try:
        mod.check(ctx)
        ctx.finish()
    except AnalysisError as e:
        return ctx, f"ANALYSIS-ERROR {e}"
    return ctx, None


def main():
    prop, path, old, new = sys.argv[1:5]
    program = Program.load("/repo")
    ctx, err = run_variant(program, prop.upper(), path, old.encode().decode("unicode_escape"), new.encode().decode("unicode_escape"))
    if err:
        print(err)
    known = load_known_findings()
    for f in ctx.findings:
        tag = "KNOWN" if match_known(f, known) else "NEW"
        print(tag, f.diagnostic())
    print(f"{len(ctx.findings)} finding(s), {len(ctx.obligations)} obligations")


if __name__ == "__main__":
    main()
