"""Load-time inlining of private helpers (canonical form, like `model._Canon`).

"Extract a helper" is the most common behaviour-preserving edit a maintainer makes, and it is fatal for rules that read the shape of
one function: the loop that did the work now calls `self._close_note(...)`, the capacity formula lives in `_get_bar_capacity`.  This
pass undoes it before any analysis runs: a call of a *private* function of the same module / method of the same class (name starts with
one underscore) is replaced by the helper's body, when that can be done without changing the meaning:

  * expression helpers (`return <expr>` only) are substituted wherever they are called;
  * statement helpers are inlined where the call is the whole right-hand side of an assignment, a bare expression statement, the
    operand of an augmented assignment, a `return`, or the whole test of an `if`; every `return` of the helper must be in tail
    position (guard clauses are rewritten into if/else), otherwise the call is left alone;
  * parameters are substituted when the argument is a plain name / attribute / constant and the helper does not assign the parameter,
    otherwise bound to a local first; helper locals that clash with names of the host are renamed;
  * helpers the rule set refers to by name (`KEEP`: (class, name) of the private routines of the pinned tree) are never inlined, nor are
    generators, recursive helpers, helpers with nested functions, decorators other than @staticmethod, or *args / **kwargs.

Inlined statements get line numbers between the call's line and the next one (call line + k / 10000), so that rules which order
statements by position keep working; reports print the integer part (the call site).
"""
from __future__ import annotations

import ast
import copy

# (class, name) of the private routines of the pinned tree that rules refer to by name; a new helper that merely shares a name is not kept
KEEP = {("AbsoluteSequence", "_add_message_unsorted"), ("RelativeSequence", "_add_message_unsorted"), ("AbstractSequence", "_add_message_unsorted"),
        ("MultiTrackLargeVocabularyNotelikeTokeniser", "_construct_dictionary"), ("MultiTrackLargeVocabularyNotelikeTokeniser", "_split_token"),
        ("Sequence", "_fill_dictionary_entry")}
MAX_STATEMENTS = 80


class NotInlinable(Exception):
    pass


def _is_private(name: str, cls: str | None = None) -> bool:
    return name.startswith("_") and not name.startswith("__") and (cls, name) not in KEEP


def _simple(e: ast.AST) -> bool:
    """An argument that can be substituted textually: names, constants, attribute / subscript chains on them."""
    if isinstance(e, (ast.Name, ast.Constant)):
        return True
    if isinstance(e, ast.Attribute):
        return _simple(e.value)
    if isinstance(e, ast.Subscript):
        return _simple(e.value) and _simple(e.slice)
    if isinstance(e, ast.UnaryOp) and isinstance(e.operand, ast.Constant):
        return True
    return False


def _body_without_doc(fn: ast.FunctionDef) -> list[ast.stmt]:
    b = list(fn.body)
    if b and isinstance(b[0], ast.Expr) and isinstance(b[0].value, ast.Constant) and isinstance(b[0].value.value, str):
        b = b[1:]
    return b


class _Helper:
    def __init__(self, fn: ast.FunctionDef, cls: str | None):
        self.fn = fn
        self.cls = cls
        self.static = any(isinstance(d, ast.Name) and d.id == "staticmethod" for d in fn.decorator_list)
        self.body = _body_without_doc(fn)
        self.generator = any(isinstance(n, ast.Yield) for n in ast.walk(fn))
        self._collapse()
        self.expr = self.body[0].value if len(self.body) == 1 and isinstance(self.body[0], ast.Return) and self.body[0].value is not None else None
        a = fn.args
        self.params = [x.arg for x in a.posonlyargs + a.args]
        self.kwonly = [x.arg for x in a.kwonlyargs]
        nd = len(a.defaults)
        self.defaults = {p: d for p, d in zip(self.params[len(self.params) - nd:], a.defaults)} if nd else {}
        for p, d in zip(self.kwonly, a.kw_defaults):
            if d is not None:
                self.defaults[p] = d
        self.assigned = {n.id for n in ast.walk(fn) if isinstance(n, ast.Name) and isinstance(n.ctx, (ast.Store, ast.Del))}

    def _collapse(self) -> None:
        """`acc = []; for v in xs: acc.append(e); return acc` and `t = e; return t` are the expression helper `return e`."""
        from .model import _Canon
        b = self.body
        # `if c: return a` / `return b` (or with else) is the expression helper `return a if c else b`
        if len(b) in (1, 2) and isinstance(b[0], ast.If) and len(b[0].body) == 1 and isinstance(b[0].body[0], ast.Return) and b[0].body[0].value is not None:
            other = None
            if len(b) == 2 and not b[0].orelse and isinstance(b[1], ast.Return) and b[1].value is not None:
                other = b[1].value
            elif len(b) == 1 and len(b[0].orelse) == 1 and isinstance(b[0].orelse[0], ast.Return) and b[0].orelse[0].value is not None:
                other = b[0].orelse[0].value
            if other is not None:
                self.body = b = [ast.copy_location(ast.Return(value=ast.copy_location(ast.IfExp(test=b[0].test, body=b[0].body[0].value, orelse=other), b[0])), b[0])]
        if len(b) == 3 and isinstance(b[2], ast.Return):
            r = _Canon._reroll(copy.deepcopy(b[0]), copy.deepcopy(b[1]))
            if r is not None:
                b = [r, b[2]]
        if len(b) == 2 and isinstance(b[0], ast.Assign) and len(b[0].targets) == 1 and isinstance(b[0].targets[0], ast.Name) \
                and isinstance(b[1], ast.Return) and isinstance(b[1].value, ast.Name) and b[1].value.id == b[0].targets[0].id:
            self.body = [ast.copy_location(ast.Return(value=b[0].value), b[1])]
        elif len(b) == 2 and isinstance(b[0], ast.Assign) and len(b[0].targets) == 1 and isinstance(b[0].targets[0], ast.Name) \
                and isinstance(b[1], ast.Return) and b[1].value is not None \
                and sum(1 for x in ast.walk(b[1].value) if isinstance(x, ast.Name) and x.id == b[0].targets[0].id) == 1 \
                and not any(isinstance(x, (ast.Lambda, ast.GeneratorExp, ast.ListComp, ast.SetComp, ast.DictComp, ast.IfExp, ast.BoolOp)) for x in ast.walk(b[1].value)):
            # `t = e; return g(t)` with t read once (and always): the expression helper `return g(e)`
            name, val = b[0].targets[0].id, b[0].value

            class _S(ast.NodeTransformer):
                def visit_Name(self2, x):
                    return ast.copy_location(copy.deepcopy(val), x) if x.id == name and isinstance(x.ctx, ast.Load) else x
            self.body = [ast.copy_location(ast.Return(value=_S().visit(copy.deepcopy(b[1].value))), b[1])]

    @staticmethod
    def eligible(fn: ast.FunctionDef, cls: str | None = None) -> bool:
        if not _is_private(fn.name, cls):
            return False
        if any(not (isinstance(d, ast.Name) and d.id == "staticmethod") for d in fn.decorator_list):
            return False
        if fn.args.vararg or fn.args.kwarg:
            return False
        n_stmt = 0
        for n in ast.walk(fn):
            if isinstance(n, ast.Yield) and _simple_generator(fn):
                continue
            if isinstance(n, (ast.Yield, ast.YieldFrom, ast.Await, ast.Global, ast.Nonlocal)):
                return False
            if n is not fn and isinstance(n, (ast.FunctionDef, ast.AsyncFunctionDef, ast.ClassDef, ast.Lambda)):
                return False
            if isinstance(n, ast.stmt):
                n_stmt += 1
            if isinstance(n, ast.Call):
                f = n.func
                nm = f.attr if isinstance(f, ast.Attribute) else (f.id if isinstance(f, ast.Name) else None)
                if nm == fn.name:
                    return False         # recursive
        return n_stmt <= MAX_STATEMENTS


def _simple_generator(fn: ast.FunctionDef) -> bool:
    """`def g(..): [assignments] for v in xs: [if c:] yield e` -- one loop, one `yield` statement that ends its path through the loop
    body, no `return`: a `for x in g(..): BODY` is then that loop with `x = e; BODY` in place of the yield."""
    body = _body_without_doc(fn)
    if not body or not isinstance(body[-1], ast.For) or body[-1].orelse or any(not isinstance(s, ast.Assign) for s in body[:-1]):
        return False
    ys = [n for n in ast.walk(fn) if isinstance(n, (ast.Yield, ast.YieldFrom))]
    if len(ys) != 1 or not isinstance(ys[0], ast.Yield) or ys[0].value is None or any(isinstance(n, ast.Return) for n in ast.walk(fn)):
        return False

    def tail(block):
        if not block:
            return False
        last = block[-1]
        if isinstance(last, ast.Expr) and last.value is ys[0]:
            return not any(y is ys[0] for s in block[:-1] for y in ast.walk(s))
        if isinstance(last, ast.If) and not any(y is ys[0] for s in block[:-1] for y in ast.walk(s)):
            inb = any(y is ys[0] for s in last.body for y in ast.walk(s))
            return tail(last.body) if inb else tail(last.orelse)
        return False
    return tail(body[-1].body) and not any(isinstance(n, (ast.While, ast.For)) and n is not body[-1] for n in ast.walk(fn))


class _Rename(ast.NodeTransformer):
    def __init__(self, names: dict[str, str], subst: dict[str, ast.AST]):
        self.names = names
        self.subst = subst

    def visit_Name(self, n: ast.Name):
        if n.id in self.subst and isinstance(n.ctx, ast.Load):
            return ast.copy_location(copy.deepcopy(self.subst[n.id]), n)
        if n.id in self.names:
            return ast.copy_location(ast.Name(id=self.names[n.id], ctx=n.ctx), n)
        return n


def _tail(stmts: list[ast.stmt], make_result) -> tuple[list[ast.stmt], bool]:
    """Rewrites a statement list whose `return`s are all in tail position: -> (statements, falls through?).  `make_result(value)`
    builds the statements that stand for `return value`."""
    for i, s in enumerate(stmts):
        if not any(isinstance(x, ast.Return) for x in ast.walk(s)):
            continue
        head, rest = stmts[:i], stmts[i + 1:]
        if isinstance(s, ast.Return):
            return head + make_result(s.value, s), False
        if isinstance(s, ast.If):
            b, fb = _tail(s.body, make_result)
            o, fo = _tail(s.orelse, make_result) if s.orelse else ([], True)
            if fb and fo and rest and any(isinstance(x, ast.Return) for y in rest for x in ast.walk(y)):
                # both branches can fall through into a rest that returns again: handle the rest once, after the if
                r, fr = _tail(rest, make_result)
                new_if = ast.copy_location(ast.If(test=s.test, body=b or [ast.copy_location(ast.Pass(), s)], orelse=o), s)
                return head + [new_if] + r, fr
            if not fb and fo:
                r, fr = _tail(rest, make_result)
                new_if = ast.copy_location(ast.If(test=s.test, body=b or [ast.copy_location(ast.Pass(), s)], orelse=o + r), s)
                return head + [new_if], fr
            if fb and not fo:
                r, fr = _tail(rest, make_result)
                new_if = ast.copy_location(ast.If(test=s.test, body=b + r, orelse=o or [ast.copy_location(ast.Pass(), s)]), s)
                return head + [new_if], fr
            if not fb and not fo:
                new_if = ast.copy_location(ast.If(test=s.test, body=b, orelse=o), s)
                return head + [new_if], False
            r, fr = _tail(rest, make_result)
            new_if = ast.copy_location(ast.If(test=s.test, body=b or [ast.copy_location(ast.Pass(), s)], orelse=o), s)
            return head + [new_if] + r, fr
        raise NotInlinable("return inside a loop / with / try")
    return list(stmts), True


def _genexp_to_yield(fn: ast.FunctionDef) -> None:
    """`def _g(..): return (e for v in xs if c)` is the generator `for v in xs: if c: yield e` (both lazy, same items, same order)."""
    body = _body_without_doc(fn)
    if len(body) != 1 or not isinstance(body[0], ast.Return) or not isinstance(body[0].value, ast.GeneratorExp):
        return
    g = body[0].value
    if len(g.generators) != 1 or g.generators[0].is_async:
        return
    gen = g.generators[0]
    inner: ast.stmt = ast.copy_location(ast.Expr(value=ast.copy_location(ast.Yield(value=g.elt), g.elt)), body[0])
    for c in reversed(gen.ifs):
        inner = ast.copy_location(ast.If(test=c, body=[inner], orelse=[]), body[0])
    loop = ast.copy_location(ast.For(target=gen.target, iter=gen.iter, body=[inner], orelse=[], type_comment=None), body[0])
    for x in ast.walk(gen.target):
        if isinstance(x, ast.Name):
            x.ctx = ast.Store()
    fn.body = [s_ for s_ in fn.body if s_ is not body[0]] + [loop]
    ast.fix_missing_locations(fn)


class Inliner:
    def __init__(self, tree: ast.Module, extra: dict | None = None):
        self.tree = tree
        self.helpers: dict[tuple[str | None, str], _Helper] = {}
        self.count = 0
        for n in ast.walk(tree):
            if isinstance(n, ast.FunctionDef) and n.name.startswith("_") and not n.name.startswith("__"):
                _genexp_to_yield(n)
        for n in tree.body:
            if isinstance(n, ast.FunctionDef) and _Helper.eligible(n, None):
                self.helpers[(None, n.name)] = _Helper(n, None)
            elif isinstance(n, ast.ClassDef):
                for m in n.body:
                    if isinstance(m, ast.FunctionDef) and _Helper.eligible(m, n.name):
                        self.helpers[(n.name, m.name)] = _Helper(m, n.name)
        # private generator methods that a public generator delegates to with `yield from`: their body is put in place of the delegation
        self.delegates: dict[tuple[str | None, str], _Helper] = {}
        for n in tree.body:
            if isinstance(n, ast.ClassDef):
                for m in n.body:
                    if isinstance(m, ast.FunctionDef) and _is_private(m.name, n.name) and (n.name, m.name) not in self.helpers \
                            and any(isinstance(x, ast.Yield) for x in ast.walk(m)) and not m.decorator_list and not m.args.vararg and not m.args.kwarg \
                            and not any(isinstance(x, ast.Return) and x.value is not None for x in ast.walk(m)) \
                            and not any(isinstance(x, (ast.YieldFrom, ast.Await, ast.Global, ast.Nonlocal, ast.Lambda)) or (x is not m and isinstance(x, (ast.FunctionDef, ast.ClassDef)))
                                        for x in ast.walk(m)) \
                            and sum(1 for x in ast.walk(m) if isinstance(x, ast.stmt)) <= MAX_STATEMENTS:
                        self.delegates[(n.name, m.name)] = _Helper(m, n.name)
        # private helpers a class of this module inherits from a base class defined in another module
        for (cls, name), fn in (extra or {}).items():
            if (cls, name) not in self.helpers:
                fn = copy.deepcopy(fn)
                _genexp_to_yield(fn)
                if _Helper.eligible(fn, cls):
                    self.helpers[(cls, name)] = _Helper(fn, cls)

    # ------------------------------------------------------------------------------------------ resolution
    def resolve(self, call: ast.Call, cls: str | None):
        """-> (_Helper, receiver expr or None) for a call of a known private helper, else None."""
        f = call.func
        if isinstance(f, ast.Name) and (None, f.id) in self.helpers:
            return self.helpers[(None, f.id)], None
        if isinstance(f, ast.Attribute) and isinstance(f.value, ast.Name):
            if f.value.id in ("self", "cls") and cls is not None and (cls, f.attr) in self.helpers:
                return self.helpers[(cls, f.attr)], f.value
            if (f.value.id, f.attr) in self.helpers:
                h = self.helpers[(f.value.id, f.attr)]
                return (h, None) if h.static else None
        return None

    def bind(self, h: _Helper, call: ast.Call, recv, host_names: set[str]):
        """-> (prefix statements, rename map, substitution map) or raises NotInlinable."""
        params = list(h.params)
        args = list(call.args)
        if any(isinstance(a, ast.Starred) for a in args) or any(k.arg is None for k in call.keywords):
            raise NotInlinable("star arguments")
        bound: dict[str, ast.AST] = {}
        if not h.static and h.cls is not None:
            if not params:
                raise NotInlinable("method without self")
            if recv is None:
                raise NotInlinable("unbound method call")
            bound[params[0]] = recv
            params = params[1:]
        if len(args) > len(params):
            raise NotInlinable("too many positional arguments")
        for p, a in zip(params, args):
            bound[p] = a
        for k in call.keywords:
            if k.arg in bound or k.arg not in params + h.kwonly:
                raise NotInlinable("keyword argument mismatch")
            bound[k.arg] = k.value
        for p in params + h.kwonly:
            if p not in bound:
                if p not in h.defaults:
                    raise NotInlinable("missing argument")
                bound[p] = h.defaults[p]
        all_params = set(h.params) | set(h.kwonly)
        locals_ = h.assigned - all_params
        rename = {}
        for nm in sorted(locals_):
            if nm in host_names:
                new = f"{nm}_{h.fn.name.strip('_')}"
                while new in host_names:
                    new += "_"
                rename[nm] = new
        subst: dict[str, ast.AST] = {}
        prefix: list[ast.stmt] = []
        stored_attrs = {x.attr for x in ast.walk(h.fn) if isinstance(x, ast.Attribute) and isinstance(x.ctx, (ast.Store, ast.Del))}
        stored_items = {x.value.id for x in ast.walk(h.fn) if isinstance(x, ast.Subscript) and isinstance(x.ctx, (ast.Store, ast.Del)) and isinstance(x.value, ast.Name)}

        def stable(a):
            """The argument expression reads nothing the helper itself writes (`helper(self.n)` with `self.n += 1` inside must bind first)."""
            for x in ast.walk(a):
                if isinstance(x, ast.Attribute) and x.attr in stored_attrs:
                    return False
                if isinstance(x, ast.Subscript) and isinstance(x.value, ast.Name) and (x.value.id in stored_items or stored_items):
                    return False
            return True
        for p, a in bound.items():
            uses = sum(1 for n in ast.walk(h.fn) if isinstance(n, ast.Name) and n.id == p and isinstance(n.ctx, ast.Load))
            if p not in h.assigned and ((_simple(a) and stable(a)) or (uses <= 1 and stable(a) and (h.expr is not None or not any(isinstance(x, ast.Call) for x in ast.walk(a))))
                                        or (uses <= 1 and isinstance(a, (ast.Name, ast.Constant, ast.JoinedStr, ast.Compare, ast.BinOp, ast.UnaryOp, ast.BoolOp)) and stable(a))):
                subst[p] = a
            else:
                new = p
                if new in host_names and not (isinstance(a, ast.Name) and a.id == p):
                    new = f"{p}_{h.fn.name.strip('_')}"
                    while new in host_names:
                        new += "_"
                if isinstance(a, ast.Name) and a.id == new:
                    continue                       # `x = x`: the host variable already has the parameter's name
                rename[p] = new
                prefix.append(ast.Assign(targets=[ast.Name(id=new, ctx=ast.Store())], value=copy.deepcopy(a)))
        return prefix, rename, subst

    # ------------------------------------------------------------------------------------------ inlining
    def inline_expr(self, e: ast.AST, cls: str | None, host_names: set[str]) -> ast.AST:
        """Substitutes expression helpers inside an expression (innermost first)."""
        me = self

        class _T(ast.NodeTransformer):
            def visit_Call(self2, c: ast.Call):
                self2.generic_visit(c)
                r = me.resolve(c, cls)
                if r is None or r[0].expr is None:
                    return c
                h, recv = r
                try:
                    prefix, rename, subst = me.bind(h, c, recv, host_names)
                except NotInlinable:
                    return c
                if prefix:
                    return c                        # an argument would have to be bound to a local: not inside an expression
                me.count += 1
                new = _Rename(rename, subst).visit(copy.deepcopy(h.expr))
                for x in ast.walk(new):                     # every node of the copy sits where the call was (not where the helper is defined)
                    if isinstance(x, (ast.expr, ast.stmt, ast.keyword, ast.arg)):
                        ast.copy_location(x, c)
                return ast.copy_location(new, c)

            def visit_Lambda(self2, n):
                return n
        return _T().visit(e)

    def inline_stmt(self, s: ast.stmt, cls: str | None, host_names: set[str]) -> list[ast.stmt] | None:
        """The statements that replace `s` when its value is a call of a statement helper, else None."""
        call, mode = None, None
        # `yield from self._gen(args)` as a statement: the delegate's body (its yields, its try / finally) in place of the delegation
        if isinstance(s, ast.Expr) and isinstance(s.value, ast.YieldFrom) and isinstance(s.value.value, ast.Call):
            c_ = s.value.value
            f_ = c_.func
            if isinstance(f_, ast.Attribute) and isinstance(f_.value, ast.Name) and f_.value.id == "self" and cls is not None and (cls, f_.attr) in self.delegates:
                h = self.delegates[(cls, f_.attr)]
                try:
                    prefix, rename, subst = self.bind(h, c_, f_.value, host_names)
                except NotInlinable:
                    return None
                body = [_Rename(rename, subst).visit(copy.deepcopy(x)) for x in h.body]
                for b_ in body:
                    for x in ast.walk(b_):
                        if isinstance(x, (ast.stmt, ast.expr)) and not isinstance(x, ast.expr_context):
                            pass
                self.count += 1
                out = prefix + body
                host_names |= {n.id for x in out for n in ast.walk(x) if isinstance(n, ast.Name)}
                h.fn._delegated = True
                return out
            return None
        # `for x in gen(..): BODY` over a simple generator helper: the generator's loop with `x = <yielded>; BODY` where it yields
        if isinstance(s, ast.For) and not s.orelse and isinstance(s.iter, ast.Call):
            rg = self.resolve(s.iter, cls)
            if rg is not None and rg[0].generator:
                h, recv = rg
                try:
                    prefix, rename, subst = self.bind(h, s.iter, recv, host_names)
                except NotInlinable:
                    return None
                body = [_Rename(rename, subst).visit(copy.deepcopy(x)) for x in h.body]
                done = []

                class _Y(ast.NodeTransformer):
                    def visit_Expr(self2, e):
                        if isinstance(e.value, ast.Yield):
                            done.append(1)
                            return [ast.copy_location(ast.Assign(targets=[copy.deepcopy(s.target)], value=e.value.value), e)] + s.body
                        return e
                body = [_Y().visit(x) for x in body]
                if len(done) != 1:
                    return None
                self.count += 1
                out = prefix + body
                host_names |= {n.id for x in out for n in ast.walk(x) if isinstance(n, ast.Name)}
                return out
            return None
        # `self._h(..).m(args)` (as a statement, or as a whole right-hand side): the helper runs first, its result is the receiver --
        # `t = self._h(..)` / `t.m(args)`
        outer_call = s.value if isinstance(s, (ast.Expr, ast.Assign, ast.Return)) and isinstance(getattr(s, "value", None), ast.Call) else None
        if outer_call is not None and isinstance(outer_call.func, ast.Attribute) and isinstance(outer_call.func.value, ast.Call):
            r0 = self.resolve(outer_call.func.value, cls)
            if r0 is not None and r0[0].expr is None and not r0[0].generator:
                tmp = f"_recv_{r0[0].fn.name.strip('_')}"
                while tmp in host_names:
                    tmp += "_"
                first = ast.copy_location(ast.Assign(targets=[ast.Name(id=tmp, ctx=ast.Store())], value=outer_call.func.value), s)
                host_names.add(tmp)
                rep = self.inline_stmt(first, cls, host_names)
                if rep is not None:
                    outer_call.func.value = ast.copy_location(ast.Name(id=tmp, ctx=ast.Load()), s)
                    return rep + [s]
                return None
        # `obj.m(helper(...))` as a statement: the helper (another scope: it cannot rebind `obj`) runs first either way, so this is
        # `t = helper(...)` / `obj.m(t)`
        if isinstance(s, ast.Expr) and isinstance(s.value, ast.Call) and isinstance(s.value.func, ast.Attribute) and _simple(s.value.func.value) \
                and len(s.value.args) == 1 and not s.value.keywords and isinstance(s.value.args[0], ast.Call):
            r0 = self.resolve(s.value.args[0], cls)
            if r0 is not None and r0[0].expr is None and not r0[0].generator:
                tmp = f"_arg_{r0[0].fn.name.strip('_')}"
                while tmp in host_names:
                    tmp += "_"
                first = ast.copy_location(ast.Assign(targets=[ast.Name(id=tmp, ctx=ast.Store())], value=s.value.args[0]), s)
                host_names.add(tmp)
                rep = self.inline_stmt(first, cls, host_names)
                if rep is not None:
                    outer = ast.copy_location(ast.Expr(value=ast.copy_location(
                        ast.Call(func=s.value.func, args=[ast.copy_location(ast.Name(id=tmp, ctx=ast.Load()), s)], keywords=[]), s.value)), s)
                    return rep + [outer]
                return None
        if isinstance(s, ast.Assign) and len(s.targets) == 1 and isinstance(s.value, ast.Call):
            call, mode = s.value, "assign"
        elif isinstance(s, ast.AnnAssign) and isinstance(s.value, ast.Call):
            call, mode = s.value, "annassign"
        elif isinstance(s, ast.Expr) and isinstance(s.value, ast.Call):
            call, mode = s.value, "expr"
        elif isinstance(s, ast.AugAssign) and isinstance(s.value, ast.Call):
            call, mode = s.value, "aug"
        elif isinstance(s, ast.Return) and isinstance(s.value, ast.Call):
            call, mode = s.value, "return"
        elif isinstance(s, ast.If) and isinstance(s.test, ast.Call):
            call, mode = s.test, "if"
        elif isinstance(s, ast.If) and isinstance(s.test, ast.UnaryOp) and isinstance(s.test.op, ast.Not) and isinstance(s.test.operand, ast.Call):
            call, mode = s.test.operand, "ifnot"
        if call is None:
            return None
        r = self.resolve(call, cls)
        if r is None or r[0].generator:
            return None
        if mode == "ifnot" and not s.orelse and len(s.body) == 1 and isinstance(s.body[0], ast.Return) and isinstance(s.body[0].value, ast.Constant) \
                and s.body[0].value.value is False and (r[0].expr is None or isinstance(r[0].expr, ast.BoolOp)):
            mode = "guardfalse"             # `if not check(x): return False`: every `return e` of the check becomes `if not e: return False`
        elif r[0].expr is not None:
            return None
        h, recv = r
        try:
            prefix, rename, subst = self.bind(h, call, recv, host_names)
            if mode == "assign" and isinstance(s.targets[0], ast.Name) and h.body and isinstance(h.body[-1], ast.Return) and isinstance(h.body[-1].value, ast.Name) \
                    and sum(1 for x in ast.walk(h.fn) if isinstance(x, ast.Return)) == 1:
                # the helper builds its result in a local and returns it: that local *is* the host's target
                loc, tgt = h.body[-1].value.id, s.targets[0].id
                used_in_helper = {x.id for x in ast.walk(h.fn) if isinstance(x, ast.Name)} | {a.arg for a in ast.walk(h.fn) if isinstance(a, ast.arg)}
                in_args = {x.id for a in list(call.args) + [k.value for k in call.keywords] for x in ast.walk(a) if isinstance(x, ast.Name)}
                if loc in h.assigned and loc not in h.params and loc not in h.kwonly and tgt not in (used_in_helper - {loc}) and tgt not in in_args:
                    rename = dict(rename)
                    rename[loc] = tgt
            body = [_Rename(rename, subst).visit(copy.deepcopy(x)) for x in h.body]
            if mode == "return":
                out = prefix + body
            else:
                res_name = f"_ret_{h.fn.name.strip('_')}"
                while res_name in host_names:
                    res_name += "_"

                def make_result(value, node, mode=mode, s=s, res_name=res_name):
                    if mode == "guardfalse":
                        if isinstance(value, ast.Constant) and value.value is True:
                            return []
                        if value is None or (isinstance(value, ast.Constant) and not value.value):
                            return [ast.copy_location(ast.Return(value=ast.Constant(value=False)), node)]
                        return [ast.copy_location(ast.If(test=ast.UnaryOp(op=ast.Not(), operand=value),
                                                         body=[ast.copy_location(ast.Return(value=ast.Constant(value=False)), node)], orelse=[]), node)]
                    if mode == "expr":
                        if value is not None and any(isinstance(x, ast.Call) for x in ast.walk(value)):
                            return [ast.copy_location(ast.Expr(value=value), node)]
                        return []
                    v = value if value is not None else ast.Constant(value=None)
                    if mode == "assign":
                        if isinstance(v, ast.Name) and isinstance(s.targets[0], ast.Name) and v.id == s.targets[0].id:
                            return []                  # built in place under the target's own name
                        return [ast.copy_location(ast.Assign(targets=[copy.deepcopy(s.targets[0])], value=v), node)]
                    if mode == "annassign":
                        return [ast.copy_location(ast.Assign(targets=[copy.deepcopy(s.target)], value=v), node)]
                    return [ast.copy_location(ast.Assign(targets=[ast.Name(id=res_name, ctx=ast.Store())], value=v), node)]
                new_body, falls = _tail(body, make_result)
                if falls and mode != "expr":
                    new_body = new_body + make_result(None, s)           # falling off the end returns None
                out = prefix + new_body
                if mode == "aug":
                    out.append(ast.AugAssign(target=s.target, op=s.op, value=ast.Name(id=res_name, ctx=ast.Load())))
                elif mode == "guardfalse":
                    pass
                elif mode in ("if", "ifnot"):
                    test = ast.Name(id=res_name, ctx=ast.Load())
                    if mode == "ifnot":
                        test = ast.UnaryOp(op=ast.Not(), operand=test)
                    out.append(ast.copy_location(ast.If(test=test, body=s.body, orelse=s.orelse), s))
        except NotInlinable:
            return None
        self.count += 1
        host_names |= {n.id for x in out for n in ast.walk(x) if isinstance(n, ast.Name)}
        return out

    def _private_to(self, comp: ast.AST, name: str) -> bool:
        fn = getattr(self, "_host_fn", None)
        if fn is None:
            return False
        inside = {id(x) for x in ast.walk(comp)}
        return not any(((isinstance(x, ast.Name) and x.id == name) or (isinstance(x, ast.arg) and x.arg == name)) and id(x) not in inside for x in ast.walk(fn))

    def _unroll_comprehension(self, s: ast.stmt, cls: str | None) -> list[ast.stmt] | None:
        """`xs = [helper(v) for v in it]` with a statement helper  ->  `xs = []` / `for v in it: xs.append(helper(v))`, so that the
        helper's body can be put in place (the loop variable must not be used elsewhere in the host: it leaves the comprehension)."""
        if not (isinstance(s, ast.Assign) and len(s.targets) == 1 and isinstance(s.targets[0], ast.Name) and isinstance(s.value, ast.ListComp)
                and len(s.value.generators) == 1 and not s.value.generators[0].ifs and not s.value.generators[0].is_async
                and isinstance(s.value.generators[0].target, ast.Name) and isinstance(s.value.elt, ast.Call)):
            return None
        r = self.resolve(s.value.elt, cls)
        if r is None or r[0].expr is not None or r[0].generator:
            return None
        g = s.value.generators[0]
        if any(isinstance(x, ast.Name) and x.id == s.targets[0].id for x in ast.walk(s.value)):
            return None
        init = ast.copy_location(ast.Assign(targets=[ast.Name(id=s.targets[0].id, ctx=ast.Store())], value=ast.copy_location(ast.List(elts=[], ctx=ast.Load()), s)), s)
        app = ast.copy_location(ast.Expr(value=ast.copy_location(ast.Call(
            func=ast.copy_location(ast.Attribute(value=ast.copy_location(ast.Name(id=s.targets[0].id, ctx=ast.Load()), s), attr="append", ctx=ast.Load()), s),
            args=[s.value.elt], keywords=[]), s)), s)
        loop = ast.copy_location(ast.For(target=g.target, iter=g.iter, body=[app], orelse=[]), s)
        return [init, loop]

    def process_block(self, body: list[ast.stmt], cls: str | None, host_names: set[str], depth: int = 0) -> list[ast.stmt]:
        out: list[ast.stmt] = []
        queue = list(body)
        body = []
        for s in queue:
            u = self._unroll_comprehension(s, cls)
            if u is not None and self._private_to(s.value, s.value.generators[0].target.id):
                base = getattr(s, "lineno", 0)
                _renumber(u, base, getattr(s, "col_offset", 0))
                body.extend(u)
            else:
                body.append(s)
        prev = None
        for s in body:
            # `t = (a, b)` directly followed by a statement that calls `helper(*t)`: the call is `helper(a, b)`
            if isinstance(prev, ast.Assign) and len(prev.targets) == 1 and isinstance(prev.targets[0], ast.Name) and isinstance(prev.value, (ast.Tuple, ast.List)) \
                    and all(_simple(e) for e in prev.value.elts) and not isinstance(s, (ast.For, ast.While, ast.If, ast.Try, ast.With, ast.FunctionDef, ast.ClassDef)):
                for c in ast.walk(s):
                    if isinstance(c, ast.Call) and any(isinstance(a, ast.Starred) and isinstance(a.value, ast.Name) and a.value.id == prev.targets[0].id for a in c.args) \
                            and self.resolve(c, cls) is not None:
                        c.args = [x for a in c.args for x in ([copy.deepcopy(e) for e in prev.value.elts]
                                                              if isinstance(a, ast.Starred) and isinstance(a.value, ast.Name) and a.value.id == prev.targets[0].id else [a])]
            prev = s
            if isinstance(s, (ast.FunctionDef, ast.AsyncFunctionDef, ast.ClassDef)):
                out.append(s)
                continue
            rep = self.inline_stmt(s, cls, host_names) if depth < 4 else None
            if rep is not None:
                base = getattr(s, "lineno", 0)
                _renumber(rep, base, getattr(s, "col_offset", 0))
                out.extend(self.process_block(rep, cls, host_names, depth + 1))      # helpers that call helpers
                continue
            # expression helpers inside this statement's own expressions (not inside nested blocks, which are handled below)
            for fld, val in list(ast.iter_fields(s)):
                if fld in ("body", "orelse", "finalbody", "handlers"):
                    continue
                if isinstance(val, ast.AST):
                    setattr(s, fld, self.inline_expr(val, cls, host_names))
                elif isinstance(val, list):
                    setattr(s, fld, [self.inline_expr(v, cls, host_names) if isinstance(v, ast.AST) else v for v in val])
            for fld in ("body", "orelse", "finalbody"):
                b = getattr(s, fld, None)
                if isinstance(b, list) and b and isinstance(b[0], ast.stmt):
                    setattr(s, fld, self.process_block(b, cls, host_names, depth))
            if isinstance(s, ast.Try):
                for hd in s.handlers:
                    hd.body = self.process_block(hd.body, cls, host_names, depth)
            out.append(s)
        return out

    def run(self) -> int:

        def do_fn(fn: ast.FunctionDef, cls: str | None):
            host_names = {n.id for n in ast.walk(fn) if isinstance(n, ast.Name)} | {a.arg for a in ast.walk(fn) if isinstance(a, ast.arg)}
            self._host_fn = fn
            # private nested functions without nonlocal / global state are helpers of this host only (free variables are the host's own)
            nested = {}
            for n in fn.body:
                if isinstance(n, ast.FunctionDef) and _Helper.eligible(n, None) and (None, n.name) not in self.helpers:
                    h = _Helper(n, None)
                    h.static = True
                    nested[(None, n.name)] = h
            self.helpers.update(nested)
            try:
                fn.body = self.process_block(fn.body, cls, host_names)
            finally:
                for k in nested:
                    self.helpers.pop(k, None)
            for k, h in nested.items():
                own = {id(x) for x in ast.walk(h.fn)}
                if not any(isinstance(x, ast.Name) and x.id == k[1] and id(x) not in own for x in ast.walk(fn)):
                    fn.body = [s_ for s_ in fn.body if s_ is not h.fn] or fn.body      # every call was put in place: the definition is gone
            for n in ast.walk(fn):
                if n is not fn and isinstance(n, ast.FunctionDef):
                    do_fn(n, cls)
        # helpers first (so that a helper that calls a helper is flat before it is copied), then everything else
        for _ in range(2):
            for (cls, _nm), h in list(self.helpers.items()):
                do_fn(h.fn, cls)
                self.helpers[(cls, _nm)] = _Helper(h.fn, cls)
        for n in self.tree.body:
            if isinstance(n, ast.FunctionDef):
                do_fn(n, None)
            elif isinstance(n, ast.ClassDef):
                for m in n.body:
                    if isinstance(m, ast.FunctionDef):
                        do_fn(m, n.name)
        # a helper with no call left in its module lives on in its hosts only: marked, so that the index does not present it as an
        # entry point of its own (`_rebuild_abs` taken alone reads the stale view -- its callers established that it is not)
        for (cls, nm), h in list(self.helpers.items()) + list(self.delegates.items()):
            own = {id(x) for x in ast.walk(h.fn)}
            left = any((isinstance(x, ast.Attribute) and x.attr == nm) or (isinstance(x, ast.Name) and x.id == nm)
                       for x in ast.walk(self.tree) if id(x) not in own)
            if not left and self.count:
                h.fn._dissolved = True           # type: ignore[attr-defined]
        return self.count


def _renumber(stmts: list[ast.stmt], base, col: int) -> None:
    """Positions for inlined statements: strictly increasing, between the call's line and the next line."""
    k = [0]

    def visit(s: ast.AST):
        k[0] += 1
        line = base + k[0] / 10000.0
        s.lineno = line
        s.col_offset = getattr(s, "col_offset", col)
        for fld, val in ast.iter_fields(s):
            if fld in ("body", "orelse", "finalbody", "handlers"):
                continue
            for x in (val if isinstance(val, list) else [val]):
                if isinstance(x, ast.AST):
                    for y in ast.walk(x):
                        if hasattr(y, "lineno") or isinstance(y, (ast.expr, ast.stmt)):
                            y.lineno = line
                            y.end_lineno = line
        for fld in ("body", "orelse", "finalbody"):
            b = getattr(s, fld, None)
            if isinstance(b, list):
                for x in b:
                    if isinstance(x, ast.stmt):
                        visit(x)
        if isinstance(s, ast.Try):
            for hd in s.handlers:
                hd.lineno = base + k[0] / 10000.0
                for x in hd.body:
                    visit(x)
        s.end_lineno = base + k[0] / 10000.0
    for s in stmts:
        visit(s)


def inline_private_helpers(tree: ast.Module, extra: dict | None = None) -> int:
    return Inliner(tree, extra).run()


def inherited_helpers(raw: dict[str, ast.Module]) -> dict[str, dict]:
    """path -> {(class of that module, helper name): FunctionDef of a base class in *another* module}.  Only helpers whose free names
    the inheriting module binds as well (same imports / module-level names), so that the copy means the same there."""
    import builtins
    where: dict[str, tuple[str, ast.ClassDef]] = {}
    for path, tree in raw.items():
        for n in tree.body:
            if isinstance(n, ast.ClassDef):
                where.setdefault(n.name, (path, n))

    def module_names(tree):
        out = set(dir(builtins))
        for st in tree.body:
            if isinstance(st, (ast.FunctionDef, ast.AsyncFunctionDef, ast.ClassDef)):
                out.add(st.name)
            elif isinstance(st, (ast.Import, ast.ImportFrom)):
                out |= {(a.asname or a.name).split(".")[0] for a in st.names}
            else:
                out |= {x.id for x in ast.walk(st) if isinstance(x, ast.Name) and isinstance(x.ctx, ast.Store)}
        return out
    res: dict[str, dict] = {}
    for path, tree in raw.items():
        names = None
        for c in tree.body:
            if not isinstance(c, ast.ClassDef):
                continue
            own = {m.name for m in c.body if isinstance(m, (ast.FunctionDef, ast.AsyncFunctionDef))}
            seen, todo = set(), [b.id for b in c.bases if isinstance(b, ast.Name)]
            while todo:
                b = todo.pop(0)
                if b in seen or b not in where:
                    continue
                seen.add(b)
                bpath, bnode = where[b]
                todo += [x.id for x in bnode.bases if isinstance(x, ast.Name)]
                if bpath == path:
                    continue
                for m in bnode.body:
                    if isinstance(m, ast.FunctionDef) and m.name.startswith("_") and not m.name.startswith("__") and m.name not in own:
                        if names is None:
                            names = module_names(tree)
                        local = {x.id for x in ast.walk(m) if isinstance(x, ast.Name) and isinstance(x.ctx, ast.Store)} | {a.arg for a in ast.walk(m.args) if isinstance(a, ast.arg)}
                        free = {x.id for x in ast.walk(m) if isinstance(x, ast.Name) and isinstance(x.ctx, ast.Load)} - local
                        if free <= names:
                            res.setdefault(path, {})[(c.name, m.name)] = m
                            own.add(m.name)
    return res
