"""Thorough tier: both-ways self-validation of the checkers on in-memory variants of the *current* tree.

(a) seeded breaks: one rule instance each (textual edit of the current source; a variant whose anchor text is missing is
    skipped and counted) -- the checker must report a new finding (with one of the expected rules);
(b) behaviour-preserving rewrites computed on the AST of the property's anchor functions (alpha-renaming of locals,
    `x += e` -> `x = x + e`, a no-op statement at the head of every block) -- the checker must report nothing new.
Results go into the evidence (coverage.selfcheck); they never change the verdict of the run.
"""
from __future__ import annotations

from .props.common import run_property
import ast
import copy
import importlib

from .model import Program, AnalysisError
from .report import Ctx

SEQ = "scoda/sequences/sequence.py"
ABS = "scoda/sequences/absolute_sequence.py"
REL = "scoda/sequences/relative_sequence.py"
TOKF = "scoda/tokenisation/notelike_tokenisation.py"
BAR = "scoda/elements/bar.py"
MT = "scoda/misc/music_theory.py"
MF = "scoda/midi/midi_file.py"
MM = "scoda/midi/midi_message.py"
MTR = "scoda/midi/midi_track.py"
MSG = "scoda/elements/message.py"
ASQ = "scoda/sequences/abstract_sequence.py"
ENUM = "scoda/enumerations/message_type.py"

# (id, property, file, old, new, expected rules or None)
MUTANTS = [
    # ---- C04
    ("c04-drop-invalidate-cutoff", "C04", SEQ, "reduced_length=reduced_length)\n        self.invalidate_rel()", "reduced_length=reduced_length)", {"TS3"}),
    ("c04-raw-abs", "C04", SEQ, "self.abs.quantise(step_sizes)", "self._abs.quantise(step_sizes)", {"TS5", "TS1"}),
    ("c04-wrong-invalidate-pad", "C04", SEQ, "self.rel.pad(padding_length)\n        self.invalidate_abs()", "self.rel.pad(padding_length)\n        self.invalidate_rel()", {"TS3", "TS1"}),
    ("c04-gen-no-finally", "C04", SEQ, "        try:\n            for message in self.abs._messages:\n                self.invalidate_rel()\n                yield message\n        finally:\n            self.invalidate_rel()",
     "        for message in self.abs._messages:\n            self.invalidate_rel()\n            yield message", {"TS3"}),
    ("c04-gen-invalidate-once", "C04", SEQ, "            for message in self.rel._messages:\n                self.invalidate_abs()\n                yield message",
     "            self.invalidate_abs()\n            for message in self.rel._messages:\n                yield message", {"TS6"}),
    ("c04-copy-unconditional", "C04", SEQ, "        if not self._abs_stale:\n            cpy_abs = self.abs.copy()", "        cpy_abs = self._abs.copy() if self._abs is not None else None", {"TS5", "TS9"}),
    ("c04-bar-wrong-flag", "C04", BAR, "self.sequence._abs_stale = True", "self.sequence._rel_stale = True", {"TS7"}),
    ("c04-overwrite-no-fresh", "C04", SEQ, "        self._rel = rel\n        self._rel_stale = False", "        self._rel = rel", {"TS1"}),
    ("c04-leak-internal", "C04", SEQ, "read_only_message_times.append((time, ReadOnlyMessage(msg)))", "read_only_message_times.append((time, msg))", {"TS8"}),
    ("c04-refresh-order", "C04", SEQ, "            self._abs = self._rel.to_absolute_sequence()\n            self._abs_stale = False\n        return self._abs",
     "            self._abs_stale = False\n        return self._abs", {"TS3"}),
    ("c04-conv-drops-control", "C04", ABS, "if msg.message_type != MessageType.INTERNAL:\n                message_to_add = msg.copy()", "if msg.message_type != MessageType.INTERNAL and msg.message_type != MessageType.CONTROL_CHANGE:\n                message_to_add = msg.copy()", {"CONV"}),
    ("c04-conv-cap-flag", "C04", REL, "                current_point_in_time += msg.time\n                cap_message_exists = False", "                current_point_in_time += msg.time\n                cap_message_exists = True", {"CONV"}),
    ("c04-conv-clock", "C04", ABS, "time=time - current_point_in_time))\n                current_point_in_time = time", "time=time - current_point_in_time))", {"CONV"}),
    ("c04-overwrite-ctor-unsorted", "C04", SEQ, "        abs = AbsoluteSequence()\n        for msg in messages:\n            abs.add_message(msg)\n        self._abs = abs",
     "        self._abs = AbsoluteSequence(messages=messages)", {"ABS-SORTED"}),
    ("c04-overwrite-raw-append", "C04", SEQ, "        for msg in messages:\n            abs.add_message(msg)\n        self._abs = abs",
     "        for msg in messages:\n            abs._messages.append(msg)\n        self._abs = abs", {"ABS-SORTED"}),
    ("c04-cutoff-sort-first", "C04", ABS, "                        message_pairing[1].time = message_pairing[0].time + reduced_length\n\n        self.normalise_absolute()", "                        message_pairing[1].time = message_pairing[0].time + reduced_length", {"ABS-SORTED"}),
    # ---- C05
    ("c05-floor-minus-one", "C05", ABS, "(message_original_time // step_size) * step_size for", "((message_original_time // step_size) - 1) * step_size for", {"NEAR"}),
    ("c05-double-step", "C05", ABS, "positions_left[i] + step_sizes[i] for i in", "positions_left[i] + 2 * step_sizes[i] for i in", {"NEAR"}),
    ("c05-argmin-dist", "C05", "scoda/misc/util.py", "candidate_distance = abs(candidate - element)", "candidate_distance = abs(candidate) - element", {"ARGMIN"}),
    ("c05-pitch-only-key", "C05", ABS, "note_key = (msg.channel, msg.note)", "note_key = msg.note", {"KEY2"}),
    ("c05-unsorted-removal", "C05", ABS, "enumerate(sorted(original_indices_to_remove))", "enumerate(original_indices_to_remove)", {"IDX1"}),
    ("c05-write-original", "C05", ABS, "message_to_append.time = valid_positions[\n                        find_minimal_distance(message_original_time, valid_positions)]", "message_to_append.time = message_original_time", {"GRID"}),
    ("c05-offgrid", "C05", ABS, "(message_original_time // step_size) * step_size for", "(message_original_time // step_size) * step_size + 1 for", {"GRID"}),
    ("c05-drop-sort", "C05", ABS, "        self._messages = quantised_messages\n        self.normalise_absolute()\n\n    def quantise_note_lengths", "        self._messages = quantised_messages\n\n    def quantise_note_lengths", {"SORT"}),
    ("c05-drop-nonnote", "C05", ABS, "            else:\n                valid_positions += possible_positions\n                message_to_append.time = valid_positions[find_minimal_distance(message_original_time, valid_positions)]",
     "            else:\n                valid_positions += possible_positions\n                message_to_append.time = valid_positions[find_minimal_distance(message_original_time, valid_positions)]\n                if message_to_append.time == 0:\n                    message_to_append = None", {"KEEP"}),
    # ---- C06
    ("c05-overlap-start-not-end", "C05", ABS, "or not message_to_append.time < message_timings[note_key][1]:", "or not message_to_append.time < message_timings[note_key][0]:", {"OVERLAP"}),
    ("c06-pair-index-before-append", "C06", ABS, "                    message_pairings[msg.channel].append([msg])\n                    open_messages[msg.channel][msg.note] = len(message_pairings[msg.channel]) - 1",
     "                    open_messages[msg.channel][msg.note] = len(message_pairings[msg.channel]) - 1\n                    message_pairings[msg.channel].append([msg])", {"PAIR"}),
    ("c06-completion-wrong-length", "C06", ABS, "time=pairing[0].time + standard_length))", "time=standard_length))", {"PAIR"}),
    ("c06-move-onset", "C06", ABS, "message_pairing[1].time += correction", "message_pairing[0].time -= correction", {"FR", "DUR"}),
    ("c06-off-by-one", "C06", ABS, "correction = best_fit - current_duration", "correction = best_fit - current_duration + 1", {"DUR"}),
    ("c06-ignore-filter", "C06", ABS, "best_fit = valid_durations[find_minimal_distance(current_duration, valid_durations)]", "best_fit = note_values[find_minimal_distance(current_duration, note_values)]", {"PROV", "DUR"}),
    ("c06-noext-weak", "C06", ABS, "if possible_correction > 0 and do_not_extend and note_value in valid_durations:", "if possible_correction > 1 and do_not_extend and note_value in valid_durations:", {"NOEXT"}),
    ("c06-drop-control", "C06", ABS, "if msg.message_type is not MessageType.NOTE_ON and msg.message_type is not MessageType.NOTE_OFF:",
     "if msg.message_type is not MessageType.NOTE_ON and msg.message_type is not MessageType.NOTE_OFF and msg.message_type is not MessageType.CONTROL_CHANGE:", {"KEEP"}),
    ("c06-pairings-pitch-only", "C06", ABS, "open_messages[msg.channel][msg.note] = len(message_pairings[msg.channel]) - 1", "open_messages[msg.note] = len(message_pairings[msg.channel]) - 1", {"KEY1", "KEY2"}),
    ("c06-argmax", "C06", "scoda/misc/util.py", "if candidate_distance < distance:", "if candidate_distance > distance:", {"ARGMIN"}),
    # ---- C07
    ("c07-reset-on-skip", "C07", REL, "                    if len(note_list) != 1:\n                        continue", "                    if len(note_list) != 1:\n                        wait_buffer = 0\n                        continue", {"ACC1"}),
    ("c07-const-signature", "C07", REL, "if msg.numerator != current_ts_numerator or msg.denominator != current_ts_denominator:", "if msg.numerator != 4 or msg.denominator != current_ts_denominator:", {"SIG"}),
    ("c07-no-trailing-wait", "C07", REL, "        if wait_buffer > 0:\n            messages_normalized.append(\n                Message(message_type=MessageType.WAIT, channel=default_channel, time=wait_buffer))", "        pass", {"ACC1"}),
    ("c07-key-not-updated", "C07", REL, "if msg.key != current_key:\n                        current_key = msg.key", "if msg.key != current_key:\n                        pass", {"SIG"}),
    ("c07-cleanup-wrong-level", "C07", REL, "for key in open_messages[channel].keys():", "for key in open_messages.keys():", {"KEY1"}),
    ("c07-wait-copied", "C07", REL, "                wait_buffer += msg.time\n            else:", "                wait_buffer += msg.time\n                messages_normalized.append(msg)\n            else:", {"ACC1"}),
    ("c07-fifo-pop", "C07", REL, "note_list.pop(-1)", "note_list.pop(0)", {"STACK"}),
    ("c07-keep-retrigger", "C07", REL, "                    if len(note_list) != 1:\n                        continue", "                    if len(note_list) > 2:\n                        continue", {"STACK"}),
    # ---- C08
    ("c08-carry-off", "C08", REL, "carry_time = msg.time - remaining_capacity", "carry_time = msg.time - remaining_capacity - 1", {"CUT"}),
    ("c08-no-velocity", "C08", REL, "Message(message_type=MessageType.NOTE_ON, channel=value.channel, note=value.note,\n                                        velocity=value.velocity))", "Message(message_type=MessageType.NOTE_ON, channel=value.channel, note=value.note))", {"RESTRIKE"}),
    ("c08-mutates-source", "C08", REL, "working_memory = [msg.copy() for msg in self._messages]", "working_memory = self._messages", {"PURE"}),
    ("c08-pitch-only", "C08", REL, "open_messages[(msg.channel, msg.note)] = msg", "open_messages[msg.note] = msg", {"KEY2", "KEY1"}),
    ("c08-queue-dropped-more", "C08", REL, "                        working_memory[0:0] = next_sequence_queue\n", "", None),
    # ---- C09
    ("c09-conditional-bar", "C09", SEQ, "                tracks_bars[i].append(\n                    Bar(sequence_to_add, current_ts_numerator, current_ts_denominator,\n                        Key(current_key) if current_key is not None else None))",
     "                if not sequence_to_add.is_empty() or i == 0:\n                    tracks_bars[i].append(\n                        Bar(sequence_to_add, current_ts_numerator, current_ts_denominator,\n                            Key(current_key) if current_key is not None else None))", {"ONE"}),
    ("c09-extend", "C09", SEQ, "sequence_to_add.quantise_note_lengths(do_not_extend=True)", "sequence_to_add.quantise_note_lengths(do_not_extend=False)", {"SHORTEN"}),
    ("c09-strict-lookup", "C09", SEQ, "if timing[0] <= current_point_in_time)\n                                  , None)", "if timing[0] < current_point_in_time)\n                                  , None)", {"CLOCK"}),
    ("c09-flush-into-fresh-piece", "C09", REL, "                        current_sequence = next_sequence\n                    break", "                        current_sequence = next_sequence\n                    current_sequence._messages.extend(next_sequence_queue)\n                    break", {"TAIL"}),
    ("c09-flush-after-rounds", "C09", REL, "        # Check if still capacity left\n", "        current_sequence._messages.extend(next_sequence_queue)\n", {"TAIL"}),
    ("c03-call-start-signature-snapshot", "C03", TOKF,
     ("        cur_bar_has_notes = False\n\n        # Sanity check", "                msg_denominator = event_pairing[0].denominator\n"),
     ("        cur_bar_has_notes = False\n        first_signature = (cur_time_signature_numerator, cur_time_signature_denominator)\n\n        # Sanity check",
      "                msg_denominator = event_pairing[0].denominator\n                if (msg_numerator, msg_denominator) == first_signature:\n                    continue\n"), {"SNAP"}),
    ("c13-open-memoised", "C13", "scoda/midi/midi_file.py", "        midi_file = MidiFile()\n        mido_midi_file = mido.MidiFile(filename)\n        midi_file.parse_mido(mido_midi_file)\n        return midi_file",
     "        midi_file = MidiFile._opened.get(filename)\n        if midi_file is None:\n            midi_file = MidiFile()\n            mido_midi_file = mido.MidiFile(filename)\n            midi_file.parse_mido(mido_midi_file)\n            MidiFile._opened[filename] = midi_file\n        return midi_file", {"ENTRY"}),
    ("c13-load-ignores-given-file", "C13", SEQ, "        if midi_file is None:\n            midi_file = MidiFile.open(file_path)", "        if file_path is not None:\n            midi_file = MidiFile.open(file_path)", {"ENTRY"}),
    ("c13-default-groups-skip-first", "C13", SEQ, "track_indices = [[i] for i, _ in enumerate(midi_file.tracks)]", "track_indices = [[i] for i, _ in enumerate(midi_file.tracks) if i > 0]", {"ENTRY"}),
    ("c13-meta-target-dropped", "C13", SEQ, "                                             meta_track_index=target_meta_track_index)", "                                             meta_track_index=0)", {"ENTRY"}),
    ("c06-memoised-helper", "C06", "scoda/misc/util.py", "def find_minimal_distance(", "from functools import lru_cache\n\n\n@lru_cache(maxsize=None)\ndef find_minimal_distance(", {"MEMO"}),
    ("c18-pad-sum-over-iterator", "C18", REL, "        current_length = 0\n        default_channel = None\n\n        for msg in self._messages:\n            if default_channel is None and msg.channel is not None:\n                default_channel = msg.channel\n\n            if msg.message_type == MessageType.WAIT:\n                current_length += msg.time\n\n                if current_length >= padding_length:\n                    break\n",
     "        messages = iter(self._messages)\n        default_channel = next((msg.channel for msg in messages if msg.channel is not None), None)\n        current_length = sum(msg.time for msg in messages if msg.message_type == MessageType.WAIT)\n", {"MEASURE", "LAZY"}),
    ("c01-top-bin-not-forced", "C01", "scoda/misc/util.py", "    bins[-1] = velocity_max\n", "", {"TOPBIN"}),
    ("c01-digitize-left-closed", "C01", "scoda/misc/util.py", "right=True).item(-1)", "right=False).item(-1)", {"DIGITIZE"}),
    ("c01-digitize-default-bins", "C01", "scoda/misc/util.py", "return np.digitize(velocity, bins, right=True).item(-1)", "return np.digitize(velocity, get_velocity_bins(), right=True).item(-1)", {"DIGITIZE"}),
    ("c02-bins-not-deduplicated", "C02", TOKF, "self.velocity_bins = sorted({int(velocity_bin) for velocity_bin in get_velocity_bins(velocity_bins=velocity_bins)})",
     "self.velocity_bins = [int(velocity_bin) for velocity_bin in get_velocity_bins(velocity_bins=velocity_bins)]", {"DISTINCT"}),
    ("c09-name-bound-nowhere", "C09", SEQ, "        tracks_bars = [[] for _ in sequences]\n", "", {"UNDEF"}),
    ("c07-cleanup-guard-negated", "C07", REL, "                    if msg in messages_normalized:\n                        messages_normalized.remove(msg)", "                    if msg not in messages_normalized:\n                        messages_normalized.remove(msg)", {"STACK"}),
    ("c07-cleanup-walks-stale-list", "C07", REL, "                note_list = open_messages[channel].get(key, [])\n                for msg in note_list:", "                for msg in note_list:", {"STACK"}),
    ("c12-wait-time-not-accumulated", "C12", MTR, "                time_buffer += msg.time\n", "                pass\n", {"ACC2"}),
    ("c18-scale-guard-above-two", "C18", REL, "        if factor > 1:\n            for msg in self._messages:", "        if factor > 2:\n            for msg in self._messages:", {"SCALE"}),
    ("c02-strip-two-characters", "C02", TOKF, "            token = token[:-1]\n\n            self.dictionary[token]", "            token = token[:-2]\n\n            self.dictionary[token]", {"TPL1"}),
    ("c06-next-note-filter-removed", "C06", ABS, "                        if message_pairing[1].time + possible_correction > possible_next_pairing[0].time:\n                            valid_durations.remove(note_value)", "                        if message_pairing[1].time + possible_correction > possible_next_pairing[0].time:\n                            pass", {"NEXT"}),
    ("c02-note-value-not-forced-int", "C02", TOKF, "                msg_value = int(msg_value)\n", "", {"NK2"}),
    ("c16-merge-keeps-foreign-objects", "C16", SEQ, "        self.abs.merge([seq.abs for seq in sequences])\n        self.invalidate_rel()\n        self.normalise()", "        self.abs.merge([seq.abs for seq in sequences])\n        self.invalidate_rel()", {"ADOPT"}),
    ("c17-equals-guard-negated", "C17", SEQ, "        if not isinstance(other, Sequence):\n            return False\n\n        return self.abs.equals(", "        if isinstance(other, Sequence):\n            return False\n\n        return self.abs.equals(", {"EQW"}),
    ("c17-equals-flags-swapped", "C17", SEQ, "return self.abs.equals(other.abs, ignore_channel, ignore_time_signature, ignore_key_signature, ignore_velocity)", "return self.abs.equals(other.abs, ignore_channel, ignore_key_signature, ignore_time_signature, ignore_velocity)", {"EQW"}),
    ("c12-file-never-written", "C12", SEQ, "        midi_file.save(file_path)\n", "", {"WRITE"}),
    ("c12-mido-save-dropped", "C12", MF, "        mido_midi_file.save(path)", "        pass", {"WRITE"}),
    ("c02-config-not-stored", "C02", TOKF, "        self.num_tracks = num_tracks\n", "", {"CONFIG"}),
    ("c02-default-overwrites-given", "C02", TOKF, "        if self.note_values is None:\n            self.note_values = get_default_note_values()", "        if self.note_values is not None:\n            self.note_values = get_default_note_values()", {"CONFIG"}),
    ("c02-vocabulary-built-conditionally", "C02", TOKF, "        # Construct dictionary\n        self._construct_dictionary()", "        # Construct dictionary\n        if flag_running_values:\n            self._construct_dictionary()", {"CONFIG"}),
    ("c10-duration-subtracts", "C10", REL, "                duration += msg.time\n\n        return duration / PPQN", "                duration -= msg.time\n\n        return duration / PPQN", {"MEASURE"}),
    ("c14-bar-key-guard-negated", "C14", BAR, "        if self.key_signature is not None:\n            self.key_signature = Key.transpose_key", "        if self.key_signature is None:\n            self.key_signature = Key.transpose_key", {"DELEG"}),
    ("c04-sort-skipped-when-flagged", "C04", ABS, "        self._messages.sort(key=lambda x: (x.time, -1 if x.channel is None else x.channel, x.message_type, x.note))", "        if getattr(self, \"_sorted\", False):\n            return\n        self._messages.sort(key=lambda x: (x.time, -1 if x.channel is None else x.channel, x.message_type, x.note))", {"ABS-SORTED"}),
    ("c20-position-from-range-table", "C20", MT, "        return CircleOfFifths.circle_of_fifths_order.index(Note(note_val % 12)) - 5", "        return [CircleOfFifths.circle_of_fifths_order.index(Note(v % 12)) - 5 for v in range(21, 109)][note_val - 21]", {"VS-POS", "VS-MOD"}),
    ("c18-set-channel-clamps-argument", "C18", REL, "    def set_channel(self, channel: int) -> None:\n        for msg in self._messages:", "    def set_channel(self, channel: int) -> None:\n        channel = min(15, max(0, channel))\n        for msg in self._messages:", {"REBIND"}),
    ("c08-insort-before-equal-ticks", "C08", "scoda/misc/util.py", "if message.time < collection[mid].time:", "if message.time <= collection[mid].time:", {"BISECT"}),
    ("c18-created-marker-channel-never-inferred", "C18", REL, "            if default_channel is None and msg.channel is not None:\n                default_channel = msg.channel\n\n            if msg.message_type == MessageType.WAIT:\n                current_point_in_time += msg.time", "            if default_channel is not None and msg.channel is not None:\n                default_channel = msg.channel\n\n            if msg.message_type == MessageType.WAIT:\n                current_point_in_time += msg.time", {"DEFCHAN"}),
    ("c10-identity-between-durations", "C10", ABS, "self_msg_value != other_msg_value", "self_msg_value is not other_msg_value", {"IDENT", "EQ1"}),
    ("c04-order-table-misses-a-kind", "C04", ENUM, "    def __lt__(self, other):\n        values = [e for e in MessageType]\n        return values.index(self) < values.index(other)",
     "    def __lt__(self, other):\n        return _POS.index(self) < _POS.index(other)\n\n\n_POS = [MessageType.INTERNAL, MessageType.KEY_SIGNATURE, MessageType.TIME_SIGNATURE, MessageType.CONTROL_CHANGE,\n        MessageType.PROGRAM_CHANGE, MessageType.NOTE_OFF, MessageType.NOTE_ON, MessageType.WAIT]", {"ABS-SORTED"}),
    ("c09-alias-input", "C09", SEQ, "sequences = [sequence for sequence in sequences_input]", "sequences = sequences_input", {"PURE"}),
    ("c09-half-length", "C09", SEQ, "length_bar = int(PPQN * (current_ts_numerator / (current_ts_denominator / 4)))", "length_bar = int(PPQN * (current_ts_numerator / (current_ts_denominator / 2)))", {"LEN"}),
    ("c09-swapped-sig", "C09", SEQ, "Bar(sequence_to_add, current_ts_numerator, current_ts_denominator,", "Bar(sequence_to_add, current_ts_denominator, current_ts_numerator,", {"SIG"}),
    # ---- C10
    ("c10-units", "C10", BAR, "if self.sequence.get_sequence_duration_relation() > self.time_signature_numerator / (", "if self.sequence.get_sequence_duration_relation() > self.time_signature_numerator * PPQN / (", {"UNIT1", "CAP"}),
    ("c10-ge", "C10", BAR, "if self.sequence.get_sequence_duration_relation() > self.time_signature_numerator / (", "if self.sequence.get_sequence_duration_relation() >= self.time_signature_numerator / (", {"CAP"}),
    ("c10-insert-end", "C10", BAR, "denominator=self.time_signature_denominator), index=0)", "denominator=self.time_signature_denominator), index=None)", {"SIG"}),
    ("c10-wrong-sig", "C10", BAR, "numerator=self.time_signature_numerator,\n                                                   denominator=self.time_signature_denominator), index=0)",
     "numerator=self.time_signature_denominator,\n                                                   denominator=self.time_signature_numerator), index=0)", {"SIG"}),
    ("c10-no-count-check", "C10", BAR, "        if len(time_signatures) > 1:\n            raise BarException(\"Too many time signatures in a bar\")\n", "", {"SIG"}),
    ("c10-signatures-of-a-prefix", "C10", BAR, "        time_signatures = [msg for msg in self.sequence.messages_rel() if\n", "        time_signatures = [msg for msg in list(self.sequence.messages_rel())[:1] if\n", {"SIG"}),
    ("c10-rewrite-filters-a-prefix", "C10", BAR, "        self.sequence.overwrite_relative_messages([msg for msg in self.sequence.messages_rel() if\n", "        self.sequence.overwrite_relative_messages([msg for msg in list(self.sequence.messages_rel())[:8] if\n", {"SIG"}),
    ("c10-copy-drops-key", "C10", BAR, "self.time_signature_numerator, self.time_signature_denominator, self.key_signature)", "self.time_signature_numerator, self.time_signature_denominator)", {"COPY"}),
    # ---- C11
    ("c11-true-division", "C11", ABS, "(message_original_time // step_size) * step_size", "(message_original_time / step_size) * step_size", {"NK1"}),
    ("c11-bar-float", "C11", BAR, "self.sequence.pad(int(self.time_signature_numerator * PPQN / (self.time_signature_denominator / 4)))", "self.sequence.pad(self.time_signature_numerator * PPQN / (self.time_signature_denominator / 4))", {"NK1"}),
    ("c11-length-bar-float", "C11", SEQ, "length_bar = int(PPQN * (current_ts_numerator / (current_ts_denominator / 4)))", "length_bar = PPQN * (current_ts_numerator / (current_ts_denominator / 4))", {"NK1"}),
    ("c11-round-digits", "C11", MF, "rounded_point_in_time = round(current_point_in_time)", "rounded_point_in_time = round(current_point_in_time, 0)", {"NK1"}),
    ("c11-cap-float", "C11", REL, "time=int(current_point_in_time)", "time=current_point_in_time * 1.0", {"NK1"}),
    ("c11-scale-half", "C11", REL, "                    msg.time = msg.time * factor\n        # Handle special", "                    msg.time = msg.time * factor / 1\n        # Handle special", {"NK1"}),
    # ---- C12
    ("c12-reset-in-wait", "C12", MTR, "            elif msg.message_type == MessageType.WAIT:\n                pass", "            elif msg.message_type == MessageType.WAIT:\n                time_buffer = 0", {"ACC2"}),
    ("c12-no-reset-key", "C12", MTR, "key=msg.key.value, time=int(time_buffer)))\n                time_buffer = 0", "key=msg.key.value, time=int(time_buffer)))", {"ACC2"}),
    ("c12-swap-num-den", "C12", MM, "msg.denominator = mido_message.denominator\n            msg.numerator = mido_message.numerator", "msg.denominator = mido_message.numerator\n            msg.numerator = mido_message.denominator", {"KINDS"}),
    ("c12-resolution", "C12", MF, "mido_midi_file.ticks_per_beat = PPQN", "mido_midi_file.ticks_per_beat = 480", {"RES"}),
    ("c12-velocity-const", "C12", MTR, "velocity=msg.velocity if msg.velocity is not None else 127", "velocity=127", {"KINDS"}),
    ("c12-key-name", "C12", MT, "G_B = \"Gb\"", "G_B = \"G-flat\"", {"TAB-MIDO", "TAB-KKM"}),
    # ---- C13
    ("c13-round-increments", "C13", MF, "current_point_in_time += (msg.time * scaling_factor)", "current_point_in_time += round(msg.time * scaling_factor)", {"ACCUM"}),
    ("c13-inverted-factor", "C13", MF, "scaling_factor = PPQN / self.PPQN", "scaling_factor = self.PPQN / PPQN", {"UNIT"}),
    ("c13-key-to-track", "C13", MF, "                    meta_sequence.add_absolute_message(\n                        Message(message_type=MessageType.KEY_SIGNATURE", "                    current_sequence.add_absolute_message(\n                        Message(message_type=MessageType.KEY_SIGNATURE", {"ROUTE"}),
    ("c13-vel0", "C13", MM, "if mido_message.type == \"note_on\" and mido_message.velocity > 0:", "if mido_message.type == \"note_on\" and mido_message.velocity >= 0:", {"VEL0"}),
    ("c13-truncate", "C13", MF, "rounded_point_in_time = round(current_point_in_time)", "rounded_point_in_time = int(current_point_in_time)", {"ACCUM"}),
    ("c13-missing-key", "C13", MT, "\"A#m\": Key.C_S, \"Abm\": Key.C_B,\n", "", {"TAB-MIDO"}),
    ("c13-wrong-relative", "C13", MT, "\"Em\": Key.G,", "\"Em\": Key.E,", {"TAB-MIDO"}),
    # ---- C14
    ("c14-only-note-on", "C14", REL, "if msg.message_type == MessageType.NOTE_ON or msg.message_type == MessageType.NOTE_OFF:\n                msg.note += transpose_by", "if msg.message_type == MessageType.NOTE_ON:\n                msg.note += transpose_by", {"SHIFT"}),
    ("c14-flag-not-set", "C14", REL, "while msg.note > NOTE_UPPER_BOUND:\n                    had_to_shift = True", "while msg.note > NOTE_UPPER_BOUND:\n                    pass", {"WRAP"}),
    ("c14-le", "C14", REL, "while msg.note < NOTE_LOWER_BOUND:", "while msg.note <= NOTE_LOWER_BOUND:", {"WRAP"}),
    ("c14-no-return", "C14", MT, "            return MusicMapping.key_transpose_order[index]\n\n        return key", "            return MusicMapping.key_transpose_order[index]", {"RET1", "VS-KEY"}),
    ("c14-minus", "C14", MT, "index = (index + transpose_by) % 12", "index = (index - transpose_by) % 12", {"RET2", "VS-KEY"}),
    ("c14-always-normalise", "C14", SEQ, "        if shifted:\n            self.normalise()\n            self.quantise_note_lengths()", "        self.normalise()\n        self.quantise_note_lengths()", {"DELEG"}),
    ("c14-bar-key", "C14", BAR, "self.key_signature = Key.transpose_key(self.key_signature, transpose_by)", "self.key_signature = Key.transpose_key(self.key_signature, -transpose_by)", {"DELEG"}),
    # ---- C15
    ("c15-no-normalise", "C15", SEQ, "        self.invalidate_rel()\n        self.normalise()\n\n    def messages_abs", "        self.invalidate_rel()\n\n    def messages_abs", {"NORM"}),
    ("c15-enum-order", "C15", ENUM, "    NOTE_OFF = \"note_off\"\n    NOTE_ON = \"note_on\"", "    NOTE_ON = \"note_on\"\n    NOTE_OFF = \"note_off\"", {"ORDER"}),
    ("c15-filter", "C15", ABS, "for msg in [msg for msg in sequence._messages]:", "for msg in [msg for msg in sequence._messages if msg.message_type != MessageType.INTERNAL]:", {"ALL"}),
    ("c15-no-sort", "C15", ABS, "                self._add_message_unsorted(msg)\n\n        self.normalise_absolute()", "                self._add_message_unsorted(msg)", {"ALL"}),
    ("c15-skip-first", "C15", SEQ, "self.abs.merge([seq.abs for seq in sequences])", "self.abs.merge([seq.abs for seq in sequences[1:]])", {"NORM"}),
    # ---- C16
    ("c16-shallow-copy", "C16", ASQ, "messages=[msg.copy() for msg in self._messages]", "messages=list(self._messages)", {"OWN1"}),
    ("c16-drop-velocity", "C16", MSG, "            velocity=self.velocity,\n            control=self.control,\n            program=self.program,\n            numerator=self.numerator,\n            denominator=self.denominator,\n            key=self.key\n        )\n        return cpy",
     "            control=self.control,\n            program=self.program,\n            numerator=self.numerator,\n            denominator=self.denominator,\n            key=self.key\n        )\n        return cpy", {"OWN2"}),
    ("c16-bar-shares", "C16", BAR, "self.__class__(self.sequence.copy(),", "self.__class__(self.sequence,", {"OWN1", "OWN2"}),
    ("c16-split-shares", "C16", REL, "working_memory = [msg.copy() for msg in self._messages]", "working_memory = copy.copy(self._messages)", {"OWN1"}),
    ("c16-track-shares", "C16", "scoda/elements/track.py", "[bar.copy() for bar in self.bars]", "[bar for bar in self.bars]", {"OWN1"}),
    ("c16-conversion-shares", "C16", ABS, "                message_to_add = msg.copy()\n                message_to_add.time = None", "                message_to_add = msg", {"OWN1"}),
    # ---- C17
    ("c18-cutoff-only-unclosed", "C18", ABS, "                if len(message_pairing) == 1:\n                    if not message_pairing[0].message_type", "                if len(message_pairing) != 1:\n                    if not message_pairing[0].message_type", {"CUT"}),
    ("c18-pad-extra-guard", "C18", REL, "        if current_length < padding_length:\n            self._messages.append(", "        if current_length < padding_length and default_channel is not None:\n            self._messages.append(", {"PAD"}),
    ("c06-noext-only-last-occurrence", "C06", ABS, "                for note_value in note_values:\n                    possible_correction = note_value - current_duration\n\n                    if possible_correction > 0 and do_not_extend and note_value in valid_durations:\n                        valid_durations.remove(note_value)",
     "                if index == len(note_occurrences[note]) - 1:\n                    for note_value in note_values:\n                        possible_correction = note_value - current_duration\n\n                        if possible_correction > 0 and do_not_extend and note_value in valid_durations:\n                            valid_durations.remove(note_value)", {"NOEXT"}),
    ("c07-sig-quotient", "C07", REL, "if msg.numerator != current_ts_numerator or msg.denominator != current_ts_denominator:", "if msg.numerator / msg.denominator != current_ts_numerator:", {"SIG"}),
    ("c15-sig-quotient", "C15", REL, "if msg.numerator != current_ts_numerator or msg.denominator != current_ts_denominator:", "if msg.numerator / msg.denominator != current_ts_numerator:", {"SIG"}),
    ("c15-bisect-lo-one", "C15", "scoda/misc/util.py", "    lo = 0\n    hi = len(collection)", "    lo = 1\n    hi = len(collection)", {"BISECT"}),
    ("c04-bisect-wrong-half", "C04", "scoda/misc/util.py", "            hi = mid\n        else:\n            lo = mid + 1", "            lo = mid + 1\n        else:\n            hi = mid", {"ABS-SORTED"}),
    ("c14-normalise-extra-guard", "C14", SEQ, "        if shifted:\n", "        if shifted and interval > 0:\n", {"DELEG"}),
    ("c01-no-bar-marker", "C01", TOKF, "                    for sequence in sequences:\n                        sequence.add_absolute_message(Message(message_type=MessageType.INTERNAL, time=cur_time))\n", "", {"DUR"}),
    ("c01-velocity-default-bins", "C01", TOKF, "msg_velocity = self.velocity_bins[bin_velocity(event_pairing[0].velocity, self.velocity_bins)]", "msg_velocity = self.velocity_bins[bin_velocity(event_pairing[0].velocity)]", {"NOTE"}),
    ("c01-rest-guard-inverted", "C01", TOKF, "            if not cur_time == msg_time:\n                _apply_rest(msg_time - cur_time)", "            if cur_time == msg_time:\n                _apply_rest(msg_time - cur_time)", {"REST"}),
    ("c01-no-merge", "C01", TOKF, "        sequence_bar = Sequence()\n        sequence_bar.merge(sequences_bar)", "        sequence_bar = Sequence()", {"INPUT"}),
    ("c12-velocity-truthiness", "C12", MTR, "velocity=msg.velocity if msg.velocity is not None else 127", "velocity=msg.velocity or 127", {"TRUTHY", "KINDS"}),
    ("c07-swallow-errors", "C07", REL, "        self._messages = messages_normalized", "        try:\n            self._messages = messages_normalized\n        except Exception:\n            pass", {"EXCEPT"}),
    ("c18-set-channel-early-return", "C18", REL, "        for msg in self._messages:\n            msg.channel = channel", "        if len(self._messages) == 0 or self._messages[0].channel == channel:\n            return\n        for msg in self._messages:\n            msg.channel = channel", {"FR", "REACH"}),
    ("c17-true-on-length-mismatch", "C17", ABS, "        if not len(self_pairings) == len(other_pairings):\n            return False", "        if not len(self_pairings) == len(other_pairings):\n            return True", {"RET", "LEN"}),
    ("c17-type-test-inverted", "C17", ABS, "if self_msg.message_type != other_msg.message_type:", "if self_msg.message_type == other_msg.message_type:", {"RET"}),
    ("c17-default-ignores-channel", "C17", ABS, "ignore_channel: bool = False,\n               ignore_time_signature", "ignore_channel: bool = True,\n               ignore_time_signature", {"RET"}),
    ("c17-pair-not-popped", "C17", ABS, "                        index = open_messages[msg.channel].pop(msg.note)\n                        message_pairings[msg.channel][index].append(msg)",
     "                        index = open_messages[msg.channel][msg.note]\n                        message_pairings[msg.channel][index].append(msg)", {"PAIR"}),
    ("c17-interleave-cursor-one", "C17", ABS, "channel_cur_index = [0 for _ in", "channel_cur_index = [1 for _ in", {"INTERLEAVE"}),
    ("c17-wrong-flag", "C17", ABS, "if self_msg.velocity != other_msg.velocity and not ignore_velocity:", "if self_msg.velocity != other_msg.velocity and not ignore_channel:", {"EQ2", "EQ1"}),
    ("c17-no-duration", "C17", ABS, "if self_msg.note != other_msg.note or self_msg_value != other_msg_value:", "if self_msg.note != other_msg.note:", {"EQ1"}),
    ("c17-asymmetric", "C17", ABS, "other_msg_value = other_msgs[1].time - other_msg.time", "other_msg_value = other_msgs[1].time", {"EQ3"}),
    ("c17-no-onset", "C17", ABS, "            if self_msg.time != other_msg.time:\n                return False\n", "", {"EQ1"}),
    ("c17-no-len", "C17", ABS, "        if not len(self_pairings) == len(other_pairings):\n            return False\n", "", {"LEN"}),
    ("c17-flag-order", "C17", SEQ, "return self.abs.equals(other.abs, ignore_channel, ignore_time_signature, ignore_key_signature, ignore_velocity)", "return self.abs.equals(other.abs, ignore_channel, ignore_key_signature, ignore_time_signature, ignore_velocity)", {"DELEG"}),
    ("c17-interleave-max", "C17", ABS, "next_channel_index = track_val_times.index(min(track_val_times))", "next_channel_index = track_val_times.index(max(track_val_times))", {"INTERLEAVE"}),
    # ---- C18
    ("c18-pad-full", "C18", REL, "time=padding_length - current_length))", "time=padding_length))", {"PAD"}),
    ("c18-channel-plus", "C18", REL, "            msg.channel = channel", "            msg.channel = channel\n            msg.note = msg.note", {"FR"}),
    ("c18-scale-all", "C18", REL, "                if msg.message_type == MessageType.WAIT:\n                    msg.time = msg.time * factor\n        # Handle special", "                if msg.message_type != MessageType.NOTE_ON:\n                    msg.time = msg.time * factor\n        # Handle special", {"FR"}),
    ("c18-cutoff-ge", "C18", ABS, "if message_pairing[1].time - message_pairing[0].time > maximum_length:", "if message_pairing[1].time - message_pairing[0].time >= maximum_length:", {"CUT"}),
    ("c18-cutoff-wrong-len", "C18", ABS, "message_pairing[1].time = message_pairing[0].time + reduced_length", "message_pairing[1].time = message_pairing[0].time + maximum_length", {"CUT"}),
    ("c18-wrapper-arg", "C18", SEQ, "self.abs.cutoff(maximum_length=maximum_length, reduced_length=reduced_length)", "self.abs.cutoff(maximum_length=maximum_length, reduced_length=maximum_length)", {"DELEG"}),
    ("c18-no-sort", "C18", ABS, "                        message_pairing[1].time = message_pairing[0].time + reduced_length\n\n        self.normalise_absolute()", "                        message_pairing[1].time = message_pairing[0].time + reduced_length", {"SORT"}),
    ("c18-pad-counts-all", "C18", REL, "            if msg.message_type == MessageType.WAIT:\n                current_length += msg.time\n\n                if current_length >= padding_length:", "            if msg.message_type != MessageType.NOTE_ON:\n                current_length += msg.time\n\n                if current_length >= padding_length:", {"MEASURE"}),
    # ---- C19
    ("c19-bar-no-reset", "C19", TOKF, "            if main_part == TokenisationPrefixes.BAR.value:\n                cur_time += cur_bar_capacity_remaining\n                cur_time_bar = 0", "            if main_part == TokenisationPrefixes.BAR.value:\n                cur_time += cur_bar_capacity_remaining", {"CLK1"}),
    ("c19-rest-assign", "C19", TOKF, "                cur_time += int(token_parts[0][1])\n                cur_time_bar += int(token_parts[0][1])", "                cur_time += int(token_parts[0][1])\n                cur_time_bar = int(token_parts[0][1])", {"CLK1"}),
    ("c19-capacity", "C19", TOKF, "                    cur_bar_capacity_total = int(\n                        self.ppqn * 4 * cur_time_signature_numerator / cur_time_signature_denominator)\n                    cur_bar_capacity_remaining = cur_bar_capacity_total\n\n                if not flag_impute_values:",
     "                    cur_bar_capacity_total = int(\n                        self.ppqn * 2 * cur_time_signature_numerator / cur_time_signature_denominator)\n                    cur_bar_capacity_remaining = cur_bar_capacity_total\n\n                if not flag_impute_values:", {"CLK1", "CLK3"}),
    ("c19-cof-prev", "C19", TOKF, "                info_pitch.append(note_pitch)\n                info_cof.append(CircleOfFifths.get_position(note_pitch))", "                info_pitch.append(note_pitch)\n                info_cof.append(CircleOfFifths.get_position(prv_pitch))", {"PITCH"}),
    ("c19-missing-time", "C19", TOKF, "            info_time.append(cur_time)\n            info_time_bar.append(cur_time_bar)\n\n            if main_part == TokenisationPrefixes.BAR.value:", "            info_time_bar.append(cur_time_bar)\n\n            if main_part == TokenisationPrefixes.BAR.value:", {"CLK4"}),
    ("c19-double-append", "C19", TOKF, "                note_pitch = int(pitch_part[1])\n\n                info_pitch.append(note_pitch)", "                note_pitch = int(pitch_part[1])\n\n                info_pitch.append(note_pitch)\n                info_pitch.append(note_pitch)", {"CLK4"}),
    # ---- C20
    ("c20-order-swap", "C20", MT, "key_transpose_order = [Key.C, Key.C_S, Key.D, Key.E_B", "key_transpose_order = [Key.C, Key.D, Key.C_S, Key.E_B", {"TAB-ORDER", "VS-KEY"}),
    ("c20-scale", "C20", MT, "Key.G: ([Note.G, Note.A, Note.B, Note.C, Note.D, Note.E, Note.F_S], 1)", "Key.G: ([Note.G, Note.A, Note.B, Note.C, Note.D, Note.E, Note.F], 1)", {"TAB-SCALE"}),
    ("c20-distance", "C20", MT, "distance_left = 12 - distance_right", "distance_left = 11 - distance_right", {"VS-DIST", "VS-LAND"}),
    ("c20-tie", "C20", MT, "elif distance_right < distance_left:", "elif distance_right <= distance_left + 2:", {"VS-DIST"}),
    ("c20-position", "C20", MT, "Note(note_val % 12)) - 5", "Note(note_val % 12)) - 6", {"VS-POS", "VS-DIST"}),
    ("c20-cof", "C20", MT, "Note.C, Note.G, Note.D, Note.A, Note.E, Note.B,", "Note.C, Note.G, Note.A, Note.D, Note.E, Note.B,", {"TAB-COF"}),
    ("c20-mapping", "C20", MT, "Key.D_B: Key.C_S, Key.G_B: Key.F_S, Key.C_B: Key.B}", "Key.D_B: Key.C_S, Key.G_B: Key.F_S, Key.C_B: Key.C}", {"TAB-ORDER"}),
    # ---- C01
    ("c01-rest-bar-time", "C01", TOKF, "                cur_time += rest_value\n                cur_time_bar += rest_value", "                cur_time += rest_value\n                cur_time_bar += nxt_rest", {"CLK2"}),
    ("c01-note-off", "C01", TOKF, "Message(message_type=MessageType.NOTE_OFF, note=note_pitch, time=cur_time + prv_value)", "Message(message_type=MessageType.NOTE_OFF, note=note_pitch, time=cur_time + prv_value - 1)", {"NOTE"}),
    ("c01-prv-value", "C01", TOKF, "                prv_value = msg_value\n                prv_velocity = msg_velocity", "                prv_velocity = msg_velocity", {"RUN"}),
    ("c01-scaled-quarter", "C01", TOKF, "scaled = msg_numerator * (DEFAULT_TIME_SIGNATURE_DENOMINATOR / msg_denominator)", "scaled = msg_numerator * (4 / msg_denominator)", {"CLK2"}),
    ("c01-bar-guard", "C01", TOKF, "if cur_bar_capacity_remaining == 0:\n                    if insert_bar_token:", "if cur_bar_capacity_remaining <= 1:\n                    if insert_bar_token:", {"CLK2"}),
    ("c01-running-and", "C01", TOKF, "if not self.flag_fuse_value and (msg_value != prv_value or not self.flag_running_values):", "if not self.flag_fuse_value and (msg_value != prv_value and not self.flag_running_values):", {"RUN"}),
    ("c01-format", "C01", TOKF, "token += f\"{TokenisationPrefixes.PITCH.value}_{msg_note:03}-\"", "token += f\"{TokenisationPrefixes.PITCH.value}_{msg_note:02}-\"", {"TPL1"}),
    ("c01-sort-order", "C01", TOKF, "sort_order = [TokenisationPrefixes.TRACK.value, TokenisationPrefixes.VALUE.value,\n                  TokenisationPrefixes.VELOCITY.value, TokenisationPrefixes.PITCH.value]",
     "sort_order = [TokenisationPrefixes.PITCH.value, TokenisationPrefixes.TRACK.value, TokenisationPrefixes.VALUE.value,\n                  TokenisationPrefixes.VELOCITY.value]", {"TPL6"}),
    ("c01-no-pitch-guard", "C01", TOKF, "                if not (self.pitch_range[0] <= msg_note <= self.pitch_range[1]):\n                    raise TokenisationException(f\"Invalid note pitch: {msg_note}\")", "                pass", {"GUARD", "TPL1"}),
    ("c01-interleave-cursor", "C01", ABS, "            channel_cur_index[next_channel_index] += 1\n            channel_nxt_times", "            channel_cur_index[next_channel_index] += 2\n            channel_nxt_times", {"INTERLEAVE"}),
    # ---- C02
    ("c02-missing-incr", "C02", TOKF, "        self.dictionary[TokenisationPrefixes.BAR.value] = 3\n        self._dictionary_size += 1", "        self.dictionary[TokenisationPrefixes.BAR.value] = 3", {"TPL2"}),
    ("c02-tsg-range", "C02", TOKF, "for time_signature in range(self.time_signature_range[0], self.time_signature_range[1] + 1):", "for time_signature in range(self.time_signature_range[0], self.time_signature_range[1]):", {"TPL1"}),
    ("c02-trailing-dash", "C02", TOKF, "            if token.endswith(\"-\"):\n                token = token[:-1]\n", "", {"TPL1"}),
    ("c02-float-bins", "C02", TOKF, "self.velocity_bins = sorted({int(velocity_bin) for velocity_bin in get_velocity_bins(velocity_bins=velocity_bins)})", "self.velocity_bins = sorted({velocity_bin for velocity_bin in get_velocity_bins(velocity_bins=velocity_bins)})", {"NK2"}),
    ("c02-inverse-early", "C02", TOKF, "        self.inverse_dictionary = {v: k for k, v in self.dictionary.items()}\n", "", {"TPL3"}),
    ("c02-no-int", "C02", TOKF, "prv_track = int(token_parts[i][1])", "prv_track = token_parts[i][1]", {"TPL4"}),
    ("c02-stale-id", "C02", TOKF, "            self.dictionary[token] = self.dictionary_size\n            self._dictionary_size += 1\n\n        for time_signature", "            self.dictionary[token] = len(self.dictionary) - 1\n            self._dictionary_size += 1\n\n        for time_signature", {"TPL2"}),
    # ---- C03
    ("c03-drop-save", "C03", TOKF, "        state_dict[\"prv_value\"] = prv_value\n", "", {"ST1"}),
    ("c03-rename-key", "C03", TOKF, "state_dict[\"cur_time_bar\"] = cur_time_bar", "state_dict[\"cur_bar_time\"] = cur_time_bar", {"ST1"}),
    ("c03-shift-key", "C03", TOKF, "prv_shift = state_dict.get(\"cur_time\", 0)", "prv_shift = state_dict.get(\"cur_time_bar\", 0)", {"ST1"}),
    ("c03-default", "C03", TOKF, "cur_time_bar = state_dict.get(\"cur_time_bar\", 0)", "cur_time_bar = state_dict.get(\"cur_time_bar\", 1)", {"ST2"}),
    ("c03-not-restored", "C03", TOKF, "cur_bar_capacity_remaining = state_dict.get(\"cur_bar_capacity_remaining\", cur_bar_capacity_total)", "cur_bar_capacity_remaining = cur_bar_capacity_total", {"ST1", "ST2"}),
    ("c03-save-before-close", "C03", TOKF, "        # Close bar and handle rest buffer\n        if (cur_time_bar > 0 or cur_bar_has_notes) and cur_bar_capacity_remaining > 0:\n            _apply_rest(cur_bar_capacity_remaining)\n\n        # Update state dictionary\n        state_dict[\"cur_time\"] = cur_time",
     "        # Update state dictionary\n        state_dict[\"cur_time\"] = cur_time\n        # Close bar and handle rest buffer\n        if (cur_time_bar > 0 or cur_bar_has_notes) and cur_bar_capacity_remaining > 0:\n            _apply_rest(cur_bar_capacity_remaining)\n", {"ST3"}),
    ("c17-sort-skipped-when-time-ordered", "C17", ABS, "        self._messages.sort(key=lambda x: (x.time, -1 if x.channel is None else x.channel, x.message_type, x.note))",
     "        if all(self._messages[i].time <= self._messages[i + 1].time for i in range(len(self._messages) - 1)):\n            return\n        self._messages.sort(key=lambda x: (x.time, -1 if x.channel is None else x.channel, x.message_type, x.note))", {"ORDER"}),
    ("c18-scale-returns-unless-one", "C18", REL, "        if factor == 1:\n            return\n        if factor > 1:", "        if not factor == 1:\n            return\n        if factor > 1:", {"SCALE"}),
    ("c06-no-removal", "C06", ABS, "                    message_pairings[i] = []\n", "                    pass\n", {"KEEP"}),
    ("c01-sig-emitted-on-equal", "C01", TOKF, "                            switched = True\n", "                            pass\n", {"SIGEMIT"}),
    ("c01-sig-halved-when-odd", "C01", TOKF, "cur_time_signature_numerator % 2 == 0 and", "cur_time_signature_numerator % 2 != 0 and", {"SIGEMIT"}),
    ("c01-dispatch-shadowed", "C01", TOKF, "                if main_part == TokenisationPrefixes.PAD.value:\n                    continue\n                elif",
     "                if main_part != TokenisationPrefixes.PAD.value:\n                    continue\n                elif", {"CHAIN"}),
    ("c01-rest-value-unbound", "C01", TOKF, "                    rest_value = self.step_sizes[-1]\n", "                    pass\n", {"UNDEF"}),
    ("c04-conversion-clock-starts-at-one", "C04", REL, "        current_point_in_time = 0\n        default_channel = None\n        cap_message_exists = True", "        current_point_in_time = 1\n        default_channel = None\n        cap_message_exists = True", {"CONV"}),
    ("c04-invalidate-before-change", "C04", SEQ, "        self.rel.scale(factor, meta_sequence)\n        self.invalidate_abs()", "        self.invalidate_abs()\n        self.rel.scale(factor, meta_sequence)", {"TS-ORDER"}),
    ("c19-get-info-keeps-state", "C19", TOKF, "        info_pos = []\n        info_time = []", "        self.last_info_request = tokens\n        info_pos = []\n        info_time = []", {"DERIVED"}),
    ("c03-close-partially-used-bar", "C03", TOKF, "        if (cur_time_bar > 0 or cur_bar_has_notes) and cur_bar_capacity_remaining > 0:\n            _apply_rest(cur_bar_capacity_remaining)",
     "        if cur_bar_has_notes and 0 < cur_bar_capacity_remaining < cur_bar_capacity_total:\n            _apply_rest(cur_bar_capacity_remaining)", {"CLOSE"}),
    ("c08-piece-object-as-condition", "C08", REL, "                if len(working_memory) == 0:\n                    if len(current_sequence._messages) > 0:",
     "                if len(working_memory) == 0:\n                    if current_sequence:", {"OBJTRUTH"}),
    ("c03-stale-has-notes-flag", "C03", TOKF, "                    cur_bar_capacity_remaining = cur_bar_capacity_total\n                    cur_bar_has_notes = False", "                    cur_bar_capacity_remaining = cur_bar_capacity_total", {"CLOSE"}),
]

# anchor functions per property for the behaviour-preserving rewrites
ANCHORS = {
    "C01": ["MultiTrackLargeVocabularyNotelikeTokeniser.tokenise", "MultiTrackLargeVocabularyNotelikeTokeniser.detokenise"],
    "C02": ["MultiTrackLargeVocabularyNotelikeTokeniser._construct_dictionary", "MultiTrackLargeVocabularyNotelikeTokeniser.tokenise"],
    "C03": ["MultiTrackLargeVocabularyNotelikeTokeniser.tokenise"],
    "C04": ["Sequence.copy", "Sequence.overwrite_absolute_messages", "Sequence.messages_abs", "Sequence.scale", "Bar.__init__",
            "AbsoluteSequence.to_relative_sequence", "RelativeSequence.to_absolute_sequence"],
    "C05": ["AbsoluteSequence.quantise", "find_minimal_distance"],
    "C06": ["AbsoluteSequence.quantise_note_lengths", "AbsoluteSequence.get_message_pairings"],
    "C07": ["RelativeSequence.normalise_relative"],
    "C08": ["RelativeSequence.split"],
    "C09": ["Sequence.sequences_split_bars"],
    "C10": ["Bar.__init__", "RelativeSequence.pad"],
    "C11": ["RelativeSequence.split", "AbsoluteSequence.quantise", "MidiFile.convert", "RelativeSequence.pad"],
    "C12": ["MidiTrack.to_mido_track", "MidiMessage.parse_mido_message"],
    "C13": ["MidiFile.convert", "MidiMessage.parse_mido_message"],
    "C14": ["RelativeSequence.transpose", "Sequence.transpose", "Key.transpose_key"],
    "C15": ["AbsoluteSequence.merge", "Sequence.merge", "binary_insort"],
    "C16": ["RelativeSequence.split", "AbstractSequence.copy", "Sequence.sequences_split_bars", "Sequence.copy"],
    "C17": ["AbsoluteSequence.equals", "AbsoluteSequence.get_interleaved_message_pairings"],
    "C18": ["RelativeSequence.pad", "AbsoluteSequence.cutoff", "RelativeSequence.scale", "RelativeSequence.set_channel"],
    "C19": ["MultiTrackLargeVocabularyNotelikeTokeniser.get_info", "MultiTrackLargeVocabularyNotelikeTokeniser.detokenise"],
    "C20": ["CircleOfFifths.get_distance", "Key.transpose_key", "CircleOfFifths.from_distance"],
}


# ------------------------------------------------------------------------------------------------ rewrites
# Hand-written behaviour-preserving refactorings (beyond the mechanical rewrite kinds): each is a list of (path, old, new)
# replacements applied together; the check must stay silent on the result.  Every entry was first written to answer the
# question "would a correct version of the change a seed made be reported?".
EQUIVALENTS = [
    ("signature-filters-merged-dict-by-kind", ("C07", "C15", "C13"), [(REL, "        current_ts_numerator = None\n        current_ts_denominator = None\n        current_key = None\n", "        current_signatures = dict()\n"),
      (REL, "                elif msg.message_type == MessageType.TIME_SIGNATURE:\n                    if msg.numerator != current_ts_numerator or msg.denominator != current_ts_denominator:\n                        current_ts_numerator = msg.numerator\n                        current_ts_denominator = msg.denominator\n                    else:\n                        continue\n                elif msg.message_type == MessageType.KEY_SIGNATURE:\n                    if msg.key != current_key:\n                        current_key = msg.key\n                    else:\n                        continue\n", "                elif msg.message_type in (MessageType.TIME_SIGNATURE, MessageType.KEY_SIGNATURE):\n                    signature = (msg.numerator, msg.denominator, msg.key)\n                    if current_signatures.get(msg.message_type) == signature:\n                        continue\n                    current_signatures[msg.message_type] = signature\n")]),
    ("signature-filters-tuple-in-force", ("C07", "C15", "C12"), [(REL, "        current_ts_numerator = None\n        current_ts_denominator = None\n        current_key = None\n", "        current_ts = None\n        current_key = None\n"),
      (REL, "                elif msg.message_type == MessageType.TIME_SIGNATURE:\n                    if msg.numerator != current_ts_numerator or msg.denominator != current_ts_denominator:\n                        current_ts_numerator = msg.numerator\n                        current_ts_denominator = msg.denominator\n                    else:\n                        continue\n                elif msg.message_type == MessageType.KEY_SIGNATURE:\n                    if msg.key != current_key:\n                        current_key = msg.key\n                    else:\n                        continue\n", "                elif msg.message_type == MessageType.TIME_SIGNATURE:\n                    if (msg.numerator, msg.denominator) == current_ts:\n                        continue\n                    current_ts = (msg.numerator, msg.denominator)\n                elif msg.message_type == MessageType.KEY_SIGNATURE:\n                    if msg.key == current_key:\n                        continue\n                    current_key = msg.key\n")]),
    ("close-guard-chained-comparison", ("C03", "C01"), [(TOKF,
      "        if (cur_time_bar > 0 or cur_bar_has_notes) and cur_bar_capacity_remaining > 0:\n            _apply_rest(cur_bar_capacity_remaining)",
      "        if (cur_bar_has_notes or 0 < cur_time_bar) and 0 < cur_bar_capacity_remaining <= cur_bar_capacity_total:\n            _apply_rest(cur_bar_capacity_remaining)")]),
    ("split-piece-tests-by-truthiness-of-lists", ("C08", "C09"), [(REL,
      "                if len(working_memory) == 0:\n                    if len(current_sequence._messages) > 0:",
      "                if not working_memory:\n                    if current_sequence._messages:")]),
    ("pad-measure-as-sum", ("C18", "C10", "C09"), [(REL,
      "        current_length = 0\n        default_channel = None\n\n        for msg in self._messages:\n            if default_channel is None and msg.channel is not None:\n                default_channel = msg.channel\n\n            if msg.message_type == MessageType.WAIT:\n                current_length += msg.time\n\n                if current_length >= padding_length:\n                    break\n",
      "        default_channel = next((msg.channel for msg in self._messages if msg.channel is not None), None)\n        current_length = sum(msg.time for msg in self._messages if msg.message_type == MessageType.WAIT)\n")]),
    ("split-capacities-as-list", ("C08", "C09"), [(REL,
      "        split_sequences = []\n        working_memory = [msg.copy() for msg in self._messages]",
      "        capacities = list(capacities)\n        split_sequences = []\n        working_memory = [msg.copy() for msg in self._messages]")]),
    ("load-defaults-by-range", ("C13", "C12"), [(SEQ,
      "            track_indices = [[i] for i, _ in enumerate(midi_file.tracks)]",
      "            track_indices = [[i] for i in range(len(midi_file.tracks))]"),
      (SEQ, "            meta_track_indices = [i for i, _ in enumerate(midi_file.tracks)]",
      "            meta_track_indices = list(range(len(midi_file.tracks)))")]),
    ("bar-signatures-from-a-list-copy", ("C10",), [(BAR, "        time_signatures = [msg for msg in self.sequence.messages_rel() if\n", "        time_signatures = [msg for msg in list(self.sequence.messages_rel()) if\n")]),
    ("eq-by-operator", ("C17", "C10", "C16"), [(SEQ, "        return self.abs.__eq__(o.abs)", "        return self.abs == o.abs")]),
    ("message-type-order-by-table", ("C15", "C04", "C12", "C13"), [(ENUM,
      "    def __lt__(self, other):\n        values = [e for e in MessageType]\n        return values.index(self) < values.index(other)",
      "    def __lt__(self, other):\n        return _SORT_POSITIONS[self] < _SORT_POSITIONS[other]\n\n\n_SORT_POSITIONS = {message_type: position for position, message_type in enumerate([\n    MessageType.INTERNAL,\n    MessageType.SEQUENCE_CONTROL,\n    MessageType.KEY_SIGNATURE,\n    MessageType.TIME_SIGNATURE,\n    MessageType.CONTROL_CHANGE,\n    MessageType.PROGRAM_CHANGE,\n    MessageType.NOTE_OFF,\n    MessageType.NOTE_ON,\n    MessageType.WAIT,\n])}")]),
    ("group-merge-by-unpacking", ("C13", "C12"), [(MF,
      "            track = sequences_to_merge[0]\n            track.merge(sequences_to_merge[1:])",
      "            track, *others = sequences_to_merge\n            track.merge(others)")]),
    ("group-membership-hoisted", ("C13", "C12"), [(MF,
      "            # Skip tracks not specified\n            if not any(i in indices for indices in track_indices) and i not in meta_track_indices:",
      "            in_group = any(i in indices for indices in track_indices)\n            # Skip tracks not specified\n            if not in_group and i not in meta_track_indices:"),
      (MF, "            if any(i in indices for indices in track_indices):\n                group_indices", "            if in_group:\n                group_indices"),
      (MF, "if msg.message_type == MessageType.NOTE_ON and any(i in indices for indices in track_indices):", "if msg.message_type == MessageType.NOTE_ON and in_group:"),
      (MF, "elif msg.message_type == MessageType.NOTE_OFF and any(i in indices for indices in track_indices):", "elif msg.message_type == MessageType.NOTE_OFF and in_group:")]),
    ("normalise-setdefault", ("C07", "C15"), [(REL,
      "                    note_list = open_messages[msg.channel].get(msg.note, [])\n                    note_list.append(msg)\n                    open_messages[msg.channel][msg.note] = note_list\n",
      "                    note_list = open_messages[msg.channel].setdefault(msg.note, [])\n                    note_list.append(msg)\n")]),
    ("bars-while-true-break", ("C09",), [(SEQ, "        while not tracks_synchronised:\n", "        while True:\n            if tracks_synchronised:\n                break\n")]),
    ("pairings-get-with-default", ("C06", "C17"), [(ABS,
      "                    if msg.channel not in open_messages or msg.note not in open_messages[msg.channel]:",
      "                    if msg.note not in open_messages.get(msg.channel, {}):")]),
    ("cutoff-length-in-a-local", ("C18",), [(ABS,
      "                    if message_pairing[1].time - message_pairing[0].time > maximum_length:\n",
      "                    note_length = message_pairing[1].time - message_pairing[0].time\n                    if note_length > maximum_length:\n")]),
    ("closest-duration-by-min-key", ("C06", "C09"), [(ABS,
      "                    best_fit = valid_durations[find_minimal_distance(current_duration, valid_durations)]",
      "                    best_fit = min(valid_durations, key=lambda duration: abs(duration - current_duration))")]),
    ("vocabulary-token-by-join", ("C02", "C01", "C19"), [(TOKF,
      '            parts = list(combination)\n            token = ""\n\n            if self.flag_fuse_track:\n                token += f"{TokenisationPrefixes.TRACK.value}_{parts.pop(0):02}-"\n\n            token += f"{TokenisationPrefixes.PITCH.value}_{parts.pop(0):03}-"\n\n            if self.flag_fuse_value:\n                token += f"{TokenisationPrefixes.VALUE.value}_{parts.pop(0):02}-"\n\n            if self.flag_fuse_velocity:\n                token += f"{TokenisationPrefixes.VELOCITY.value}_{parts.pop(0):03}"\n\n            if token.endswith("-"):\n                token = token[:-1]\n',
      '            parts = list(combination)\n            pieces = []\n\n            if self.flag_fuse_track:\n                pieces.append(f"{TokenisationPrefixes.TRACK.value}_{parts.pop(0):02}")\n\n            pieces.append(f"{TokenisationPrefixes.PITCH.value}_{parts.pop(0):03}")\n\n            if self.flag_fuse_value:\n                pieces.append(f"{TokenisationPrefixes.VALUE.value}_{parts.pop(0):02}")\n\n            if self.flag_fuse_velocity:\n                pieces.append(f"{TokenisationPrefixes.VELOCITY.value}_{parts.pop(0):03}")\n\n            token = "-".join(pieces)\n')]),
    ("transpose-shift-helper", ("C14",), [(REL,
      "                msg.note += transpose_by\n                while msg.note < NOTE_LOWER_BOUND:\n                    had_to_shift = True\n                    msg.note += 12\n                while msg.note > NOTE_UPPER_BOUND:\n                    had_to_shift = True\n                    msg.note -= 12\n",
      "                if RelativeSequence._shift_note(msg, transpose_by):\n                    had_to_shift = True\n"),
      (REL, "    def transpose(self, transpose_by: int) -> bool:",
      "    @staticmethod\n    def _shift_note(msg, transpose_by) -> bool:\n        wrapped = False\n        msg.note += transpose_by\n        while msg.note < NOTE_LOWER_BOUND:\n            wrapped = True\n            msg.note += 12\n        while msg.note > NOTE_UPPER_BOUND:\n            wrapped = True\n            msg.note -= 12\n        return wrapped\n\n    def transpose(self, transpose_by: int) -> bool:")]),
]


class _Rename(ast.NodeTransformer):
    def __init__(self, names: set[str]):
        self.names = names

    def visit_Name(self, n):
        if n.id in self.names:
            return ast.copy_location(ast.Name(id=n.id + "_r", ctx=n.ctx), n)
        return n

    def visit_Nonlocal(self, n):
        n.names = [x + "_r" if x in self.names else x for x in n.names]
        return n

    def visit_arg(self, n):
        return n


def local_names(fn: ast.FunctionDef) -> set[str]:
    params = set()
    for f in ast.walk(fn):
        if isinstance(f, (ast.FunctionDef, ast.Lambda)):
            a = f.args
            params |= {x.arg for x in a.posonlyargs + a.args + a.kwonlyargs}
            if a.vararg:
                params.add(a.vararg.arg)
            if a.kwarg:
                params.add(a.kwarg.arg)
    stored = {n.id for n in ast.walk(fn) if isinstance(n, ast.Name) and isinstance(n.ctx, ast.Store)}
    glob = {x for n in ast.walk(fn) if isinstance(n, ast.Global) for x in n.names}
    nested = {n.name for n in ast.walk(fn) if isinstance(n, ast.FunctionDef) and n is not fn}
    return stored - params - glob - nested


class _AugToAssign(ast.NodeTransformer):
    def visit_AugAssign(self, n):
        self.generic_visit(n)
        if isinstance(n.target, ast.Name):
            return ast.copy_location(ast.Assign(targets=[ast.Name(id=n.target.id, ctx=ast.Store())],
                                                value=ast.BinOp(left=ast.Name(id=n.target.id, ctx=ast.Load()), op=n.op, right=n.value)), n)
        return n


class _PassHead(ast.NodeTransformer):
    def _blk(self, body):
        if body and not (isinstance(body[0], ast.Expr) and isinstance(body[0].value, ast.Constant)):
            return [ast.Pass()] + body
        return body

    def generic_visit(self, node):
        super().generic_visit(node)
        for fld in ("body", "orelse", "finalbody"):
            b = getattr(node, fld, None)
            if isinstance(b, list) and b and isinstance(b[0], ast.stmt) and not isinstance(node, (ast.Module, ast.ClassDef)):
                if isinstance(node, ast.FunctionDef) and fld == "body":
                    # keep a docstring first
                    if isinstance(b[0], ast.Expr) and isinstance(b[0].value, ast.Constant) and isinstance(b[0].value.value, str):
                        setattr(node, fld, [b[0], ast.Pass()] + b[1:])
                        continue
                if fld == "orelse" and len(b) == 1 and isinstance(b[0], ast.If):
                    continue      # keep `elif` chains as they are
                setattr(node, fld, self._blk(b))
        return node


class _Hoist(ast.NodeTransformer):
    """`if a <op> EXPR:` -> `_h1 = EXPR` followed by `if a <op> _h1:` for non-trivial EXPR of plain (non-elif) if statements."""

    def __init__(self, left: bool = False):
        self.n = 0
        self.left = left            # hoist the left operand instead of the right one

    def _hoist_block(self, body):
        out = []
        for s in body:
            s = self.visit(s)
            if isinstance(s, ast.If) and isinstance(s.test, ast.Compare) and len(s.test.ops) == 1 \
                    and isinstance(s.test.left if self.left else s.test.comparators[0], (ast.BinOp, ast.Call, ast.Subscript)) \
                    and not any(isinstance(x, (ast.Yield, ast.Await, ast.NamedExpr)) for x in ast.walk(s.test)):
                self.n += 1
                name = f"_h{self.n}"
                if self.left:
                    out.append(ast.copy_location(ast.Assign(targets=[ast.Name(id=name, ctx=ast.Store())], value=s.test.left), s))
                    s.test.left = ast.Name(id=name, ctx=ast.Load())
                else:
                    out.append(ast.copy_location(ast.Assign(targets=[ast.Name(id=name, ctx=ast.Store())], value=s.test.comparators[0]), s))
                    s.test.comparators[0] = ast.Name(id=name, ctx=ast.Load())
            out.append(s)
        return out

    def generic_visit(self, node):
        for fld in ("body", "orelse", "finalbody"):
            b = getattr(node, fld, None)
            if isinstance(b, list) and b and isinstance(b[0], ast.stmt):
                if fld == "orelse" and len(b) == 1 and isinstance(b[0], ast.If) and isinstance(node, ast.If):
                    self.generic_visit(b[0])       # elif: descend without hoisting in front of it
                    continue
                setattr(node, fld, self._hoist_block(b))
        return node

    def visit(self, node):
        if isinstance(node, ast.stmt):
            return self.generic_visit(node)
        return node


class _Flip(ast.NodeTransformer):
    """`if c: A else: B` -> `if not c: B else: A` for plain if/else statements (no elif on either side)."""

    def __init__(self):
        self.n = 0

    def visit_If(self, node):
        self.generic_visit(node)
        if node.orelse and not (len(node.orelse) == 1 and isinstance(node.orelse[0], ast.If)) \
                and not (len(node.body) == 1 and isinstance(node.body[0], ast.If)):
            par_is_elif = False
            self.n += 1
            node.test = ast.UnaryOp(op=ast.Not(), operand=node.test)
            node.body, node.orelse = node.orelse, node.body
        return node


class _DeMorgan(ast.NodeTransformer):
    """Tests of if/while statements re-spelt: `a and b` -> `not (not a or not b)`, `a or b` -> `not (not a and not b)`,
    `a == b` -> `not a != b`, `a != b` -> `not a == b`, `x in y` -> `not x not in y`."""
    _FLIP = {ast.Eq: ast.NotEq, ast.NotEq: ast.Eq, ast.In: ast.NotIn, ast.NotIn: ast.In, ast.Is: ast.IsNot, ast.IsNot: ast.Is}

    def __init__(self):
        self.n = 0

    def respell(self, t):
        if isinstance(t, ast.BoolOp):
            self.n += 1
            other = ast.Or() if isinstance(t.op, ast.And) else ast.And()
            return ast.UnaryOp(op=ast.Not(), operand=ast.BoolOp(op=other, values=[ast.UnaryOp(op=ast.Not(), operand=self.respell_leaf(v)) for v in t.values]))
        return self.respell_leaf(t)

    def respell_leaf(self, t):
        if isinstance(t, ast.Compare) and len(t.ops) == 1 and type(t.ops[0]) in self._FLIP:
            self.n += 1
            return ast.UnaryOp(op=ast.Not(), operand=ast.Compare(left=t.left, ops=[self._FLIP[type(t.ops[0])]()], comparators=t.comparators))
        return t

    def visit_If(self, node):
        self.generic_visit(node)
        node.test = self.respell(node.test)
        return node

    def visit_While(self, node):
        self.generic_visit(node)
        node.test = self.respell(node.test)
        return node


class _SwapStmts(ast.NodeTransformer):
    """Adjacent simple assignments to plain names that do not depend on each other (no calls, disjoint reads / writes) are
    exchanged, pairwise, in every block."""

    def __init__(self):
        self.n = 0

    @staticmethod
    def _rw(s):
        if not isinstance(s, (ast.Assign, ast.AugAssign)):
            return None
        tg = s.targets if isinstance(s, ast.Assign) else [s.target]
        if not all(isinstance(t, ast.Name) for t in tg):
            return None
        if any(isinstance(x, (ast.Call, ast.Yield, ast.Await, ast.NamedExpr, ast.Subscript, ast.Attribute)) for x in ast.walk(s.value)):
            return None
        w = {t.id for t in tg}
        r = {x.id for x in ast.walk(s.value) if isinstance(x, ast.Name)} | (w if isinstance(s, ast.AugAssign) else set())
        return r, w

    def generic_visit(self, node):
        super().generic_visit(node)
        for fld in ("body", "orelse", "finalbody"):
            b = getattr(node, fld, None)
            if isinstance(b, list) and len(b) >= 2 and isinstance(b[0], ast.stmt):
                i = 0
                while i + 1 < len(b):
                    a, c = self._rw(b[i]), self._rw(b[i + 1])
                    if a and c and not (a[1] & (c[0] | c[1])) and not (c[1] & a[0]):
                        b[i], b[i + 1] = b[i + 1], b[i]
                        self.n += 1
                        i += 2
                    else:
                        i += 1
        return node


class _Temp(ast.NodeTransformer):
    """`x = (A) op B` with a compound left operand becomes `_t = A` followed by `x = _t op B` (assignments to plain names
    and attribute stores, outside comprehensions and lambdas)."""

    def __init__(self):
        self.n = 0

    def generic_visit(self, node):
        super().generic_visit(node)
        for fld in ("body", "orelse", "finalbody"):
            b = getattr(node, fld, None)
            if isinstance(b, list) and b and isinstance(b[0], ast.stmt):
                out = []
                for st in b:
                    if isinstance(st, ast.Assign) and len(st.targets) == 1 and isinstance(st.targets[0], (ast.Name, ast.Attribute)) \
                            and isinstance(st.value, ast.BinOp) and isinstance(st.value.left, (ast.BinOp, ast.Call)) \
                            and not any(isinstance(x, (ast.Yield, ast.Await, ast.NamedExpr, ast.Lambda)) for x in ast.walk(st.value)):
                        self.n += 1
                        name = f"_t{self.n}"
                        out.append(ast.copy_location(ast.Assign(targets=[ast.Name(id=name, ctx=ast.Store())], value=st.value.left), st))
                        st.value.left = ast.Name(id=name, ctx=ast.Load())
                    out.append(st)
                setattr(node, fld, out)
        return node


class _Unroll(ast.NodeTransformer):
    """`xs = [e for v in it if c]` (one generator, plain-name target on both sides) -> `xs = []` + explicit loop with append."""

    def __init__(self):
        self.n = 0

    def generic_visit(self, node):
        super().generic_visit(node)
        for fld in ("body", "orelse", "finalbody"):
            b = getattr(node, fld, None)
            if isinstance(b, list) and b and isinstance(b[0], ast.stmt):
                out = []
                for st in b:
                    if isinstance(st, ast.Assign) and len(st.targets) == 1 and isinstance(st.targets[0], ast.Name) and isinstance(st.value, ast.ListComp) \
                            and len(st.value.generators) == 1 and not st.value.generators[0].is_async \
                            and st.targets[0].id not in {x.id for x in ast.walk(st.value) if isinstance(x, ast.Name)}:
                        g = st.value.generators[0]
                        self.n += 1
                        name = st.targets[0].id
                        app = ast.Expr(value=ast.Call(func=ast.Attribute(value=ast.Name(id=name, ctx=ast.Load()), attr="append", ctx=ast.Load()),
                                                      args=[st.value.elt], keywords=[]))
                        body = [app]
                        for c in reversed(g.ifs):
                            body = [ast.If(test=c, body=body, orelse=[])]
                        out.append(ast.copy_location(ast.Assign(targets=[ast.Name(id=name, ctx=ast.Store())], value=ast.List(elts=[], ctx=ast.Load())), st))
                        out.append(ast.copy_location(ast.For(target=g.target, iter=g.iter, body=body, orelse=[]), st))
                    else:
                        out.append(st)
                setattr(node, fld, out)
        return node


class _Inline(ast.NodeTransformer):
    """A local that is assigned once from a call-free expression and read exactly once, by the very next statement of the
    same block, is replaced by its definition (the reverse of introducing a temporary)."""

    def __init__(self, fn):
        self.n = 0
        stores, loads = {}, {}
        for x in ast.walk(fn):
            if isinstance(x, ast.Name):
                (stores if isinstance(x.ctx, ast.Store) else loads).setdefault(x.id, []).append(x)
        self.once = {k for k in stores if len(stores[k]) == 1 and len(loads.get(k, [])) == 1}
        self.params = {a.arg for a in fn.args.args + fn.args.kwonlyargs}

    def generic_visit(self, node):
        super().generic_visit(node)
        for fld in ("body", "orelse", "finalbody"):
            b = getattr(node, fld, None)
            if isinstance(b, list) and len(b) >= 2 and isinstance(b[0], ast.stmt):
                out, i = [], 0
                while i < len(b):
                    st = b[i]
                    nxt = b[i + 1] if i + 1 < len(b) else None
                    if isinstance(st, ast.Assign) and len(st.targets) == 1 and isinstance(st.targets[0], ast.Name) and st.targets[0].id in self.once \
                            and st.targets[0].id not in self.params and nxt is not None and isinstance(nxt, (ast.Assign, ast.AugAssign, ast.Expr, ast.If, ast.Return)) \
                            and not any(isinstance(x, (ast.Call, ast.Yield, ast.Await, ast.NamedExpr, ast.ListComp, ast.GeneratorExp, ast.Lambda)) for x in ast.walk(st.value)):
                        name = st.targets[0].id
                        # the single read must sit in the header / simple part of the next statement
                        region = [nxt.test] if isinstance(nxt, ast.If) else [nxt]
                        uses = [x for r in region for x in ast.walk(r) if isinstance(x, ast.Name) and x.id == name and isinstance(x.ctx, ast.Load)]
                        if len(uses) == 1:
                            val = st.value

                            class _Sub(ast.NodeTransformer):
                                def visit_Name(self2, n2):
                                    if n2 is uses[0]:
                                        return val
                                    return n2
                            if isinstance(nxt, ast.If):
                                nxt.test = _Sub().visit(nxt.test)
                            else:
                                nxt = _Sub().visit(nxt)
                            self.n += 1
                            out.append(nxt)
                            i += 2
                            continue
                    out.append(st)
                    i += 1
                setattr(node, fld, out)
        return node


class _Truthy(ast.NodeTransformer):
    """`len(x) > 0` / `len(x) != 0` / `len(x) >= 1` -> `x`, `len(x) == 0` -> `not x` where the comparison is used as a condition
    (if / while tests and their and/or/not operands); `dict()` -> `{}`, `list()` -> `[]`."""

    def __init__(self):
        self.n = 0

    def _cond(self, t):
        if isinstance(t, ast.BoolOp):
            t.values = [self._cond(v) for v in t.values]
            return t
        if isinstance(t, ast.UnaryOp) and isinstance(t.op, ast.Not):
            t.operand = self._cond(t.operand)
            return t
        if isinstance(t, ast.Compare) and len(t.ops) == 1 and isinstance(t.left, ast.Call) and isinstance(t.left.func, ast.Name) and t.left.func.id == "len" \
                and len(t.left.args) == 1 and isinstance(t.comparators[0], ast.Constant) and isinstance(t.left.args[0], (ast.Name, ast.Attribute)):
            c0, op = t.comparators[0].value, type(t.ops[0])
            x = t.left.args[0]
            if (op is ast.Gt and c0 == 0) or (op is ast.NotEq and c0 == 0) or (op is ast.GtE and c0 == 1):
                self.n += 1
                return ast.copy_location(x, t)
            if (op is ast.Eq and c0 == 0) or (op is ast.Lt and c0 == 1):
                self.n += 1
                return ast.copy_location(ast.UnaryOp(op=ast.Not(), operand=x), t)
        return t

    def visit_If(self, node):
        self.generic_visit(node)
        node.test = self._cond(node.test)
        return node

    def visit_While(self, node):
        self.generic_visit(node)
        node.test = self._cond(node.test)
        return node

    def visit_Call(self, node):
        self.generic_visit(node)
        if isinstance(node.func, ast.Name) and not node.args and not node.keywords:
            if node.func.id == "dict":
                self.n += 1
                return ast.copy_location(ast.Dict(keys=[], values=[]), node)
            if node.func.id == "list":
                self.n += 1
                return ast.copy_location(ast.List(elts=[], ctx=ast.Load()), node)
        return node


class _IsEnum(ast.NodeTransformer):
    """`x == Enum.MEMBER` -> `x is Enum.MEMBER`, `!=` -> `is not` (enum members are singletons)."""

    def __init__(self, enums):
        self.n = 0
        self.enums = enums

    def visit_Compare(self, node):
        self.generic_visit(node)
        if len(node.ops) == 1 and isinstance(node.ops[0], (ast.Eq, ast.NotEq)):
            r = node.comparators[0]
            if isinstance(r, ast.Attribute) and isinstance(r.value, ast.Name) and r.value.id in self.enums:
                self.n += 1
                node.ops = [ast.Is() if isinstance(node.ops[0], ast.Eq) else ast.IsNot()]
        return node


class _Ternary(ast.NodeTransformer):
    """`if c: x = a` / `else: x = b` (one plain assignment to the same simple name on both sides) -> `x = a if c else b`."""

    def __init__(self):
        self.n = 0

    def visit_If(self, node):
        self.generic_visit(node)
        if len(node.body) == 1 and len(node.orelse) == 1 and all(isinstance(b, ast.Assign) and len(b.targets) == 1 and isinstance(b.targets[0], ast.Name)
                                                                 for b in (node.body[0], node.orelse[0])) \
                and node.body[0].targets[0].id == node.orelse[0].targets[0].id:
            self.n += 1
            return ast.copy_location(ast.Assign(targets=[node.body[0].targets[0]],
                                                value=ast.IfExp(test=node.test, body=node.body[0].value, orelse=node.orelse[0].value)), node)
        return node


class _LenShift(ast.NodeTransformer):
    """`len(x) > c` <-> `len(x) >= c + 1`, `len(x) < c` <-> `len(x) <= c - 1` (lengths are integers)."""
    _MAP = {ast.Gt: (ast.GtE, +1), ast.GtE: (ast.Gt, -1), ast.Lt: (ast.LtE, -1), ast.LtE: (ast.Lt, +1)}

    def __init__(self):
        self.n = 0

    def visit_Compare(self, node):
        self.generic_visit(node)
        if len(node.ops) == 1 and type(node.ops[0]) in self._MAP and isinstance(node.left, ast.Call) and isinstance(node.left.func, ast.Name) \
                and node.left.func.id == "len" and isinstance(node.comparators[0], ast.Constant) and isinstance(node.comparators[0].value, int) \
                and not isinstance(node.comparators[0].value, bool):
            op, d = self._MAP[type(node.ops[0])]
            c = node.comparators[0].value + d
            if c >= 0:
                self.n += 1
                node.ops = [op()]
                node.comparators = [ast.copy_location(ast.Constant(value=c), node.comparators[0])]
        return node


class _SwapCmp(ast.NodeTransformer):
    """`a < b` -> `b > a`, `a == b` -> `b == a` ... for single comparisons (not `in` / `is`)."""
    _MIRROR = {ast.Lt: ast.Gt, ast.Gt: ast.Lt, ast.LtE: ast.GtE, ast.GtE: ast.LtE, ast.Eq: ast.Eq, ast.NotEq: ast.NotEq}

    def __init__(self):
        self.n = 0

    def visit_Compare(self, node):
        self.generic_visit(node)
        if len(node.ops) == 1 and type(node.ops[0]) in self._MIRROR:
            self.n += 1
            return ast.copy_location(ast.Compare(left=node.comparators[0], ops=[self._MIRROR[type(node.ops[0])]()], comparators=[node.left]), node)
        return node


def rewrite_function(program: Program, qualname: str, kind: str) -> Program | None:
    fi = program.functions.get(qualname)
    if fi is None:
        return None
    mod = program.modules[fi.file]
    tree = copy.deepcopy(mod.tree)
    target = None
    for n in ast.walk(tree):
        if isinstance(n, ast.FunctionDef) and n.name == fi.name and n.lineno == fi.node.lineno:
            target = n
    if target is None:
        return None
    if kind == "rename":
        _Rename(local_names(target)).visit(target)
    elif kind == "aug":
        _AugToAssign().visit(target)
    elif kind == "pass":
        _PassHead().visit(target)
    elif kind in ("hoist", "hoistleft"):
        h = _Hoist(left=(kind == "hoistleft"))
        h.generic_visit(target)
        if h.n == 0:
            return None
    elif kind == "swapstmt":
        w = _SwapStmts()
        w.visit(target)
        if w.n == 0:
            return None
        # positions must follow the new order (the analyses compare line numbers inside a block)
        for i_, n_ in enumerate(ast.walk(target)):
            pass
        src_ = ast.unparse(tree)
        return program.with_source(fi.file, src_)
    elif kind == "temp":
        w = _Temp()
        w.visit(target)
        if w.n == 0:
            return None
    elif kind == "unroll":
        w = _Unroll()
        w.visit(target)
        if w.n == 0:
            return None
    elif kind == "inline":
        w = _Inline(target)
        w.visit(target)
        if w.n == 0:
            return None
    elif kind == "lenshift":
        w = _LenShift()
        w.visit(target)
        if w.n == 0:
            return None
    elif kind == "truthy":
        w = _Truthy()
        w.visit(target)
        if w.n == 0:
            return None
    elif kind == "isenum":
        w = _IsEnum(set(program.enums))
        w.visit(target)
        if w.n == 0:
            return None
    elif kind == "ternary":
        w = _Ternary()
        w.visit(target)
        if w.n == 0:
            return None
    elif kind == "swapcmp":
        w = _SwapCmp()
        w.visit(target)
        if w.n == 0:
            return None
    elif kind == "demorgan":
        d = _DeMorgan()
        d.visit(target)
        if d.n == 0:
            return None
    elif kind == "flip":
        f = _Flip()
        # only statement-level ifs that are not themselves the `elif` of another if
        elifs = {id(n.orelse[0]) for n in ast.walk(target) if isinstance(n, ast.If) and len(n.orelse) == 1 and isinstance(n.orelse[0], ast.If)}

        class _F(_Flip):
            def visit_If(self2, node):
                if id(node) in elifs:
                    self2.generic_visit(node)
                    return node
                return _Flip.visit_If(self2, node)
        f = _F()
        f.visit(target)
        if f.n == 0:
            return None
    ast.fix_missing_locations(tree)
    return program.with_source(fi.file, ast.unparse(tree))


# ------------------------------------------------------------------------------------------------ driver
def _run(program: Program, prop: str):
    mod = importlib.import_module(f"sa.props.{prop.lower()}")
    ctx = Ctx(program, prop, "quick")
    try:
        run_property(ctx)
        ctx.finish()
    except AnalysisError as e:
        return ctx, str(e)
    return ctx, None


_BASE: Program | None = None


def _job(job):
    """Worker: one variant.  Returns (tag, kind, error or None, [(key, rule, construct)])."""
    kind, prop = job[0], job[1]
    base = _BASE
    if kind == "mutant":
        _, _, mid, path, old, new = job
        text = base.sources[path]
        for o_, n_ in (zip(old, new) if isinstance(old, tuple) else [(old, new)]):      # several sites of one change
            text = text.replace(o_, n_, 1)
        var = base.with_source(path, text)
        tag = mid
    elif kind == "operator":
        from .mutops import apply as _apply
        _, _, q, idx, okind, desc = job
        fi = base.functions[q]
        tree = ast.parse(base.sources[fi.file])
        target = next((n for n in ast.walk(tree) if isinstance(n, ast.FunctionDef) and n.name == fi.name and n.lineno == fi.node.lineno), None)
        tag = f"{q}: {desc}"
        if target is None:
            return tag, kind, "anchor function missing", []
        try:
            _apply(target, idx, okind)
            ast.fix_missing_locations(tree)
            var = base.with_source(fi.file, ast.unparse(tree))
        except Exception as e:
            return tag, kind, f"mutant does not build: {type(e).__name__}", []
    elif kind == "equiv":
        _, _, eid, reps = job
        var = base
        tag = f"equiv:{eid}"
        for path, old, new in reps:
            if old not in var.sources.get(path, ""):
                return tag, "rewrite", "anchor function missing", []
            var = var.with_source(path, var.sources[path].replace(old, new, 1))
        kind = "rewrite"
    else:
        _, _, q, rk = job
        if rk == "reformat":
            # the whole tree re-emitted from its syntax trees: layout, comments, parentheses and quoting all change
            var = base
            for path_, src_ in base.sources.items():
                var = var.with_source(path_, ast.unparse(ast.parse(src_)))
        else:
            var = rewrite_function(base, q, rk)
        tag = f"{rk}:{q}"
        if var is None:
            return tag, kind, "anchor function missing", []
    try:
        c2, err = _run(var, prop)
    except Exception as e:   # an analyser crash on a variant is reported, never hidden
        return tag, kind, f"internal error: {type(e).__name__}: {e}", []
    return tag, kind, err, [(f.key, f.rule, f.construct[:90]) for f in c2.findings]


def _independent_seeds(ctx: Ctx, base: set) -> dict:
    """Replays the independently produced changes kept under /verif/seeded/ (patch.diff written by sub-agents that never
    saw /verif) against in-memory copies of the *current* sources.  A patch that no longer applies is counted as skipped."""
    import glob
    import json
    import os
    import re
    import shutil
    import subprocess
    import tempfile
    from .report import VERIF
    out = {"total": 0, "detected": [], "missed": [], "skipped_patch_does_not_apply": []}
    for meta_path in sorted(glob.glob(os.path.join(VERIF, "seeded", "*", "meta.json"))):
        try:
            meta = json.load(open(meta_path))
        except Exception:
            continue
        if meta.get("breaks_property") != ctx.prop:
            continue
        sid = meta.get("seed")
        patch = os.path.join(os.path.dirname(meta_path), "patch.diff")
        touched = re.findall(r"^\+\+\+ b/(\S+)", open(patch).read(), flags=re.M)
        tmp = tempfile.mkdtemp(prefix="scoda_seed_")
        try:
            for t in touched:
                if t not in ctx.p.sources:
                    raise FileNotFoundError(t)
                os.makedirs(os.path.dirname(os.path.join(tmp, t)), exist_ok=True)
                with open(os.path.join(tmp, t), "w") as f:
                    f.write(ctx.p.sources[t])
            r = subprocess.run(["git", "apply", "--unsafe-paths", patch], cwd=tmp, capture_output=True, text=True,
                               env={**os.environ, "GIT_CEILING_DIRECTORIES": tmp, "GIT_DIR": os.path.join(tmp, ".nogit")})
            if r.returncode != 0:
                out["skipped_patch_does_not_apply"].append(sid)
                continue
            var = ctx.p
            for t in touched:
                var = var.with_source(t, open(os.path.join(tmp, t)).read())
        except Exception:
            out["skipped_patch_does_not_apply"].append(sid)
            continue
        finally:
            shutil.rmtree(tmp, ignore_errors=True)
        out["total"] += 1
        try:
            c2, err = _run(var, ctx.prop)
            newf = [f for f in c2.findings if f.key not in base]
        except Exception as e:          # an aborting analysis is not a detection
            newf, err = [], f"{type(e).__name__}: {e}"
        if newf:
            out["detected"].append({"seed": sid, "rules": sorted({f.rule for f in newf})})
        else:
            out["missed"].append({"seed": sid, "analysis_error": (err or "")[:120]})
    return out


def _apply_patch_in_memory(program: Program, patch_path: str) -> Program | None:
    """The program with a unified diff applied to in-memory copies of the files it touches, or None if it does not apply."""
    import os
    import re
    import shutil
    import subprocess
    import tempfile
    text = open(patch_path).read()
    touched = re.findall(r"^\+\+\+ b/(\S+)", text, flags=re.M)
    tmp = tempfile.mkdtemp(prefix="scoda_patch_")
    try:
        for t in touched:
            if t not in program.sources:
                return None
            os.makedirs(os.path.dirname(os.path.join(tmp, t)), exist_ok=True)
            with open(os.path.join(tmp, t), "w") as f:
                f.write(program.sources[t])
        r = subprocess.run(["git", "apply", "--unsafe-paths", patch_path], cwd=tmp, capture_output=True, text=True,
                           env={**os.environ, "GIT_CEILING_DIRECTORIES": tmp, "GIT_DIR": os.path.join(tmp, ".nogit")})
        if r.returncode != 0:
            return None
        var = program
        for t in touched:
            var = var.with_source(t, open(os.path.join(tmp, t)).read())
        return var
    except Exception:
        return None
    finally:
        shutil.rmtree(tmp, ignore_errors=True)


def _equivalent_patches(ctx: Ctx, base: set) -> dict:
    """Behaviour-preserving changes kept as patches under /verif/equivalents/ (first line `# props: Cxx Cyy`): the check must
    stay silent on each."""
    import glob
    import os
    from .report import VERIF
    out = {"total": 0, "silent": [], "not_silent": [], "skipped_patch_does_not_apply": []}
    for path in sorted(glob.glob(os.path.join(VERIF, "equivalents", "*.diff"))):
        head = open(path).readline()
        if not head.startswith("# props:") or ctx.prop not in head.split(":", 1)[1].split():
            continue
        name = os.path.basename(path)[:-5]
        var = _apply_patch_in_memory(ctx.p, path)
        if var is None:
            out["skipped_patch_does_not_apply"].append(name)
            continue
        out["total"] += 1
        try:
            c2, err = _run(var, ctx.prop)
            newf = [f for f in c2.findings if f.key not in base]
        except Exception as e:
            newf, err = [], f"{type(e).__name__}: {e}"
        if newf or err:
            out["not_silent"].append({"patch": name, "false_alarms": [f"{f.rule}: {f.construct[:80]}" for f in newf[:3]], "analysis_error": (err or "")[:120]})
        else:
            out["silent"].append(name)
    return out


def _independent_refactorings(ctx: Ctx, base: set) -> dict:
    """Behaviour-preserving restructurings written by sub-agents that never saw /verif (kept under /verif/refactorings/<name>/ with the
    script that showed them equivalent on the test inputs).  A measurement, not a gate: heavy restructurings can move code outside the
    analyser's model; what is reported for each is recorded here (DESIGN section 7 discusses the remaining ones)."""
    import glob
    import os
    from .report import VERIF
    out = {"total": 0, "silent": [], "not_silent": [], "skipped_patch_does_not_apply": []}
    for path in sorted(glob.glob(os.path.join(VERIF, "refactorings", "*", "patch.diff"))):
        name = os.path.basename(os.path.dirname(path))
        var = _apply_patch_in_memory(ctx.p, path)
        if var is None:
            out["skipped_patch_does_not_apply"].append(name)
            continue
        out["total"] += 1
        try:
            c2, err = _run(var, ctx.prop)
            newf = [f for f in c2.findings if f.key not in base]
        except Exception as e:
            newf, err = [], f"{type(e).__name__}: {e}"
        if newf or err:
            out["not_silent"].append({"refactoring": name, "alarms": sorted({f"{f.rule}: {f.construct[:80]}" for f in newf})[:6], "analysis_error": (err or "")[:160]})
        else:
            out["silent"].append(name)
    return out


def run(ctx: Ctx) -> None:
    global _BASE
    import multiprocessing as mp
    import os
    prop = ctx.prop
    base = {f.key for f in ctx.findings}
    detected, missed, skipped, errors = [], [], [], []
    jobs = []
    expect = {}
    for mid, mprop, path, old, new, rules in MUTANTS:
        if mprop != prop:
            continue
        srcs = ctx.p.sources.get(path)
        pairs = list(zip(old, new)) if isinstance(old, tuple) else [(old, new)]
        if srcs is None or any(o_ not in srcs for o_, _ in pairs):
            skipped.append(mid)
            continue
        try:
            t_ = srcs
            for o_, n_ in pairs:
                t_ = t_.replace(o_, n_, 1)
            ast.parse(t_)
        except SyntaxError:
            skipped.append(mid)
            continue
        expect[mid] = rules
        jobs.append(("mutant", prop, mid, path, old, new))
    targets = list(ANCHORS.get(prop, []))
    targets += sorted(q for q in ctx.analysed_functions if q not in targets and q in ctx.p.functions)     # everything the check looked at
    jobs.append(("rewrite", prop, "<whole tree>", "reformat"))
    for q in targets:
        for kind in ("rename", "aug", "pass", "hoist", "flip", "demorgan", "swapcmp", "swapstmt", "temp", "unroll", "inline", "truthy", "isenum", "ternary", "lenshift", "hoistleft"):
            jobs.append(("rewrite", prop, q, kind))
    for eid, props, reps in EQUIVALENTS:
        if prop in props:
            jobs.append(("equiv", prop, eid, reps))
    # standard mutation operators on the property's anchor functions (a deterministic sample of at most 300)
    from .mutops import mutants_of
    opjobs = []
    for q in ANCHORS.get(prop, []):
        fi_ = ctx.p.functions.get(q)
        if fi_ is None:
            continue
        tree_ = ast.parse(ctx.p.sources[fi_.file])
        tgt_ = next((n for n in ast.walk(tree_) if isinstance(n, ast.FunctionDef) and n.name == fi_.name and n.lineno == fi_.node.lineno), None)
        if tgt_ is None:
            continue
        for idx, okind, desc in mutants_of(tgt_):
            opjobs.append(("operator", prop, q, idx, okind, desc))
    if len(opjobs) > 300:
        seed_ = int(os.environ.get("VERIF_SEED", "1") or 1)
        stride = len(opjobs) / 300.0
        opjobs = [opjobs[int((i * stride + seed_) % len(opjobs))] for i in range(300)]
        opjobs = list(dict.fromkeys(opjobs))
    n_op_total = len(opjobs)
    jobs += opjobs
    _BASE = ctx.p
    nproc = max(1, min(16, os.cpu_count() or 1, len(jobs)))
    if nproc > 1 and len(jobs) > 3:
        with mp.get_context("fork").Pool(nproc) as pool:
            results = pool.map(_job, jobs)
    else:
        results = [_job(j) for j in jobs]
    silent, noisy = [], []
    op_reported, op_error, op_silent = 0, 0, []
    for tag, kind, err, fs in results:
        newf = [f for f in fs if f[0] not in base]
        if kind == "operator":
            if newf:
                op_reported += 1
            elif err:
                op_error += 1
            else:
                op_silent.append(tag)
            continue
        if kind == "mutant":
            rules = expect[tag]
            if err and not newf:
                errors.append({"id": tag, "error": err[:160]})
            elif newf and (rules is None or any(f[1] in rules for f in newf)):
                detected.append({"id": tag, "rules": sorted({f[1] for f in newf})})
            elif newf:
                detected.append({"id": tag, "rules": sorted({f[1] for f in newf}), "note": f"expected one of {sorted(rules)}"})
            else:
                missed.append(tag)
        else:
            if err == "anchor function missing":
                continue
            if err and not newf:
                noisy.append({"rewrite": tag, "analysis_error": err[:160]})
            elif newf:
                noisy.append({"rewrite": tag, "false_alarms": [f"{f[1]}: {f[2]}" for f in newf[:3]]})
            else:
                silent.append(tag)
    indep = _independent_seeds(ctx, base)
    ctx.extra["selfcheck"] = {
        "independent_seeded_changes": indep,
        "equivalent_patches": _equivalent_patches(ctx, base),
        "independent_refactorings": _independent_refactorings(ctx, base),
        "mutation_operators": {"functions": list(ANCHORS.get(prop, [])), "mutants": n_op_total, "reported": op_reported, "analysis_aborted": op_error,
                               "silent": len(op_silent), "silent_examples": sorted(op_silent)[:60],
                               "note": "comparison flip / arithmetic swap / constant+1 / boolean flip / statement deletion / condition negation / break-continue "
                                       "deletion on the anchor functions; silent mutants were triaged by hand (DESIGN section 7): equivalent, "
                                       "crash-on-first-use, logging, or arithmetic outside the decided clauses"},
        "seeded_breaks": {"total": len(detected) + len(missed) + len(errors), "detected": len(detected), "missed": missed,
                          "analysis_error_instead": errors, "skipped_anchor_missing": skipped, "detail": detected},
        "behaviour_preserving_rewrites": {"total": len(silent) + len(noisy), "silent": len(silent), "not_silent": noisy},
        "note": "self-validation of the checker on in-memory variants of the current tree; informational, never changes the verdict",
    }
