"""WEBS -- def-use webs of the local names of one function (reaching definitions on the structured program).

Every binding of a local name (parameter, assignment target, loop target, `with ... as`, `except ... as`) is a
definition; a read is reached by a set of definitions; definitions that share a read are merged (union-find).  The
result maps every `ast.Name` node of the function to a *web name*: two occurrences get the same web name iff a value
can flow between them through that variable.  A flow-insensitive client (the ownership taint) that keys its facts by
web name instead of by spelling becomes flow-sensitive for free: `for msg in source: copy.append(msg.copy())` followed
by `msg = work.pop(0)` no longer makes the second `msg` look like an element of `source`.

Names that are shared with nested functions, declared global / nonlocal, or bound in comprehensions keep their
spelling (one web per name).
"""
from __future__ import annotations

import ast

from .absint import AbsInt


class _UF:
    def __init__(self):
        self.p: dict[int, int] = {}

    def find(self, x: int) -> int:
        self.p.setdefault(x, x)
        while self.p[x] != x:
            self.p[x] = self.p[self.p[x]]
            x = self.p[x]
        return x

    def union(self, a: int, b: int) -> None:
        ra, rb = self.find(a), self.find(b)
        if ra != rb:
            self.p[max(ra, rb)] = min(ra, rb)


class _Reach(AbsInt):
    def __init__(self, skip: set[str]):
        super().__init__()
        self.skip = skip
        self.uf = _UF()
        self.next_def = 1
        self.def_of_store: dict[int, int] = {}        # id(Name store node) -> def id
        self.defs_of_load: dict[int, frozenset] = {}  # id(Name load node) -> reaching def ids
        self.name_of_def: dict[int, str] = {}

    # state: dict name -> frozenset(def ids)
    def join(self, a, b):
        out = dict(a)
        for k, v in b.items():
            out[k] = out.get(k, frozenset()) | v
        return out

    def equal(self, a, b):
        return a == b

    def copy(self, s):
        return dict(s)

    def _uses(self, node, st):
        if node is None:
            return
        for n in self._walk_scope(node):
            if isinstance(n, ast.Name) and isinstance(n.ctx, ast.Load) and n.id not in self.skip:
                ds = st.get(n.id, frozenset())
                prev = self.defs_of_load.get(id(n), frozenset())
                self.defs_of_load[id(n)] = prev | ds
                allds = list(prev | ds)
                for d in allds[1:]:
                    self.uf.union(allds[0], d)

    @staticmethod
    def _walk_scope(node):
        """ast.walk that does not descend into nested function / lambda / comprehension scopes."""
        todo = [node]
        while todo:
            n = todo.pop()
            yield n
            for c in ast.iter_child_nodes(n):
                if isinstance(c, (ast.FunctionDef, ast.AsyncFunctionDef, ast.Lambda, ast.ListComp, ast.SetComp, ast.DictComp, ast.GeneratorExp, ast.ClassDef)):
                    # free variables of the nested scope still read the enclosing names (treated as uses at this point);
                    # names the nested scope binds itself (comprehension targets, lambda / function parameters, its own stores) do not
                    bound = {x.id for x in ast.walk(c) if isinstance(x, ast.Name) and isinstance(x.ctx, (ast.Store, ast.Del))}
                    bound |= {a.arg for x in ast.walk(c) if isinstance(x, ast.arguments) for a in x.posonlyargs + x.args + x.kwonlyargs}
                    for x in ast.walk(c):
                        if isinstance(x, ast.Name) and isinstance(x.ctx, ast.Load) and x.id not in bound:
                            yield x
                    continue
                todo.append(c)

    def _define(self, target, st):
        for n in ast.walk(target):
            if isinstance(n, ast.Name) and isinstance(n.ctx, (ast.Store, ast.Del)) and n.id not in self.skip:
                d = self.def_of_store.get(id(n))
                if d is None:
                    d = self.next_def
                    self.next_def += 1
                    self.def_of_store[id(n)] = d
                    self.name_of_def[d] = n.id
                st[n.id] = frozenset([d])
            elif isinstance(n, (ast.Attribute, ast.Subscript)):
                pass
        # reads inside a complex target (subscripts / attributes): `a[i] = v` reads a and i
        for n in ast.walk(target):
            if isinstance(n, ast.Name) and isinstance(n.ctx, ast.Load):
                self._uses(n, st)
        return st

    def stmt(self, s, st):
        st = dict(st)
        if isinstance(s, ast.Assign):
            self._uses(s.value, st)
            for t in s.targets:
                st = self._define(t, st)
        elif isinstance(s, ast.AugAssign):
            self._uses(s.value, st)
            if isinstance(s.target, ast.Name) and s.target.id not in self.skip:
                # read-modify-write: the new definition continues the old web
                old = st.get(s.target.id, frozenset())
                st = self._define(s.target, st)
                new = next(iter(st[s.target.id]))
                for d in old:
                    self.uf.union(new, d)
            else:
                self._uses(s.target, st)
        elif isinstance(s, ast.AnnAssign):
            self._uses(s.value, st)
            if s.value is not None:
                st = self._define(s.target, st)
        elif isinstance(s, ast.Delete):
            for t in s.targets:
                self._uses(t, st)
        else:
            self._uses(s, st)
        return st

    def cond(self, test, st):
        self._uses(test, st)
        return dict(st), dict(st)

    def for_iter(self, node, st):
        self._uses(node.iter, st)
        return st

    def for_bind(self, node, st):
        return self._define(node.target, dict(st))

    def with_enter(self, node, st):
        st = dict(st)
        for it in node.items:
            self._uses(it.context_expr, st)
            if it.optional_vars is not None:
                st = self._define(it.optional_vars, st)
        return st

    def on_return(self, node, st):
        self._uses(node.value, st)

    def on_raise(self, node, st):
        self._uses(node, st)

    def on_nested_def(self, node, st):
        return st


def compute_webs(fn: ast.FunctionDef) -> dict[int, str]:
    """id(ast.Name node) -> web name, for the local names of `fn` (nested scopes excluded)."""
    skip: set[str] = set()
    for n in ast.walk(fn):
        if isinstance(n, (ast.Global, ast.Nonlocal)):
            skip |= set(n.names)
        if n is not fn and isinstance(n, (ast.FunctionDef, ast.AsyncFunctionDef, ast.Lambda)):
            skip |= {x.id for x in ast.walk(n) if isinstance(x, ast.Name)}
        if isinstance(n, ast.ExceptHandler) and n.name:
            skip.add(n.name)
    r = _Reach(skip)
    entry = {}
    a = fn.args
    for arg in a.posonlyargs + a.args + a.kwonlyargs + ([a.vararg] if a.vararg else []) + ([a.kwarg] if a.kwarg else []):
        if arg.arg in skip:
            continue
        d = r.next_def
        r.next_def += 1
        r.name_of_def[d] = arg.arg
        entry[arg.arg] = frozenset([d])
    param_defs = {next(iter(v)) for v in entry.values()}
    try:
        r.run_function(fn, entry)
    except Exception:
        return {}
    out: dict[int, str] = {}

    def web_name(d: int) -> str:
        root = r.uf.find(d)
        name = r.name_of_def.get(d, "?")
        # the web that contains the parameter's own definition keeps the plain name
        if any(r.uf.find(pd) == root for pd in param_defs if r.name_of_def.get(pd) == name):
            return name
        return f"{name}#{root}"
    for n in ast.walk(fn):
        if isinstance(n, ast.Name):
            if id(n) in r.def_of_store:
                out[id(n)] = web_name(r.def_of_store[id(n)])
            elif id(n) in r.defs_of_load and r.defs_of_load[id(n)]:
                out[id(n)] = web_name(next(iter(r.defs_of_load[id(n)])))
    return out


def unbound_reads(fn: ast.FunctionDef) -> list[ast.Name]:
    """Reads of a local name of `fn` that can be executed before any assignment to it, restricted to the three shapes in which no
    correlation between conditions can make the path infeasible:
      (a) no definition reaches the read on any path;
      (b) every definition that reaches it comes from later in the function (a loop back-edge): the first iteration reads nothing;
      (c) every definition that reaches it sits in one `if` statement that precedes the read in the same block, and the other branch
          of that `if` falls through without defining it.
    Names shared with nested scopes, globals / nonlocals, comprehension and exception-handler names are not judged."""
    skip: set[str] = set()
    for n in ast.walk(fn):
        if isinstance(n, (ast.Global, ast.Nonlocal)):
            skip |= set(n.names)
        if n is not fn and isinstance(n, (ast.FunctionDef, ast.AsyncFunctionDef, ast.Lambda)):
            skip |= {x.id for x in ast.walk(n) if isinstance(x, ast.Name)}
            if not isinstance(n, ast.Lambda):
                skip.add(n.name)
        if isinstance(n, ast.ExceptHandler) and n.name:
            skip.add(n.name)
        if isinstance(n, (ast.Import, ast.ImportFrom)):
            skip |= {(a.asname or a.name).split(".")[0] for a in n.names}
        if isinstance(n, ast.ClassDef):
            skip.add(n.name)
        if isinstance(n, (ast.ListComp, ast.SetComp, ast.DictComp, ast.GeneratorExp)):
            skip |= {x.id for g in n.generators for x in ast.walk(g.target) if isinstance(x, ast.Name)}
        if isinstance(n, ast.NamedExpr) and isinstance(n.target, ast.Name):
            skip.add(n.target.id)
    local = {x.id for x in ast.walk(fn) if isinstance(x, ast.Name) and isinstance(x.ctx, (ast.Store, ast.Del))}
    a = fn.args
    params = {arg.arg for arg in a.posonlyargs + a.args + a.kwonlyargs + ([a.vararg] if a.vararg else []) + ([a.kwarg] if a.kwarg else [])}
    r = _Reach(skip)
    entry = {}
    for nm in params:
        if nm in skip:
            continue
        d = r.next_def
        r.next_def += 1
        r.name_of_def[d] = nm
        entry[nm] = frozenset([d])
    UNB = -1                                   # pseudo-definition "never assigned so far"
    for nm in local - params - skip:
        entry[nm] = frozenset([UNB])
    try:
        r.run_function(fn, entry)
    except Exception:
        return []
    store_node = {d: None for d in r.name_of_def}
    for n in ast.walk(fn):
        if isinstance(n, ast.Name) and id(n) in r.def_of_store:
            store_node[r.def_of_store[id(n)]] = n
    parent = {}
    for n in ast.walk(fn):
        for c in ast.iter_child_nodes(n):
            parent[id(c)] = n

    def enclosing_stmt_in_block(n):
        """(statement, block list) of the innermost statement list that contains n."""
        cur = n
        while id(cur) in parent:
            par = parent[id(cur)]
            for fld in ("body", "orelse", "finalbody"):
                b = getattr(par, fld, None)
                if isinstance(b, list) and cur in b:
                    return cur, b
            cur = par
        return None, None
    in_try = {id(x) for t in ast.walk(fn) if isinstance(t, ast.Try) for x in ast.walk(t)}
    out = []
    for n in ast.walk(fn):
        if not (isinstance(n, ast.Name) and isinstance(n.ctx, ast.Load) and n.id in local and n.id not in skip and n.id not in params
                and id(n) in r.defs_of_load and id(n) not in in_try):
            continue
        ds = r.defs_of_load[id(n)]
        if UNB not in ds:
            continue
        real = [store_node.get(d) for d in ds if d != UNB]
        if not real:                                            # (a)
            out.append(n)
            continue
        if any(x is None for x in real):
            continue
        pos = (n.lineno, n.col_offset)
        if all((x.lineno, x.col_offset) > pos for x in real):     # (b) only back-edges bring a value
            out.append(n)
            continue
        st, blk = enclosing_stmt_in_block(n)                     # (c)
        if st is None:
            continue
        i = blk.index(st)
        for prev in blk[:i]:
            if isinstance(prev, ast.If) and all(any(x is y for y in ast.walk(prev)) for x in real):
                in_body = [x for x in real if any(x is y for b_ in prev.body for y in ast.walk(b_))]
                in_else = [x for x in real if any(x is y for b_ in prev.orelse for y in ast.walk(b_))]
                if not in_body or not in_else:
                    out.append(n)
                break
    return out
