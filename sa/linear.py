"""LIN -- symbolic normaliser: Laurent polynomials with rational coefficients over opaque atoms.

Expressions built from + - * / ** (integer exponents), unary minus, numeric constants, names, attribute chains and
subscripts are brought to a canonical sum-of-monomials form; division by a single monomial is exact, everything else
(`int(..)`, `round(..)`, `//`, `%`, calls, division by a sum) becomes an opaque atom whose arguments are themselves
canonicalised.  Local names are replaced by their (unique) straight-line definitions (forward substitution).  Two
expressions are "the same" iff their canonical forms coincide.  No solver, no path exploration.
"""
from __future__ import annotations

import ast
from fractions import Fraction

Mono = tuple  # tuple of (atom, exponent) sorted


class Sym:
    __slots__ = ("terms",)

    def __init__(self, terms=None):
        self.terms: dict[Mono, Fraction] = {}
        if terms:
            for m, c in terms.items():
                if c != 0:
                    self.terms[m] = Fraction(c)

    @staticmethod
    def const(c) -> "Sym":
        return Sym({(): Fraction(c)})

    @staticmethod
    def atom(name: str) -> "Sym":
        return Sym({((name, 1),): Fraction(1)})

    def is_const(self) -> bool:
        return all(m == () for m in self.terms)

    def const_value(self) -> Fraction | None:
        if not self.terms:
            return Fraction(0)
        if self.is_const():
            return self.terms[()]
        return None

    def __add__(self, o: "Sym") -> "Sym":
        t = dict(self.terms)
        for m, c in o.terms.items():
            t[m] = t.get(m, Fraction(0)) + c
        return Sym(t)

    def __neg__(self) -> "Sym":
        return Sym({m: -c for m, c in self.terms.items()})

    def __sub__(self, o: "Sym") -> "Sym":
        return self + (-o)

    @staticmethod
    def _mul_mono(a: Mono, b: Mono) -> Mono:
        d = dict(a)
        for x, e in b:
            d[x] = d.get(x, 0) + e
        return tuple(sorted((x, e) for x, e in d.items() if e != 0))

    def __mul__(self, o: "Sym") -> "Sym":
        t: dict[Mono, Fraction] = {}
        for m1, c1 in self.terms.items():
            for m2, c2 in o.terms.items():
                m = Sym._mul_mono(m1, m2)
                t[m] = t.get(m, Fraction(0)) + c1 * c2
        return Sym(t)

    def is_monomial(self) -> bool:
        return len(self.terms) == 1

    def inverse(self) -> "Sym | None":
        if not self.is_monomial():
            return None
        (m, c), = self.terms.items()
        return Sym({tuple((x, -e) for x, e in m): Fraction(1) / c})

    def __eq__(self, o) -> bool:
        return isinstance(o, Sym) and self.terms == o.terms

    def __hash__(self):
        return hash(tuple(sorted(self.terms.items())))

    def atoms(self) -> set[str]:
        return {x for m in self.terms for x, _ in m}

    def canon(self) -> str:
        if not self.terms:
            return "0"
        parts = []
        for m, c in sorted(self.terms.items(), key=lambda kv: repr(kv[0])):
            ms = "*".join(f"{x}^{e}" if e != 1 else x for x, e in m)
            if ms:
                parts.append(f"{c}*{ms}" if c != 1 else ms)
            else:
                parts.append(str(c))
        return " + ".join(parts)

    def __repr__(self):
        return f"Sym({self.canon()})"

    def subst(self, mapping: dict[str, "Sym"]) -> "Sym":
        out = Sym()
        for m, c in self.terms.items():
            term = Sym.const(c)
            for x, e in m:
                base = mapping.get(x, Sym.atom(x))
                if e > 0:
                    for _ in range(e):
                        term = term * base
                else:
                    inv = base.inverse()
                    if inv is None:
                        inv = Sym.atom(f"inv({base.canon()})")
                    for _ in range(-e):
                        term = term * inv
            out = out + term
        return out


class Normaliser:
    """AST expression -> Sym, with an environment of local definitions (name -> Sym)."""

    def __init__(self, env: dict[str, Sym] | None = None, consts: dict[str, object] | None = None,
                 atom_hook=None):
        self.env = dict(env or {})
        self.consts = consts or {}
        self.atom_hook = atom_hook

    def norm(self, e: ast.AST) -> Sym:
        if self.atom_hook is not None:
            r = self.atom_hook(e, self)
            if r is not None:
                return r
        if isinstance(e, ast.Constant):
            if isinstance(e.value, bool):
                return Sym.atom(str(e.value))
            if isinstance(e.value, (int, float)):
                return Sym.const(Fraction(e.value).limit_denominator(10**9) if isinstance(e.value, float) else e.value)
            return Sym.atom(repr(e.value))
        if isinstance(e, ast.Name):
            if e.id in self.env:
                return self.env[e.id]
            if e.id in self.consts and isinstance(self.consts[e.id], (int, float)) and not isinstance(self.consts[e.id], bool):
                return Sym.atom(e.id)   # settings constants stay symbolic (their value is configuration)
            return Sym.atom(e.id)
        if isinstance(e, ast.UnaryOp):
            if isinstance(e.op, ast.USub):
                return -self.norm(e.operand)
            if isinstance(e.op, ast.UAdd):
                return self.norm(e.operand)
            return Sym.atom(f"not({self.norm(e.operand).canon()})")
        if isinstance(e, ast.BinOp):
            a, b = self.norm(e.left), self.norm(e.right)
            if isinstance(e.op, ast.Add):
                return a + b
            if isinstance(e.op, ast.Sub):
                return a - b
            if isinstance(e.op, ast.Mult):
                return a * b
            if isinstance(e.op, ast.Div):
                inv = b.inverse()
                if inv is not None:
                    return a * inv
                return Sym.atom(f"div({a.canon()},{b.canon()})")
            if isinstance(e.op, ast.FloorDiv):
                return Sym.atom(f"floordiv({a.canon()},{b.canon()})")
            if isinstance(e.op, ast.Mod):
                return Sym.atom(f"mod({a.canon()},{b.canon()})")
            if isinstance(e.op, ast.Pow):
                cv = b.const_value()
                if cv is not None and cv.denominator == 1 and -8 <= cv <= 8:
                    n = int(cv)
                    base = a if n >= 0 else a.inverse()
                    if base is not None:
                        out = Sym.const(1)
                        for _ in range(abs(n)):
                            out = out * base
                        return out
                return Sym.atom(f"pow({a.canon()},{b.canon()})")
            return Sym.atom(f"{type(e.op).__name__}({a.canon()},{b.canon()})")
        if isinstance(e, ast.Call):
            fn = _chain(e.func) or "call"
            args = ",".join(self.norm(a).canon() for a in e.args)
            kw = ",".join(f"{k.arg}={self.norm(k.value).canon()}" for k in e.keywords)
            return Sym.atom(f"{fn}({args}{';' + kw if kw else ''})")
        if isinstance(e, ast.Attribute):
            ch = _chain(e)
            if ch is not None:
                head = ch.split(".")[0]
                if head in self.env and self.env[head].is_monomial() and len(self.env[head].atoms()) == 1 \
                        and self.env[head].terms.get(((next(iter(self.env[head].atoms())), 1),)) == 1:
                    # alias of another expression: x = y  =>  x.attr == y.attr
                    return Sym.atom(next(iter(self.env[head].atoms())) + ch[len(head):])
                return Sym.atom(ch)
            return Sym.atom(f"{self.norm(e.value).canon()}.{e.attr}")
        if isinstance(e, ast.Subscript):
            base = self.norm(e.value).canon()
            if isinstance(e.slice, ast.Slice):
                lo = self.norm(e.slice.lower).canon() if e.slice.lower else ""
                hi = self.norm(e.slice.upper).canon() if e.slice.upper else ""
                return Sym.atom(f"{base}[{lo}:{hi}]")
            return Sym.atom(f"{base}[{self.norm(e.slice).canon()}]")
        if isinstance(e, ast.IfExp):
            return Sym.atom(f"ite({self.norm(e.test).canon()},{self.norm(e.body).canon()},{self.norm(e.orelse).canon()})")
        if isinstance(e, ast.Compare):
            parts = [self.norm(e.left).canon()]
            for op, c in zip(e.ops, e.comparators):
                parts.append(type(op).__name__)
                parts.append(self.norm(c).canon())
            return Sym.atom("cmp(" + " ".join(parts) + ")")
        if isinstance(e, ast.Tuple):
            return Sym.atom("(" + ",".join(self.norm(x).canon() for x in e.elts) + ")")
        try:
            return Sym.atom("expr<" + ast.unparse(e) + ">")
        except Exception:
            return Sym.atom(f"expr<{type(e).__name__}>")

    # straight-line forward substitution -------------------------------------------------------------
    def assign(self, target: ast.AST, value: ast.AST) -> None:
        if isinstance(target, ast.Name):
            self.env[target.id] = self.norm(value)

    def aug(self, target: ast.AST, op: ast.operator, value: ast.AST) -> None:
        if isinstance(target, ast.Name):
            fake = ast.BinOp(left=ast.Name(id=target.id, ctx=ast.Load()), op=op, right=value)
            self.env[target.id] = self.norm(fake)

    def run_block(self, stmts: list[ast.stmt]) -> None:
        """Forward-substitute through simple statements; an `if` keeps only the definitions that agree on both arms."""
        for s in stmts:
            if isinstance(s, ast.Assign) and len(s.targets) == 1:
                self.assign(s.targets[0], s.value)
            elif isinstance(s, ast.AugAssign):
                self.aug(s.target, s.op, s.value)
            elif isinstance(s, ast.If):
                a = Normaliser(self.env, self.consts, self.atom_hook)
                b = Normaliser(self.env, self.consts, self.atom_hook)
                a.run_block(s.body)
                b.run_block(s.orelse)
                merged = {}
                for k in set(a.env) | set(b.env):
                    va, vb = a.env.get(k), b.env.get(k)
                    if va is not None and vb is not None and va == vb:
                        merged[k] = va
                    else:
                        merged[k] = Sym.atom(f"phi_{k}@{s.lineno}")
                self.env = merged
            elif isinstance(s, (ast.For, ast.While)):
                # anything assigned in a loop becomes unknown
                for n in ast.walk(s):
                    if isinstance(n, ast.Name) and isinstance(n.ctx, ast.Store):
                        self.env[n.id] = Sym.atom(f"loop_{n.id}@{s.lineno}")


def _chain(e: ast.AST) -> str | None:
    parts = []
    while isinstance(e, ast.Attribute):
        parts.append(e.attr)
        e = e.value
    if isinstance(e, ast.Name):
        parts.append(e.id)
        return ".".join(reversed(parts))
    return None


# ---------------------------------------------------------------------------------------------------- relations
_FLIP = {">": "<", ">=": "<=", "<": ">", "<=": ">=", "==": "==", "!=": "!="}
_NEG = {">": "<=", ">=": "<", "<": ">=", "<=": ">", "==": "!=", "!=": "=="}
_OPS = {ast.Gt: ">", ast.GtE: ">=", ast.Lt: "<", ast.LtE: "<=", ast.Eq: "==", ast.NotEq: "!="}


def relation(test: ast.AST, nz: "Normaliser"):
    """`a OP b` (possibly under `not`) -> (Sym a-b, op) meaning `a - b OP 0`;  None if not a single comparison."""
    neg = False
    while isinstance(test, ast.UnaryOp) and isinstance(test.op, ast.Not):
        neg = not neg
        test = test.operand
    if not (isinstance(test, ast.Compare) and len(test.ops) == 1 and type(test.ops[0]) in _OPS):
        return None
    op = _OPS[type(test.ops[0])]
    if neg:
        op = _NEG[op]
    return nz.norm(test.left) - nz.norm(test.comparators[0]), op


def same_relation(r, diff: "Sym", op: str) -> bool:
    """Is relation r = (d, o) the same statement as `diff op 0` (allowing the mirrored form -diff flipped-op 0)?"""
    if r is None:
        return False
    d, o = r
    return (d == diff and o == op) or (d == -diff and o == _FLIP[op])
