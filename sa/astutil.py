"""Small AST helpers shared by all engines."""
from __future__ import annotations

import ast
from typing import Iterator

from .model import walk_local


def src(node: ast.AST | None) -> str:
    if node is None:
        return "<none>"
    try:
        return ast.unparse(node)
    except Exception:
        return f"<{type(node).__name__}>"


def short(node: ast.AST | None, n: int = 110) -> str:
    s = " ".join(src(node).split())
    return s if len(s) <= n else s[: n - 3] + "..."


def attr_chain(e: ast.AST) -> list[str] | None:
    """`a.b.c` -> ['a','b','c'];  None if the expression is not a pure name/attribute chain."""
    parts: list[str] = []
    while isinstance(e, ast.Attribute):
        parts.append(e.attr)
        e = e.value
    if isinstance(e, ast.Name):
        parts.append(e.id)
        return parts[::-1]
    return None


def enum_member(e: ast.AST, enum: str) -> str | None:
    """`MessageType.NOTE_ON` -> 'NOTE_ON';  `TokenisationPrefixes.BAR.value` -> 'BAR' (value access too)."""
    ch = attr_chain(e)
    if ch is None:
        return None
    if len(ch) == 2 and ch[0] == enum:
        return ch[1]
    if len(ch) == 3 and ch[0] == enum and ch[2] == "value":
        return ch[1]
    return None


def ancestors(n: ast.AST) -> Iterator[ast.AST]:
    while hasattr(n, "_parent"):
        n = n._parent  # type: ignore[attr-defined]
        yield n


def enclosing_stmt(n: ast.AST) -> ast.stmt | None:
    if isinstance(n, ast.stmt):
        return n
    for a in ancestors(n):
        if isinstance(a, ast.stmt):
            return a
    return None


def enclosing_function(n: ast.AST) -> ast.FunctionDef | None:
    for a in ancestors(n):
        if isinstance(a, ast.FunctionDef):
            return a
    return None


def names_in(e: ast.AST) -> set[str]:
    return {n.id for n in ast.walk(e) if isinstance(n, ast.Name)}


def calls_in(fn: ast.AST, local: bool = True) -> list[ast.Call]:
    it = walk_local(fn) if local else ast.walk(fn)
    return [n for n in it if isinstance(n, ast.Call)]


def call_method(c: ast.Call) -> tuple[ast.expr | None, str | None]:
    """(receiver expression, method name) for `recv.m(...)`; (None, name) for `f(...)`."""
    if isinstance(c.func, ast.Attribute):
        return c.func.value, c.func.attr
    if isinstance(c.func, ast.Name):
        return None, c.func.id
    return None, None


def kwarg(c: ast.Call, name: str) -> ast.expr | None:
    for k in c.keywords:
        if k.arg == name:
            return k.value
    return None


def assigned_names(target: ast.AST) -> list[str]:
    out = []
    for n in ast.walk(target):
        if isinstance(n, ast.Name) and isinstance(n.ctx, (ast.Store, ast.Del)):
            out.append(n.id)
    return out


def const_value(e: ast.AST):
    try:
        return ast.literal_eval(e)
    except Exception:
        return None


def is_const(e: ast.AST, v) -> bool:
    return isinstance(e, ast.Constant) and e.value == v and type(e.value) is type(v)


def stmts_in_order(body: list[ast.stmt]) -> Iterator[ast.stmt]:
    """All statements of a body in source order, descending into compound statements (not nested defs)."""
    for s in body:
        yield s
        for fld in ("body", "orelse", "finalbody"):
            sub = getattr(s, fld, None)
            if isinstance(sub, list) and sub and isinstance(sub[0], ast.stmt) and not isinstance(s, (ast.FunctionDef, ast.ClassDef)):
                yield from stmts_in_order(sub)
        if isinstance(s, ast.Try):
            for h in s.handlers:
                yield from stmts_in_order(h.body)


def loc(file: str, node: ast.AST | None) -> str:
    return f"{file}:{getattr(node, 'lineno', 0)}"


def flatten_boolop(e: ast.expr, op) -> list[ast.expr]:
    if isinstance(e, ast.BoolOp) and isinstance(e.op, op):
        out = []
        for v in e.values:
            out.extend(flatten_boolop(v, op))
        return out
    return [e]


def negate_cmp(op: ast.cmpop) -> ast.cmpop | None:
    table = {ast.Eq: ast.NotEq, ast.NotEq: ast.Eq, ast.Lt: ast.GtE, ast.GtE: ast.Lt, ast.Gt: ast.LtE,
             ast.LtE: ast.Gt, ast.Is: ast.IsNot, ast.IsNot: ast.Is, ast.In: ast.NotIn, ast.NotIn: ast.In}
    t = table.get(type(op))
    return t() if t else None


def path_conditions(node: ast.AST, stop: ast.AST | None = None) -> list[tuple[ast.expr, bool]]:
    """The `if` tests that govern `node`, innermost first, as (test, holds?) -- holds is False when the node sits in the
    else-branch.  Walks up the parent links until `stop` (exclusive) or the enclosing function."""
    out = []
    child = node
    for a in ancestors(node):
        if a is stop or isinstance(a, (ast.FunctionDef, ast.AsyncFunctionDef, ast.Lambda)):
            break
        if isinstance(a, ast.If):
            in_body = any(child is s for s in a.body)
            in_else = any(child is s for s in a.orelse)
            if in_body or in_else:
                out.append((a.test, in_body))
        child = a
    return out


def _always_leaves(block: list[ast.stmt]) -> bool:
    if not block:
        return False
    last = block[-1]
    if isinstance(last, (ast.Return, ast.Raise, ast.Continue, ast.Break)):
        return True
    return isinstance(last, ast.If) and bool(last.orelse) and _always_leaves(last.body) and _always_leaves(last.orelse)


def guarded_conditions(node: ast.AST, stop: ast.AST | None = None) -> list[tuple[ast.expr, bool]]:
    """`path_conditions` plus the guard clauses passed on the way: an earlier `if c: return/raise/continue/break` (no else) in a block
    that contains `node` means `c` did not hold where `node` runs.  A guard inside a loop body only counts for nodes of the same
    iteration (the same block), which is what sibling position gives."""
    out = []
    child = node
    for a in ancestors(node):
        if a is stop or isinstance(a, (ast.FunctionDef, ast.AsyncFunctionDef, ast.Lambda)):
            blocks = [getattr(a, "body", [])] if not (a is stop) else []
        else:
            blocks = [getattr(a, f, None) for f in ("body", "orelse", "finalbody")]
        for blk in blocks:
            if isinstance(blk, list) and any(child is s_ for s_ in blk):
                for s_ in blk:
                    if s_ is child:
                        break
                    if isinstance(s_, ast.If) and not s_.orelse and _always_leaves(s_.body):
                        out.append((s_.test, False))
                    elif isinstance(s_, ast.If) and s_.orelse and _always_leaves(s_.orelse) and not _always_leaves(s_.body):
                        out.append((s_.test, True))
        if a is stop or isinstance(a, (ast.FunctionDef, ast.AsyncFunctionDef, ast.Lambda)):
            break
        if isinstance(a, ast.If):
            in_body = any(child is s_ for s_ in a.body)
            in_else = any(child is s_ for s_ in a.orelse)
            if in_body or in_else:
                out.append((a.test, in_body))
        child = a
    return out


def clone(node):
    """A copy of an expression / statement without the parent links the loader adds (copy.deepcopy would follow `_parent` and copy the
    whole module each time)."""
    if isinstance(node, list):
        return [clone(x) for x in node]
    if not isinstance(node, ast.AST):
        return node
    new = type(node)()
    for f in node._fields:
        if hasattr(node, f):
            setattr(new, f, clone(getattr(node, f)))
    for a in ("lineno", "col_offset", "end_lineno", "end_col_offset"):
        if hasattr(node, a):
            setattr(new, a, getattr(node, a))
    return new


def eval_bool(t: ast.AST, atoms: dict) -> bool | None:
    """Truth value of a test under an assignment of its atoms (source text of a leaf -> bool); `a != b` is read as `not a == b`,
    `x not in y` as `not x in y`; a leaf that is not assigned makes the result None unless the other operands decide it."""
    if isinstance(t, ast.UnaryOp) and isinstance(t.op, ast.Not):
        r = eval_bool(t.operand, atoms)
        return None if r is None else not r
    if isinstance(t, ast.BoolOp):
        vs = [eval_bool(v, atoms) for v in t.values]
        if isinstance(t.op, ast.And):
            return False if any(v is False for v in vs) else (True if all(v is True for v in vs) else None)
        return True if any(v is True for v in vs) else (False if all(v is False for v in vs) else None)
    k = ast.unparse(t)
    if k in atoms:
        return atoms[k]
    if isinstance(t, ast.Compare) and len(t.ops) == 1:
        flip = {ast.NotEq: ast.Eq, ast.NotIn: ast.In, ast.IsNot: ast.Is}.get(type(t.ops[0]))
        for l, r in ((t.left, t.comparators[0]), (t.comparators[0], t.left)):
            for op, neg in ((t.ops[0], False),) + (((flip(), True),) if flip else ()):
                k2 = ast.unparse(ast.Compare(left=l, ops=[op], comparators=[r]))
                if k2 in atoms:
                    return atoms[k2] != neg
            if isinstance(t.ops[0], (ast.In, ast.NotIn, ast.Lt, ast.Gt, ast.LtE, ast.GtE)):
                break
        if isinstance(t.ops[0], ast.Eq):
            k3 = ast.unparse(ast.Compare(left=t.left, ops=[ast.NotEq()], comparators=t.comparators))
            k4 = ast.unparse(ast.Compare(left=t.comparators[0], ops=[ast.NotEq()], comparators=[t.left]))
            for kk in (k3, k4):
                if kk in atoms:
                    return not atoms[kk]
    return None


def reach_condition(node: ast.AST, stop: ast.AST | None, atoms: dict) -> bool | None:
    """Is `node` reached (from the start of `stop`'s body, or of the function) under the assignment `atoms`?  The governing `if`s and the
    guard clauses on the way are evaluated with `eval_bool`; None when one of them is not decided by the assignment."""
    out = True
    for t, holds in guarded_conditions(node, stop):
        v = eval_bool(t, atoms)
        if v is None:
            out = None if out is not False else False
        elif v != holds:
            return False
    return out


def extra_conditions(node: ast.AST, main: ast.expr | None, allow=None, stop: ast.AST | None = None) -> list[str]:
    """Path conditions of `node` other than `main` holding (and other than those `allow(test, holds)` accepts), rendered
    for a report.  Used by "sole guard" rules: an action that must happen exactly under one condition may not sit under a
    further, unrelated one."""
    out = []
    for t, holds in path_conditions(node, stop):
        if main is not None and t is main and holds:
            continue
        if allow is not None and allow(t, holds):
            continue
        out.append(f"`{short(t, 60)}` {'holds' if holds else 'does not hold'}")
    return out


def early_exits_before(fn: ast.FunctionDef, stmt: ast.stmt) -> list[ast.stmt]:
    """Statements that can leave `fn` (return / raise) before `stmt` is reached: exits textually before it that are not
    inside a nested function.  (A raise that rejects invalid arguments is an exit too; the caller decides what it accepts.)"""
    out = []
    for n in ast.walk(fn):
        if isinstance(n, (ast.Return, ast.Raise)) and n.lineno < stmt.lineno:
            inner = False
            for a in ancestors(n):
                if a is fn:
                    break
                if isinstance(a, (ast.FunctionDef, ast.AsyncFunctionDef, ast.Lambda)):
                    inner = True
            if not inner:
                out.append(n)
    return out


def emptiness_test(t: ast.AST):
    """(`source of the list expression`, empty?) when `t` is a test of a container being empty / non-empty -- `len(x) == 0`,
    `len(x) < 1`, `not x`, `len(x) > 0`, `len(x) != 0`, `len(x) >= 1`, `x` (a plain name / attribute) -- else None."""
    neg = False
    while isinstance(t, ast.UnaryOp) and isinstance(t.op, ast.Not):
        neg, t = not neg, t.operand
    if isinstance(t, ast.Compare) and len(t.ops) == 1 and isinstance(t.left, ast.Call) and isinstance(t.left.func, ast.Name) and t.left.func.id == "len" \
            and len(t.left.args) == 1 and isinstance(t.comparators[0], ast.Constant) and isinstance(t.comparators[0].value, int):
        c0, op = t.comparators[0].value, type(t.ops[0])
        if (op is ast.Gt and c0 == 0) or (op is ast.GtE and c0 == 1) or (op is ast.NotEq and c0 == 0):
            return ast.unparse(t.left.args[0]), neg
        if (op is ast.Eq and c0 == 0) or (op is ast.Lt and c0 == 1) or (op is ast.LtE and c0 == 0):
            return ast.unparse(t.left.args[0]), not neg
        return None
    if isinstance(t, (ast.Name, ast.Attribute)):
        return ast.unparse(t), neg
    return None
