"""Structured (syntax-directed) abstract interpreter over Python statement bodies.

A client subclasses `AbsInt`, provides a finite-height abstract state with `join`/`equal`, and transfer
functions for simple statements and branch conditions.  The framework handles sequencing, if/elif/else,
for/while (+break/continue/else) by fixpoint iteration, try/finally (the finally block is applied to
every exit that leaves the try body, including return/raise/break/continue), try/except (handlers entered
with the join of every state observed in the try body), with, return, raise.  Nested function definitions
are handed to the client (`on_nested_def`).  No paths are enumerated and no solver is involved: this is
classic dataflow analysis on the structured program.
"""
from __future__ import annotations

import ast
from typing import Any

from .model import AnalysisError

State = Any


class _Frame:
    def __init__(self):
        self.returns: list[tuple[ast.AST, State]] = []
        self.raises: list[tuple[ast.AST, State]] = []
        self.breaks: list[State] = []
        self.continues: list[State] = []
        self.seen: list[State] = []


class AbsInt:
    MAX_ITER = 60

    def __init__(self):
        self._frames: list[_Frame] = [_Frame()]

    # ---- to be provided by clients ------------------------------------------------------------
    def join(self, a: State, b: State) -> State:
        raise NotImplementedError

    def equal(self, a: State, b: State) -> bool:
        return a == b

    def copy(self, s: State) -> State:
        return s

    def stmt(self, s: ast.stmt, st: State) -> State | None:
        """Transfer of a simple statement (Assign, AugAssign, AnnAssign, Expr, Assert, Delete, Pass, Global,
        Nonlocal, Import...).  Return None if execution cannot continue."""
        return st

    def cond(self, test: ast.expr, st: State) -> tuple[State | None, State | None]:
        """(state if test true, state if test false)."""
        return self.copy(st), self.copy(st)

    def for_bind(self, node: ast.For, st: State) -> State:
        """Bind the loop target for one iteration (iterable already evaluated by for_iter)."""
        return st

    def for_iter(self, node: ast.For, st: State) -> State:
        """Evaluate the iterable expression once, before the loop."""
        return st

    def on_return(self, node: ast.Return, st: State) -> None:
        pass

    def on_raise(self, node: ast.Raise, st: State) -> None:
        pass

    def on_nested_def(self, node: ast.FunctionDef, st: State) -> State:
        return st

    def with_enter(self, node: ast.With, st: State) -> State:
        return st

    # ---- driver ------------------------------------------------------------------------------
    def jn(self, a: State | None, b: State | None) -> State | None:
        if a is None:
            return b
        if b is None:
            return a
        return self.join(a, b)

    def run_function(self, fn: ast.FunctionDef, entry: State) -> tuple[State | None, list, list]:
        """Returns (fall-through state at end of body or None, returns [(node, state)], raises [(node, state)])."""
        self._frames = [_Frame()]
        end = self.block(fn.body, entry)
        fr = self._frames[0]
        return end, fr.returns, fr.raises

    def block(self, body: list[ast.stmt], st: State | None) -> State | None:
        for s in body:
            if st is None:
                return None
            st = self.exec(s, st)
        return st

    def _note(self, st: State | None) -> None:
        if st is not None:
            self._frames[-1].seen.append(st)

    def exec(self, s: ast.stmt, st: State) -> State | None:
        fr = self._frames[-1]
        if isinstance(s, ast.If):
            t, f = self.cond(s.test, st)
            a = self.block(s.body, t) if t is not None else None
            b = self.block(s.orelse, f) if f is not None else None
            return self.jn(a, b)
        if isinstance(s, (ast.For, ast.While)):
            return self._loop(s, st)
        if isinstance(s, ast.Return):
            self.on_return(s, st)
            fr.returns.append((s, st))
            return None
        if isinstance(s, ast.Raise):
            self.on_raise(s, st)
            fr.raises.append((s, st))
            return None
        if isinstance(s, ast.Break):
            fr.breaks.append(st)
            return None
        if isinstance(s, ast.Continue):
            fr.continues.append(st)
            return None
        if isinstance(s, ast.Try):
            return self._try(s, st)
        if isinstance(s, ast.With):
            st = self.with_enter(s, st)
            return self.block(s.body, st)
        if isinstance(s, (ast.FunctionDef, ast.AsyncFunctionDef)):
            return self.on_nested_def(s, st)
        if isinstance(s, ast.ClassDef):
            return st
        if isinstance(s, ast.Match):
            raise AnalysisError(f"match statement at line {s.lineno}: outside the analyser's model")
        out = self.stmt(s, st)
        self._note(out)
        return out

    def _loop(self, s: ast.For | ast.While, st: State) -> State | None:
        outer = self._frames[-1]
        if isinstance(s, ast.For):
            st = self.for_iter(s, st)
        head = st
        exit_state = None
        for _ in range(self.MAX_ITER):
            fr = _Frame()
            self._frames.append(fr)
            if isinstance(s, ast.While):
                enter, leave = self.cond(s.test, self.copy(head))
            else:
                enter, leave = self.for_bind(s, self.copy(head)), self.copy(head)
            end = self.block(s.body, enter) if enter is not None else None
            self._frames.pop()
            back = end
            for c in fr.continues:
                back = self.jn(back, c)
            new_head = self.jn(head, back)
            stable = self.equal(new_head, head)
            head = new_head
            if stable:
                # propagate exits of the final (stable) iteration
                outer.returns.extend(fr.returns)
                outer.raises.extend(fr.raises)
                outer.seen.extend(fr.seen)
                # normal exit: condition false / iterator exhausted -> orelse; breaks skip orelse
                if isinstance(s, ast.While):
                    _, leave = self.cond(s.test, self.copy(head))
                else:
                    leave = self.copy(head)
                norm = self.block(s.orelse, leave) if (leave is not None and s.orelse) else leave
                exit_state = norm
                for b in fr.breaks:
                    exit_state = self.jn(exit_state, b)
                return exit_state
        raise AnalysisError(f"loop at line {s.lineno}: abstract iteration did not stabilise")

    def _try(self, s: ast.Try, st: State) -> State | None:
        outer = self._frames[-1]
        fr = _Frame()
        self._frames.append(fr)
        fr.seen.append(st)
        end = self.block(s.body, st)
        self._frames.pop()
        # handlers: entered with the join of everything seen in the body (any statement may raise)
        handler_entry = None
        for x in fr.seen:
            handler_entry = self.jn(handler_entry, x)
        for _, x in fr.raises:
            handler_entry = self.jn(handler_entry, x)
        if s.handlers:
            fr.raises = []  # assume caught (over-approximation adequate for this code base: no handlers in scoda)
            for h in s.handlers:
                hfr = _Frame()
                self._frames.append(hfr)
                hend = self.block(h.body, self.copy(handler_entry)) if handler_entry is not None else None
                self._frames.pop()
                end = self.jn(end, hend)
                fr.returns.extend(hfr.returns)
                fr.raises.extend(hfr.raises)
                fr.breaks.extend(hfr.breaks)
                fr.continues.extend(hfr.continues)
        if s.orelse and end is not None:
            self._frames.append(fr)
            end = self.block(s.orelse, end)
            self._frames.pop()
        if s.finalbody:
            def fin(x):
                return self.block(s.finalbody, self.copy(x))
            end = fin(end) if end is not None else None
            # implicit exceptional exit: any statement in the body may raise; the finally block runs then too
            if handler_entry is not None and not s.handlers:
                self.on_finally_exceptional(s, fin(handler_entry))
            outer.returns.extend((n, y) for n, x in fr.returns if (y := fin(x)) is not None)
            outer.raises.extend((n, y) for n, x in fr.raises if (y := fin(x)) is not None)
            outer.breaks.extend(y for x in fr.breaks if (y := fin(x)) is not None)
            outer.continues.extend(y for x in fr.continues if (y := fin(x)) is not None)
        else:
            outer.returns.extend(fr.returns)
            outer.raises.extend(fr.raises)
            outer.breaks.extend(fr.breaks)
            outer.continues.extend(fr.continues)
        outer.seen.extend(fr.seen)
        return end

    def on_finally_exceptional(self, s: ast.Try, st: State | None) -> None:
        """State after the finally block when the body was left by an (implicit) exception or generator close."""
        pass
