"""C17 -- equals distinguishes exactly the sequences that differ musically (comparison coverage)."""
from __future__ import annotations

import ast
import re

from ..astutil import attr_chain, call_method, short, src, enum_member, flatten_boolop
from ..linear import Normaliser, Sym
from ..model import walk_local, AnalysisError
from ..report import Ctx
from ..engines.typecase import TypeCase, TCState

FN = "AbsoluteSequence.equals"


class _Collect(TypeCase):
    """Per message type: the tests whose truth leads straight to `return False`."""

    def __init__(self, *a, **kw):
        super().__init__(*a, **kw)
        self.fail_tests: list[ast.expr] = []
        self.first_message = None          # predicate on expressions: "this denotes the first message of the self-side pairing"

    def is_msg(self, e, st):
        if self.first_message is not None and not isinstance(e, ast.Name) and self.first_message(e):
            return True
        return super().is_msg(e, st)

    def exec(self, s, st):
        if isinstance(s, ast.If) and len(s.body) == 1 and isinstance(s.body[0], ast.Return) and \
                isinstance(s.body[0].value, ast.Constant) and s.body[0].value.value is False:
            t = self.truth(s.test, st)
            if t is not False:
                if s.test not in self.fail_tests:
                    self.fail_tests.append(s.test)
        return super().exec(s, st)


def _main_check(ctx: Ctx) -> None:
    _check(ctx)
    _extra(ctx)


def _check(ctx: Ctx) -> None:
    p = ctx.p
    fi = p.func(FN)
    ctx.analysed(fi)
    ctx.explanation = (
        "Comparison-coverage analysis of AbsoluteSequence.equals: for each compared event kind (note, time signature, key "
        "signature) the tests whose failure reaches `return False` are collected by per-type abstract execution of the "
        "pairwise loop and normalised to linear forms over the attributes of the self-side and other-side pairing. "
        "EQ1 the forms over (onset, end) have rank 2 for notes (onset and duration both determined) and mention the onset "
        "for signatures; pitch, velocity, channel, numerator, denominator, key each appear; EQ2 every ignore flag guards only "
        "the comparison of its own attribute (or removes only its own message type); EQ3 each comparison is the same "
        "expression on both sides (symmetry); LEN the pairing counts are compared. "
        "Not decided: behaviour under re-ordering / re-representation (depends on pairing and interleaving).")
    ctx.assumptions += ["get_interleaved_message_pairings returns (channel, [first, second]) tuples ordered by onset"]

    loop = next((n for n in walk_local(fi.node) if isinstance(n, ast.For) and isinstance(n.iter, ast.Call)
                 and isinstance(n.iter.func, ast.Name) and n.iter.func.id == "zip"), None)
    if loop is None or not (isinstance(loop.target, ast.Tuple) and len(loop.target.elts) == 2):
        raise AnalysisError(f"{FN}: pairwise zip loop not found")
    # canonical atom renaming: self-side / other-side expressions
    nz = Normaliser()
    if all(isinstance(e, ast.Name) for e in loop.target.elts):
        s_pair, o_pair = loop.target.elts[0].id, loop.target.elts[1].id
    elif all(isinstance(e, ast.Tuple) and len(e.elts) == 2 and all(isinstance(x, ast.Name) for x in e.elts) for e in loop.target.elts):
        # `for (s_channel, s_msgs), (o_channel, o_msgs) in zip(...)`: the items unpacked in the loop header
        s_pair, o_pair = "_self_item", "_other_item"
        for nm_, tup in ((s_pair, loop.target.elts[0]), (o_pair, loop.target.elts[1])):
            for k_, x in enumerate(tup.elts):
                nz.env[x.id] = Sym.atom(f"{nm_}[{k_}]")
    else:
        raise AnalysisError(f"{FN}: pairwise zip loop target not recognised")
    nz.run_block([s for s in loop.body if isinstance(s, (ast.Assign, ast.AugAssign))])
    # also assignments nested in branches (value definitions like self_msg_value)
    for n in ast.walk(loop):
        if isinstance(n, ast.Assign) and len(n.targets) == 1 and isinstance(n.targets[0], ast.Name) and n.targets[0].id not in nz.env:
            nz.assign(n.targets[0], n.value)

    def canon(e: ast.AST) -> Sym:
        return nz.norm(e)

    def side_and_form(sym: Sym):
        """Rename atoms to side-neutral names; return (side, neutral canon)."""
        txt = sym.canon()
        side = None
        if s_pair in txt and o_pair not in txt:
            side = "self"
        elif o_pair in txt and s_pair not in txt:
            side = "other"
        neutral = txt.replace(s_pair, "P").replace(o_pair, "P")
        return side, neutral

    # which local names alias the first message of the self pairing (for the type tests)
    first_aliases = set()
    for n in ast.walk(loop):
        if isinstance(n, ast.Assign) and len(n.targets) == 1 and isinstance(n.targets[0], ast.Name):
            c = nz.env.get(n.targets[0].id)
            if c is not None and c.canon() == f"{s_pair}[1][0]":
                first_aliases.add(n.targets[0].id)
    # ... or it is read in place (`s_msgs[0].message_type`): recognised by its normal form
    def is_first(e):
        try:
            return nz.norm(e).canon() == f"{s_pair}[1][0]"
        except Exception:
            return False
    if not first_aliases and not any(isinstance(x, ast.Attribute) and x.attr == "message_type" and is_first(x.value) for x in ast.walk(loop)):
        raise AnalysisError(f"{FN}: first message of a pairing (alias or in place) not found")

    flags = [a for a in fi.params if a.startswith("ignore_")]
    required = {
        "NOTE_ON": {"note", "velocity", "channel", "onset", "end"},
        "TIME_SIGNATURE": {"numerator", "denominator", "onset"},
        "KEY_SIGNATURE": {"key", "onset"},
    }
    own_attr = {"ignore_velocity": "velocity", "ignore_channel": "channel"}
    n_cmp = 0
    for T, req in required.items():
        tc = _Collect(p, fi, set(first_aliases), T)
        tc.first_message = is_first
        tc.run_body(loop.body)
        covered: dict[str, set] = {}
        time_forms: list[tuple[int, int]] = []
        for test in tc.fail_tests:
            for disj in flatten_boolop(test, ast.Or):
                conj = flatten_boolop(disj, ast.And)
                cmps = [c for c in conj if isinstance(c, ast.Compare) and len(c.ops) == 1 and isinstance(c.ops[0], ast.NotEq)]
                guards = [c for c in conj if c not in cmps]
                gflags = set()
                for g in guards:
                    if isinstance(g, ast.UnaryOp) and isinstance(g.op, ast.Not) and isinstance(g.operand, ast.Name) and g.operand.id in flags:
                        gflags.add(g.operand.id)
                    elif isinstance(g, ast.Name) and g.id in flags:
                        gflags.add("!" + g.id)
                    else:
                        gflags.add("?" + short(g, 30))
                for c in cmps:
                    if any(x in src(c) for x in ("message_type",)):
                        continue
                    n_cmp += 1
                    ls, rs = canon(c.left), canon(c.comparators[0])
                    lside, lneut = side_and_form(ls)
                    rside, rneut = side_and_form(rs)
                    inst = f"{FN} [{T}]: `{short(c, 70)}`"
                    # EQ3 symmetry
                    ctx.check(lneut == rneut and {lside, rside} == {"self", "other"}, "EQ3", inst + " is symmetric", function=FN,
                              construct="comparison relates different quantities of the two sequences",
                              message=f"left normalises to `{lneut}` ({lside}), right to `{rneut}` ({rside})", file=fi.file, node=c)
                    attrs = attributes_of(lneut)
                    # an attribute counts as compared only when the comparison is about that attribute alone: a combined
                    # expression (numerator / denominator, note + velocity) identifies several distinct events
                    alone = set(attrs)
                    if len(attrs - {"time"}) >= 1:
                        single = re.fullmatch(r"P\[1\]\[\d\]\.(\w+)|P\[0\]", lneut.strip())
                        if not single:
                            alone = attrs & {"time"}
                            ctx.check(False, "EQ1", inst + " compares one attribute", function=FN,
                                      construct=f"{T}: attributes {sorted(attrs - {'time'})} are compared only through a combined expression",
                                      message=f"`{short(c, 80)}` normalises to `{lneut}`: different events with the same combined value compare equal "
                                              f"(e.g. 3/4 and 6/8 through numerator/denominator)", file=fi.file, node=c)
                    for a in alone:
                        covered.setdefault(a, set()).update(gflags or {""})
                    tf = time_form(lneut)
                    if tf is not None and not gflags:
                        time_forms.append(tf)
                    # EQ2: a guard flag may only relax its own attribute
                    for gf in gflags:
                        name = gf.lstrip("!?")
                        if gf.startswith("?"):
                            continue
                        own = own_attr.get(name)
                        ctx.check(own is not None and attrs == {own}, "EQ2", inst + f" guarded by {name}", function=FN,
                                  construct=f"flag {name} relaxes a comparison of {sorted(attrs)}",
                                  message=f"`{name}` must relax only the {own} comparison, but it guards `{short(c, 60)}`",
                                  file=fi.file, node=c)
        # EQ1 coverage
        rank = rank2(time_forms)
        have = set(covered)
        if rank >= 1 and any(tf[0] != 0 or tf[1] != 0 for tf in time_forms):
            pass
        onset_ok = any(tf[0] != 0 and tf[1] == 0 for tf in time_forms) or rank == 2
        end_ok = rank == 2 or any(tf[1] != 0 for tf in time_forms)
        for a in sorted(req):
            inst = f"{FN} [{T}]: attribute `{a}` decides equality"
            if a == "onset":
                ok = onset_ok
                why = f"compared time forms (coefficients of onset, end): {time_forms} -> rank {rank}"
            elif a == "end":
                ok = end_ok
                why = f"compared time forms {time_forms} -> rank {rank}"
            else:
                unguarded_or_own = a in covered and all((g == "" or g.lstrip("!") == {"velocity": "ignore_velocity", "channel": "ignore_channel"}.get(a))
                                                       for g in covered[a])
                ok = a in covered and unguarded_or_own
                why = f"guards {sorted(covered.get(a, []))}"
            what = {"onset": "the onset tick", "end": "the duration"}.get(a, a)
            ctx.check(ok, "EQ1", inst, function=FN, construct=f"{T}: {what} is never compared",
                      message=f"two sequences differing only in {what} of a {T} event compare equal ({why})", file=fi.file, node=loop,
                      detail=why)
    ctx.floor("attribute comparisons reaching `return False`", n_cmp, 6)

    # channel comparison (pair[0]) -- part of every type
    # handled through `covered` when the compared expression is pair[0]; check explicitly:
    ch_cmp = [c for c in ast.walk(loop) if isinstance(c, ast.Compare) and f"{s_pair}[0]" in canon(c.left).canon() + canon(c.comparators[0]).canon()]
    ctx.check(bool(ch_cmp), "EQ1", f"{FN}: channel of the pairing compared", function=FN, construct="channel never compared",
              message="", file=fi.file, node=loop)

    # LEN
    nzl = Normaliser()
    nzl.run_block([s_ for s_ in fi.node.body if isinstance(s_, ast.Assign) and isinstance(s_.targets[0], ast.Name) and s_.lineno < loop.lineno
                   and isinstance(s_.value, ast.Call) and isinstance(s_.value.func, ast.Name) and s_.value.func.id == "len"])
    lens = [c for c in walk_local(fi.node) if isinstance(c, ast.Compare) and len(c.ops) == 1
            and (nzl.norm(c.left).canon() + nzl.norm(c.comparators[0]).canon()).count("len(") == 2]
    ctx.check(bool(lens), "LEN", f"{FN}: pairing counts compared", function=FN, construct="number of pairings never compared",
              message="a sequence with extra trailing events would compare equal (zip stops at the shorter)", file=fi.file, node=fi.node)

    # EQ2 for the two type-removal flags
    by_flags = _kinds_by_flags(fi)
    for flag, T in (("ignore_time_signature", "TIME_SIGNATURE"), ("ignore_key_signature", "KEY_SIGNATURE")):
        if by_flags is not None:
            # the list of compared kinds evaluated for the four settings of the two flags: T is in it exactly when its flag is off,
            # and the flag changes nothing else
            other = "ignore_key_signature" if flag == "ignore_time_signature" else "ignore_time_signature"
            ok = all((T in by_flags[frozenset(on)]) == (flag not in on) for on in ((), (flag,), (other,), (flag, other))) \
                and all(by_flags[frozenset(on)] - {T} == by_flags[frozenset(set(on) - {flag})] - {T} for on in ((flag,), (flag, other)))
            uses_ = [n for n in walk_local(fi.node) if isinstance(n, ast.Name) and n.id == flag and isinstance(n.ctx, ast.Load)]
            ok = ok and len(uses_) == 1
            ctx.check(ok, "EQ2", f"{FN}: {flag} removes only {T} from the compared types", function=FN,
                      construct=f"{flag} does more (or less) than dropping {T} events from the comparison",
                      message=f"compared kinds by flags set: { {tuple(sorted(k)): sorted(v) for k, v in by_flags.items()} }; {len(uses_)} use(s) of the flag", file=fi.file, node=fi.node)
            continue
        uses = [n for n in walk_local(fi.node) if isinstance(n, ast.If) and isinstance(n.test, ast.Name) and n.test.id == flag]
        ok = bool(uses)
        for u in uses:
            rem = [c for c in ast.walk(u) if isinstance(c, ast.Call) and call_method(c)[1] == "remove"]
            ok = ok and len(rem) == 1 and enum_member(rem[0].args[0], "MessageType") == T and len(u.body) == 1 and not u.orelse
        other_uses = [n for n in walk_local(fi.node) if isinstance(n, ast.Name) and n.id == flag and isinstance(n.ctx, ast.Load)]
        ctx.check(ok and len(other_uses) == len(uses), "EQ2", f"{FN}: {flag} removes only {T} from the compared types", function=FN,
                  construct=f"{flag} does more (or less) than dropping {T} events from the comparison",
                  message=f"{len(uses)} guarded block(s), {len(other_uses)} use(s)", file=fi.file, node=fi.node)

    # delegation
    for q in ("Sequence.equals", "Sequence.__eq__", "AbsoluteSequence.__eq__"):
        f2 = p.func(q)
        ctx.analysed(f2)
        calls = [c for c in walk_local(f2.node) if isinstance(c, ast.Call) and call_method(c)[1] in ("equals", "__eq__")]
        # `a == b` between the two absolute views is the same delegation written with the operator
        calls += [c for c in walk_local(f2.node) if isinstance(c, ast.Compare) and len(c.ops) == 1 and isinstance(c.ops[0], ast.Eq)
                  and all(isinstance(x, ast.Attribute) and x.attr == "abs" for x in (c.left, c.comparators[0]))]
        ctx.check(bool(calls), "DELEG", f"{q} delegates to the absolute view's equals", function=q,
                  construct="equality entry point does not delegate to equals", message="", file=f2.file, node=f2.node)
    se = p.func("Sequence.equals")
    c = next((c for c in walk_local(se.node) if isinstance(c, ast.Call) and call_method(c)[1] == "equals"), None)
    if c is not None:
        passed = [a.id for a in c.args if isinstance(a, ast.Name)] + [k.value.id for k in c.keywords if isinstance(k.value, ast.Name)]
        want = [a for a in se.params if a.startswith("ignore_")]
        target = p.func(FN)
        # positional order must match the callee's parameter order
        pos = [a.id for a in c.args[1:] if isinstance(a, ast.Name)]
        callee_order = [a for a in target.params[2:]]
        ok = all(w in passed for w in want) and pos == callee_order[:len(pos)]
        ctx.check(ok, "DELEG", "Sequence.equals passes every ignore flag in the callee's order", function=se.qualname,
                  construct="ignore flags are not passed through in order", message=f"passed {pos}, callee expects {callee_order}", file=se.file, node=c)


def _kinds_by_flags(fi):
    """The list of compared message kinds as a function of (ignore_time_signature, ignore_key_signature): a literal list of
    MessageType members, then `if [not] flag: L.remove(M)` / `L.append(M)` statements at the top level.  None when the list is
    built some other way."""
    fn = fi.node
    lists = [s for s in fn.body if isinstance(s, ast.Assign) and len(s.targets) == 1 and isinstance(s.targets[0], ast.Name) and isinstance(s.value, ast.List)
             and s.value.elts and all(enum_member(e, "MessageType") for e in s.value.elts)]
    if len(lists) != 1:
        return None
    L = lists[0].targets[0].id
    out = {}
    for on in ((), ("ignore_time_signature",), ("ignore_key_signature",), ("ignore_time_signature", "ignore_key_signature")):
        cur = [enum_member(e, "MessageType") for e in lists[0].value.elts]
        for s_ in fn.body:
            if s_.lineno <= lists[0].lineno:
                continue
            muts = [c for c in ast.walk(s_) if isinstance(c, ast.Call) and isinstance(call_method(c)[0], ast.Name) and call_method(c)[0].id == L
                    and call_method(c)[1] in ("append", "remove", "extend", "insert", "pop", "clear", "sort", "reverse")]
            stores = [x for x in ast.walk(s_) if isinstance(x, ast.Name) and x.id == L and isinstance(x.ctx, (ast.Store, ast.Del))]
            if not muts and not stores:
                continue
            if stores or not isinstance(s_, ast.If) or s_.orelse or len(s_.body) != 1 or len(muts) != 1 or not (isinstance(s_.body[0], ast.Expr) and s_.body[0].value is muts[0]):
                return None
            t, neg = s_.test, False
            while isinstance(t, ast.UnaryOp) and isinstance(t.op, ast.Not):
                t, neg = t.operand, not neg
            m_ = enum_member(muts[0].args[0], "MessageType") if len(muts[0].args) == 1 else None
            if not (isinstance(t, ast.Name) and t.id.startswith("ignore_")) or m_ is None or call_method(muts[0])[1] not in ("append", "remove"):
                return None
            if (t.id in on) != neg:
                if call_method(muts[0])[1] == "append":
                    cur.append(m_)
                elif m_ in cur:
                    cur.remove(m_)
                else:
                    return None
        out[frozenset(on)] = set(cur)
    return out


def attributes_of(neutral: str) -> set[str]:
    out = set()
    if re.search(r"P\[0\]($|[^\[])", neutral) and "P[1]" not in neutral:
        out.add("channel")
    for a in ("note", "velocity", "numerator", "denominator", "key", "channel"):
        if re.search(r"\." + a + r"\b", neutral):
            out.add(a)
    if ".time" in neutral:
        out.add("time")
    return out


def time_form(neutral: str) -> tuple[int, int] | None:
    """Coefficients (onset, end) of a linear form over P[1][0].time and P[1][1].time; None if not purely such a form."""
    if ".time" not in neutral:
        return None
    a = b = 0
    terms = [t.strip() for t in neutral.split(" + ")]
    for t in terms:
        m = re.fullmatch(r"(?:(-?\d+)\*)?P\[1\]\[(\d)\]\.time", t)
        if not m:
            return None
        c = int(m.group(1)) if m.group(1) else 1
        if m.group(2) == "0":
            a += c
        elif m.group(2) == "1":
            b += c
        else:
            return None
    return (a, b)


def rank2(forms: list[tuple[int, int]]) -> int:
    forms = [f for f in forms if f != (0, 0)]
    if not forms:
        return 0
    for i in range(len(forms)):
        for j in range(i + 1, len(forms)):
            if forms[i][0] * forms[j][1] - forms[i][1] * forms[j][0] != 0:
                return 2
    return 1


def _nnf_leaves(e: ast.AST, neg: bool = False):
    """Leaves of the negation normal form of a test, as (leaf, negated?) pairs."""
    if isinstance(e, ast.UnaryOp) and isinstance(e.op, ast.Not):
        yield from _nnf_leaves(e.operand, not neg)
    elif isinstance(e, ast.BoolOp):
        for v in e.values:
            yield from _nnf_leaves(v, neg)
    else:
        yield e, neg


def _polarity(ctx):
    """RET: the only way to answer False is a detected mismatch, and no mismatch means True."""
    p = ctx.p
    fi = p.func(FN)
    fn = fi.node
    flags = [a for a in fi.params if a.startswith("ignore_")]
    rets = [r for r in walk_local(fn) if isinstance(r, ast.Return)]
    last = fn.body[-1]
    ctx.check(isinstance(last, ast.Return) and isinstance(last.value, ast.Constant) and last.value.value is True, "RET",
              f"{FN}: falls through to `return True` when no comparison failed", function=FN,
              construct="equals does not answer True when every comparison passed", message=short(last, 60), file=fi.file, node=last)
    others = [r for r in rets if r is not last]
    bad = [r for r in others if not (isinstance(r.value, ast.Constant) and r.value.value is False)]
    ctx.check(not bad, "RET", f"{FN}: the {len(others)} early returns all answer False", function=FN,
              construct="an early return of equals answers something other than False",
              message=f"{[f'line {r.lineno}: {short(r, 40)}' for r in bad]}: a detected difference must make the sequences unequal", file=fi.file,
              node=bad[0] if bad else fn)
    ctx.floor("early returns of equals", len(others), 6)
    for r in others:
        g = getattr(r, "_parent", None)
        if not isinstance(g, ast.If) or r not in g.body:
            ctx.check(False, "RET", f"{FN}: early return at line {r.lineno} is guarded by a mismatch test", function=FN,
                      construct="unguarded early return in equals", message=short(r), file=fi.file, node=r)
            continue
        wrong = []
        for leaf, neg in _nnf_leaves(g.test):
            if isinstance(leaf, ast.Compare) and len(leaf.ops) == 1 and isinstance(leaf.ops[0], (ast.Eq, ast.NotEq)):
                differs = isinstance(leaf.ops[0], ast.NotEq) != neg
                if not differs:
                    wrong.append(f"`{short(leaf, 50)}`{' (negated)' if neg else ''} holds when the two values are EQUAL")
            elif isinstance(leaf, ast.Call) and isinstance(leaf.func, ast.Name) and leaf.func.id == "isinstance":
                if not neg:
                    wrong.append(f"`{short(leaf, 50)}` rejects an operand of the right type")
            elif isinstance(leaf, ast.Name) and leaf.id in flags:
                if not neg:
                    wrong.append(f"flag `{leaf.id}` set makes the comparison count")
            else:
                wrong.append(f"unrecognised leaf `{short(leaf, 50)}`")
        ctx.check(not wrong, "RET", f"{FN}: `return False` under `{short(g.test, 70)}` fires on a difference", function=FN,
                  construct=f"a `return False` of equals is guarded by a test that holds for equal values",
                  message="; ".join(wrong), file=fi.file, node=g)
    # defaults: nothing is ignored unless asked for
    for q in (FN, "Sequence.equals"):
        f2 = p.func(q)
        ps = [a.arg for a in f2.node.args.args]
        dfl = dict(zip(ps[len(ps) - len(f2.node.args.defaults):], f2.node.args.defaults))
        for fl in [a for a in ps if a.startswith("ignore_")]:
            d = dfl.get(fl)
            ctx.check(isinstance(d, ast.Constant) and d.value is False, "RET", f"{q}: `{fl}` is off by default", function=q,
                      construct=f"ignore flag is on by default", message=f"`{fl}` defaults to {short(d) if d is not None else 'nothing'}: a plain equals()/== would overlook that attribute",
                      file=f2.file, node=f2.node)
    # the compared kinds and the two sides
    lists = [s for s in fn.body if isinstance(s, ast.Assign) and isinstance(s.value, ast.List) and s.value.elts
             and all(enum_member(e, "MessageType") for e in s.value.elts)]
    kinds = {enum_member(e, "MessageType") for s in lists for e in s.value.elts}
    bf = _kinds_by_flags(fi)
    if bf is not None:
        kinds = bf[frozenset()]             # what is compared when nothing is ignored
    ctx.check(kinds == {"NOTE_ON", "NOTE_OFF", "TIME_SIGNATURE", "KEY_SIGNATURE"}, "RET", f"{FN}: compared kinds {sorted(kinds)}", function=FN,
              construct="the list of compared message kinds is not {NOTE_ON, NOTE_OFF, TIME_SIGNATURE, KEY_SIGNATURE}",
              message=f"{sorted(kinds)}", file=fi.file, node=lists[0] if lists else fn)
    calls = [s for s in fn.body if isinstance(s, ast.Assign) and isinstance(s.value, ast.Call) and call_method(s.value)[1] == "get_interleaved_message_pairings"]
    recvs = sorted(src(call_method(s.value)[0]) for s in calls)
    same_args = len({ast.dump(ast.Tuple(elts=list(s.value.args) + [k.value for k in s.value.keywords], ctx=ast.Load())) for s in calls}) == 1
    ctx.check(len(calls) == 2 and recvs == sorted(["self", fi.params[1]]) and same_args, "RET",
              f"{FN}: the two sides are read through the same call with the same arguments ({recvs})", function=FN,
              construct="the two operands of equals are not read the same way", message=f"{[short(s, 90) for s in calls]}", file=fi.file,
              node=calls[0] if calls else fn)


def _extra(ctx):
    _polarity(ctx)
    from ..engines import keykind as _kk
    _kk.check_function(ctx, "AbsoluteSequence.get_message_pairings", "KEY", expect_min=2)
    from ..engines.pairing import check_pairings
    ctx.floor("pairing-table cases decided", check_pairings(ctx), 16)
    from ..engines.structure import interleave_rule
    interleave_rule(ctx)


def wrapper_rules(ctx: Ctx) -> None:
    """EQW: the two Sequence-level entry points of a comparison.  `Sequence.equals` answers False without looking exactly when the
    other object is not a Sequence, and otherwise returns what the absolute views' `equals` says for the same four flags;
    `Sequence.__eq__` does the same through `AbsoluteSequence.__eq__`, which is `equals` with no flag set."""
    from ..astutil import path_conditions
    p = ctx.p

    def guard_ok(fi, other):
        early = [r for r in walk_local(fi.node) if isinstance(r, ast.Return) and isinstance(r.value, ast.Constant)]
        ok = len(early) == 1 and early[0].value.value is False
        if ok:
            pcs = path_conditions(early[0])
            ok = len(pcs) == 1
            if ok:
                t, holds = pcs[0]
                neg = False
                while isinstance(t, ast.UnaryOp) and isinstance(t.op, ast.Not):
                    neg, t = not neg, t.operand
                ok = isinstance(t, ast.Call) and isinstance(t.func, ast.Name) and t.func.id == "isinstance" and len(t.args) == 2 \
                    and isinstance(t.args[0], ast.Name) and t.args[0].id == other and src(t.args[1]) == "Sequence" and (holds == neg)
        ctx.check(ok, "EQW", f"{fi.qualname}: answers False without comparing exactly when the other object is not a Sequence", function=fi.qualname,
                  construct=f"{fi.qualname} rejects (or accepts) without comparing under a condition other than `not isinstance(other, Sequence)`",
                  message=f"{[short(r) for r in early]}", file=fi.file, node=early[0] if early else fi.node)

    fe = p.functions.get("Sequence.equals")
    if fe is None:
        ctx.undetermined("EQW", "Sequence.equals", "not found: not judged")
    else:
        ctx.analysed(fe)
        other = fe.params[1]
        guard_ok(fe, other)
        rets = [r for r in walk_local(fe.node) if isinstance(r, ast.Return) and not isinstance(r.value, ast.Constant)]
        ok = len(rets) == 1 and isinstance(rets[0].value, ast.Call) and call_method(rets[0].value)[1] == "equals" \
            and attr_chain(call_method(rets[0].value)[0]) == ["self", "abs"] and not path_conditions(rets[0])
        if ok:
            c = rets[0].value
            tgt = p.func("AbsoluteSequence.equals")
            names = tgt.params[1:]
            bound = {}
            for i, a in enumerate(c.args):
                if i < len(names):
                    bound[names[i]] = src(a)
            for k in c.keywords:
                bound[k.arg] = src(k.value)
            want = {names[0]: f"{other}.abs"}
            for nm in names[1:]:
                want[nm] = nm if nm in fe.params else None
            ok = all(bound.get(k) == v for k, v in want.items() if v is not None) and set(fe.params[2:]) <= set(bound.values())
        ctx.check(ok, "EQW", "Sequence.equals returns abs.equals(other.abs, the same four flags)", function=fe.qualname,
                  construct="Sequence.equals does not hand the other sequence's absolute view and its own flags, each in its place, to AbsoluteSequence.equals",
                  message=f"{[short(r, 100) for r in rets]}", file=fe.file, node=rets[0] if rets else fe.node)
    fq = p.functions.get("Sequence.__eq__")
    if fq is not None:
        ctx.analysed(fq)
        other = fq.params[1]
        guard_ok(fq, other)
        rets = [r for r in walk_local(fq.node) if isinstance(r, ast.Return) and not isinstance(r.value, ast.Constant)]
        ok = len(rets) == 1 and not path_conditions(rets[0]) and src(rets[0].value) in (f"self.abs.__eq__({other}.abs)", f"self.abs == {other}.abs", f"{other}.abs == self.abs",
                                                                                         f"self.equals({other})", f"self.abs.equals({other}.abs)")
        ctx.check(ok, "EQW", "Sequence.__eq__ compares the absolute views", function=fq.qualname, construct="Sequence.__eq__ does not compare the two absolute views",
                  message=f"{[short(r) for r in rets]}", file=fq.file, node=rets[0] if rets else fq.node)
    fa = p.functions.get("AbsoluteSequence.__eq__")
    if fa is not None:
        ctx.analysed(fa)
        rets = [r for r in walk_local(fa.node) if isinstance(r, ast.Return)]
        ok = len(rets) == 1 and src(rets[0].value) == f"self.equals({fa.params[1]})"
        ctx.check(ok, "EQW", "AbsoluteSequence.__eq__ is equals with no flag set", function=fa.qualname, construct="AbsoluteSequence.__eq__ is not `self.equals(other)`",
                  message=f"{[short(r) for r in rets]}", file=fa.file, node=fa.node)


def check(ctx: Ctx) -> None:
    _main_check(ctx)
    wrapper_rules(ctx)
    from .common import view_deps
    view_deps(ctx)
