"""C15 -- merging sequences yields exactly the union of their music (structural clauses; weak)."""
from __future__ import annotations

import ast

from ..astutil import attr_chain, call_method, short, src, enum_member, ancestors
from ..model import walk_local, AnalysisError
from ..report import Ctx
from ..engines.effects import Effects
from ..engines.mustflow import MustFollow
from ..engines.typecase import TypeCase, events_matching



def order_rules(ctx: Ctx) -> None:
    """ORDER: the canonical sort of the absolute view -- key = (time, channel, message kind, pitch), ascending -- and the order of the
    message kinds it uses as a tie-breaker."""
    p = ctx.p
    # ORDER
    s = p.func("AbsoluteSequence.sort")
    ctx.analysed(s)
    call = next((c for c in walk_local(s.node) if isinstance(c, ast.Call) and call_method(c)[1] == "sort"), None)
    key = next((k.value for k in call.keywords if k.arg == "key"), None) if call else None
    if call is not None:
        # the sort runs on every call: "already ordered by time" is not "in canonical order" (simultaneous events are ordered by
        # channel, kind and pitch too, and the sorted insertion looks at the time only)
        from ..astutil import early_exits_before, ancestors as _anc
        st_ = call
        while not isinstance(st_, ast.stmt):
            st_ = st_._parent
        exits = [x for x in early_exits_before(s.node, st_) if isinstance(x, ast.Return)]
        cond = [a for a in _anc(call) if isinstance(a, (ast.If, ast.While, ast.For, ast.Try)) and a is not s.node]
        ctx.check(not exits and not cond, "ORDER", "AbsoluteSequence.sort: the canonical sort runs on every call", function=s.qualname,
                  construct="the canonical sort is skipped for some inputs",
                  message=f"`{short(exits[0]._parent if exits and hasattr(exits[0], '_parent') else (cond[0] if cond else None), 90)}`: a list that is ordered by time "
                          f"only keeps its simultaneous events in insertion order", file=s.file, node=exits[0] if exits else (cond[0] if cond else call))
    if isinstance(key, (ast.Name, ast.Attribute)):
        # a named key function of the class / module whose body is `return (<tuple>)`: the same thing as the lambda
        nm = key.id if isinstance(key, ast.Name) else key.attr
        kf = p.functions.get(f"{s.cls}.{nm}") or p.module_funcs.get(nm) if hasattr(p, "module_funcs") else p.functions.get(f"{s.cls}.{nm}")
        if kf is not None:
            body = [b for b in kf.node.body if not (isinstance(b, ast.Expr) and isinstance(b.value, ast.Constant) and isinstance(b.value.value, str))]
            params = [a for a in kf.node.args.args if a.arg not in ("self", "cls")]
            if len(body) == 1 and isinstance(body[0], ast.Return) and isinstance(body[0].value, ast.Tuple) and len(params) == 1:
                key = ast.copy_location(ast.Lambda(args=ast.arguments(posonlyargs=[], args=[params[0]], vararg=None, kwonlyargs=[], kw_defaults=[], kwarg=None, defaults=[]),
                                                   body=body[0].value), key)
                ctx.analysed(kf)
    if not isinstance(key, ast.Lambda) or not isinstance(key.body, ast.Tuple):
        ctx.undetermined("ORDER", "AbsoluteSequence.sort key", "sort key is not a lambda returning a tuple: not judged")
    else:
        v = key.args.args[0].arg
        elts = key.body.elts
        names = []
        for e in elts:
            attrs = [a.attr for a in ast.walk(e) if isinstance(a, ast.Attribute) and isinstance(a.value, ast.Name) and a.value.id == v]
            names.append(attrs[-1] if attrs else "?")
        ctx.check(names[:1] == ["time"] and attr_chain(elts[0]) == [v, "time"], "ORDER", f"sort key {names} starts with the time", function=s.qualname,
                  construct="canonical sort key does not lead with the event time", message=f"{names}", file=s.file, node=call)
        ctx.check("message_type" in names, "ORDER", f"sort key {names} orders equal-time events by message type", function=s.qualname,
                  construct="canonical sort key does not order by message type", message=f"{names}", file=s.file, node=call)
        ctx.check(not any(k.arg == "reverse" for k in call.keywords), "ORDER", "ascending sort", function=s.qualname,
                  construct="canonical sort is reversed", message="", file=s.file, node=call)
    from ..engines.structure import message_type_order_rule
    message_type_order_rule(ctx, "ORDER")

def check(ctx: Ctx) -> None:
    _check(ctx)
    # fusion of overlapping notes is done by normalise's nesting stacks: the same STACK rules as C07
    from .c07 import stack_rules, sig_rules, FN as NFN
    from .c05 import message_loop, output_list_name
    nfi = ctx.p.func(NFN)
    ctx.analysed(nfi)
    nloop = message_loop(nfi.node)
    stack_rules(ctx, nfi, nloop, output_list_name(nfi.node))
    # "every signature event that does not repeat the one in force is kept": the repetition filter of the same normaliser
    sig_rules(ctx, nfi, nloop, nloop.target.id)
    from ..engines.typestate import check_wrappers
    check_wrappers(ctx, ['merge'])


def _check(ctx: Ctx) -> None:
    p = ctx.p
    eff = Effects(p)
    ctx.explanation = (
        "Structural necessary conditions of C15: ALL AbsoluteSequence.merge appends every message of every input sequence "
        "(exactly one append per message on every path, no filter, no early exit) and then re-sorts on every exit; "
        "ORDER the canonical sort key is a tuple that starts with the time and contains the message type, and "
        "MessageType orders NOTE_OFF before NOTE_ON (so abutting notes of one pitch close before they re-open regardless of "
        "merge order); binary_insort inserts by time after equal times (stable); NORM Sequence.merge hands over the absolute view of "
        "every input, invalidates and normalises on every path; STACK the nesting stacks of normalise_relative that fuse overlapping "
        "notes count every note-on and uncount every note-off (same rules as C07). Not decided: union / fusion / duration equalities (value level).")
    ctx.assumptions += ["normalise (C07) fuses overlapping notes; conversions are value-correct"]

    q = "AbsoluteSequence.merge"
    fi = p.func(q)
    ctx.analysed(fi)
    seqs = fi.params[1]
    outer = next((n for n in fi.node.body if isinstance(n, ast.For) and isinstance(n.iter, ast.Name) and n.iter.id == seqs), None)
    # whatever the shape of the loops: the canonical re-sort is reached on every call (a fast path that inserts by time only and returns
    # leaves simultaneous events in arrival order -- the merge order shows in the result)
    from ..astutil import early_exits_before
    sorts = [st_ for st_ in fi.node.body if isinstance(st_, ast.Expr) and isinstance(st_.value, ast.Call) and attr_chain(st_.value.func) in (["self", "sort"], ["self", "normalise_absolute"])]
    if sorts:
        ex = [x for x in early_exits_before(fi.node, sorts[-1]) if isinstance(x, ast.Return)]
        ctx.check(not ex, "ALL", f"{q}: the canonical re-sort is reached on every call", function=q, construct="merge can return before the canonical re-sort",
                  message=f"`{short(ex[0]._parent if ex and hasattr(ex[0], '_parent') else None, 80)}`: on that path the merged events keep their arrival order at equal ticks",
                  file=fi.file, node=ex[0] if ex else fi.node)
    if outer is None:
        ctx.floor(f"{q}: loop over the input sequences", 0, 1)
        return
    inner = next((n for n in ast.walk(outer) if isinstance(n, ast.For) and n is not outer), None)
    if inner is None or not isinstance(inner.target, ast.Name):
        raise AnalysisError(f"{q}: loop over the messages of an input not found")
    # every input is visited: nothing governs the message loop inside the loop over the inputs (a guard clause `if …: continue`
    # is read as the condition it puts on the rest of the iteration)
    from ..astutil import guarded_conditions
    gov = guarded_conditions(inner, outer)
    ctx.check(not gov, "ALL", f"{q}: the messages of every input are visited", function=q, construct="merge can skip or stop at some input sequence",
              message=f"the message loop runs only when {[(short(t, 50), h) for t, h in gov]}", file=fi.file, node=inner)
    # the inner iterable is all messages of the current input sequence
    it = inner.iter
    ok_iter = False
    sv = outer.target.id if isinstance(outer.target, ast.Name) else None
    if attr_chain(it) == [sv, "_messages"]:
        ok_iter = True
    elif isinstance(it, ast.ListComp) and len(it.generators) == 1 and not it.generators[0].ifs and attr_chain(it.generators[0].iter) == [sv, "_messages"] \
            and isinstance(it.elt, ast.Name) and isinstance(it.generators[0].target, ast.Name) and it.elt.id == it.generators[0].target.id:
        ok_iter = True
    elif isinstance(it, ast.Call) and isinstance(it.func, ast.Name) and it.func.id in ("list", "tuple") and it.args and attr_chain(it.args[0]) == [sv, "_messages"]:
        ok_iter = True
    ctx.check(ok_iter, "ALL", f"{q}: iterates all messages of each input (`{short(it)}`)", function=q,
              construct="merge does not iterate the complete message list of each input", message=f"`{short(it)}`", file=fi.file, node=inner)
    for lp, what in ((outer, "input sequence"), (inner, "message")):
        tc = TypeCase(p, fi, {inner.target.id}, None)
        exits = tc.run_body(lp.body)
        kinds = {k for k, _ in exits}
        ctx.check(kinds == {"end"}, "ALL", f"{q}: no early exit while visiting each {what}", function=q,
                  construct=f"merge can skip or stop at some {what}", message=f"exits {sorted(kinds)}", file=fi.file, node=lp)
    tc = TypeCase(p, fi, {inner.target.id}, None)
    exits = tc.run_body(inner.body)
    rng = events_matching(exits, lambda e: e[0] == "append" and e[2] == "msg")
    ctx.check(rng == (1, 1), "ALL", f"{q}: each message appended exactly once {rng}", function=q,
              construct="merge does not append every input message exactly once", message=f"{rng}", file=fi.file, node=inner)
    # append target is self
    apps = [c for c in ast.walk(inner) if isinstance(c, ast.Call) and call_method(c)[1] in ("_add_message_unsorted", "add_message", "append")]
    ctx.check(all(attr_chain(call_method(c)[0]) in (["self"], ["self", "_messages"]) for c in apps) and bool(apps), "ALL",
              f"{q}: messages go into this sequence", function=q, construct="merge appends to something other than self", message="", file=fi.file, node=inner)

    def trig(n):
        return isinstance(n, ast.Expr) and isinstance(n.value, ast.Call) and call_method(n.value)[1] in ("_add_message_unsorted", "append") \
            and attr_chain(call_method(n.value)[0]) in (["self"], ["self", "_messages"])

    def disc(n):
        if isinstance(n, ast.Call):
            recv, name = call_method(n)
            if isinstance(recv, ast.Name) and recv.id == "self" and name and p.lookup_method("AbsoluteSequence", name):
                return any(w.kind == "sort" for w in eff.writes("AbsoluteSequence", name))
            if attr_chain(recv) == ["self", "_messages"] and name == "sort":
                return True
        return False
    bad = MustFollow(trig, disc).run(fi.node)
    ctx.check(not bad, "ALL", f"{q}: re-sorted after appending, on every exit", function=q,
              construct="merged messages are not re-sorted on every exit", message="", file=fi.file, node=bad[0][1] if bad else fi.node)

    order_rules(ctx)
    bi = p.func("binary_insort")
    ctx.analysed(bi)
    cmpn = [c for c in walk_local(bi.node) if isinstance(c, ast.Compare) and ".time" in src(c)]
    ok = len(cmpn) == 1 and isinstance(cmpn[0].ops[0], ast.Lt) and src(cmpn[0].left).startswith(bi.params[1] + ".")
    ctx.check(ok, "ORDER", "binary_insort inserts after equal times (`new.time < existing.time` goes left)", function=bi.qualname,
              construct="binary_insort does not keep insertion order among equal times", message=f"{[short(c) for c in cmpn]}", file=bi.file, node=bi.node)
    from ..engines.structure import bisect_rule
    ctx.floor("pieces of the sorted insertion decided", bisect_rule(ctx), 1)

    # NORM
    q = "Sequence.merge"
    fi = p.func(q)
    ctx.analysed(fi)
    seqs = fi.params[1]
    call = next((c for c in walk_local(fi.node) if isinstance(c, ast.Call) and call_method(c)[1] == "merge" and attr_chain(call_method(c)[0]) == ["self", "abs"]), None)
    ok = False
    if call is not None and call.args:
        a = call.args[0]
        ok = isinstance(a, ast.ListComp) and len(a.generators) == 1 and not a.generators[0].ifs and isinstance(a.generators[0].iter, ast.Name) \
            and a.generators[0].iter.id == seqs and isinstance(a.elt, ast.Attribute) and a.elt.attr == "abs" \
            and isinstance(a.elt.value, ast.Name) and isinstance(a.generators[0].target, ast.Name) and a.elt.value.id == a.generators[0].target.id
    ctx.check(ok, "NORM", f"{q}: hands the absolute view of every input to merge", function=q,
              construct="Sequence.merge does not pass all inputs' absolute views", message=short(call) if call else "", file=fi.file, node=call or fi.node)

    def trig2(n):
        return isinstance(n, ast.Expr) and isinstance(n.value, ast.Call) and call_method(n.value)[1] == "merge"

    def disc2(n):
        return isinstance(n, ast.Call) and call_method(n)[1] in ("normalise", "quantise_and_normalise") and attr_chain(call_method(n)[0]) == ["self"]
    bad = MustFollow(trig2, disc2).run(fi.node)
    ctx.check(not bad, "NORM", f"{q}: normalises after merging on every path", function=q,
              construct="merged sequence is not normalised on every path",
              message="overlapping notes of the same channel and pitch stay nested instead of being fused", file=fi.file, node=bad[0][1] if bad else fi.node)
