"""Cross-cutting obligations shared by the property modules."""
from __future__ import annotations

from ..report import Ctx

# Sequence-level operations each property's anchor code goes through (read off the call sites of the anchors).  For every one
# the typestate engine must show that, from each of the three valid freshness states, the operation leaves both views
# coherent (VIEW): a wrapper that forgets an invalidation makes the property false for the histories in which the other
# view was already materialised -- exactly the histories unit tests do not sample.
VIEW_DEPS = {
    "C01": ["set_channel", "merge", "get_interleaved_message_pairings", "add_absolute_message"],
    "C03": ["set_channel", "merge", "get_interleaved_message_pairings", "add_absolute_message", "concatenate"],
    "C09": ["split", "quantise_note_lengths", "get_message_times_of_type", "normalise", "pad", "overwrite_relative_messages", "add_relative_message",
            "messages_rel"],
    "C10": ["normalise", "pad", "overwrite_relative_messages", "add_relative_message", "messages_rel", "get_sequence_duration_relation", "copy"],
    "C12": ["add_absolute_message", "merge", "normalise", "get_message_times_of_type", "messages_rel"],
    "C13": ["add_absolute_message", "merge", "normalise", "get_message_times_of_type"],
    "C16": ["copy", "split", "merge", "concatenate"],
    "C17": ["equals", "copy", "add_absolute_message", "add_relative_message"],
}


def _normaliser_rules(ctx: Ctx) -> None:
    """The loader normalises every track, every merged group and the meta merge: the fusion / keep-skip table (STACK) and
    the signature filter (SIG) of normalise_relative decide what the loaded sequences sound like."""
    from .c07 import stack_rules, sig_rules, FN as NFN
    from .c05 import message_loop, output_list_name
    nfi = ctx.p.func(NFN)
    ctx.analysed(nfi)
    lp = message_loop(nfi.node)
    stack_rules(ctx, nfi, lp, output_list_name(nfi.node))
    sig_rules(ctx, nfi, lp, lp.target.id)


def _insertion_rules(ctx: Ctx) -> None:
    """The loader builds each sequence with add_absolute_message in file order and normalises it in the stored order: the
    position binary_insort chooses among equal ticks decides whether a note-off precedes the re-strike of its pitch."""
    from ..engines.structure import bisect_rule
    ctx.floor("pieces of the sorted insertion decided", bisect_rule(ctx), 1)


# further rule groups a property rests on although they live in another property's module
RULE_DEPS = {
    "C12": [_normaliser_rules, _insertion_rules],
    "C13": [_normaliser_rules, _insertion_rules],
}


def view_deps(ctx: Ctx) -> None:
    for f in RULE_DEPS.get(ctx.prop, []):
        f(ctx)
    from ..engines.typestate import TypestateEngine, check_wrappers
    names = VIEW_DEPS.get(ctx.prop)
    if not names:
        return
    eng = TypestateEngine(ctx.p, "Sequence")
    have = [n for n in names if n in eng.ci.methods]
    missing = [n for n in names if n not in eng.ci.methods]
    for n in missing:
        ctx.undetermined("VIEW", f"Sequence.{n}", "method not found: not judged")
    check_wrappers(ctx, have)
