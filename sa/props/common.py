"""Cross-cutting obligations shared by the property modules."""
from __future__ import annotations

from ..report import Ctx

# Sequence-level operations each property's anchor code goes through (read off the call sites of the anchors).  For every one
# the typestate engine must show that, from each of the three valid freshness states, the operation leaves both views
# coherent (VIEW): a wrapper that forgets an invalidation makes the property false for the histories in which the other
# view was already materialised -- exactly the histories unit tests do not sample.
VIEW_DEPS = {
    "C01": ["set_channel", "merge", "get_interleaved_message_pairings", "add_absolute_message"],
    "C03": ["set_channel", "merge", "get_interleaved_message_pairings", "add_absolute_message", "concatenate"],
    "C09": ["split", "quantise_note_lengths", "get_message_times_of_type", "normalise", "pad", "overwrite_relative_messages", "add_relative_message",
            "messages_rel"],
    "C10": ["normalise", "pad", "overwrite_relative_messages", "add_relative_message", "messages_rel", "get_sequence_duration_relation", "copy"],
    "C12": ["add_absolute_message", "merge", "normalise", "get_message_times_of_type", "messages_rel"],
    "C13": ["add_absolute_message", "merge", "normalise", "get_message_times_of_type"],
    "C16": ["copy", "split", "merge", "concatenate"],
    "C17": ["equals", "copy", "add_absolute_message", "add_relative_message"],
}


def view_deps(ctx: Ctx) -> None:
    from ..engines.typestate import TypestateEngine, check_wrappers
    names = VIEW_DEPS.get(ctx.prop)
    if not names:
        return
    eng = TypestateEngine(ctx.p, "Sequence")
    have = [n for n in names if n in eng.ci.methods]
    missing = [n for n in names if n not in eng.ci.methods]
    for n in missing:
        ctx.undetermined("VIEW", f"Sequence.{n}", "method not found: not judged")
    check_wrappers(ctx, have)
