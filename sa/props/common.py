"""Cross-cutting obligations shared by the property modules."""
from __future__ import annotations

from ..report import Ctx

# Sequence-level operations each property's anchor code goes through (read off the call sites of the anchors).  For every one
# the typestate engine must show that, from each of the three valid freshness states, the operation leaves both views
# coherent (VIEW): a wrapper that forgets an invalidation makes the property false for the histories in which the other
# view was already materialised -- exactly the histories unit tests do not sample.
VIEW_DEPS = {
    "C02": ["set_channel", "merge", "get_interleaved_message_pairings"],       # the TRACK field's domain rests on set_channel(i) being seen by the merge
    "C01": ["set_channel", "merge", "get_interleaved_message_pairings", "add_absolute_message"],
    "C03": ["set_channel", "merge", "get_interleaved_message_pairings", "add_absolute_message", "concatenate"],
    "C09": ["split", "quantise_note_lengths", "get_message_times_of_type", "normalise", "pad", "overwrite_relative_messages", "add_relative_message",
            "messages_rel"],
    "C10": ["normalise", "pad", "overwrite_relative_messages", "add_relative_message", "messages_rel", "get_sequence_duration_relation", "copy"],
    "C12": ["add_absolute_message", "merge", "normalise", "get_message_times_of_type", "messages_rel"],
    "C13": ["add_absolute_message", "merge", "normalise", "get_message_times_of_type"],
    "C16": ["copy", "split", "merge", "concatenate"],
    "C17": ["equals", "copy", "add_absolute_message", "add_relative_message"],
}


def _normaliser_rules(ctx: Ctx) -> None:
    """The loader normalises every track, every merged group and the meta merge: the fusion / keep-skip table (STACK) and
    the signature filter (SIG) of normalise_relative decide what the loaded sequences sound like."""
    from .c07 import stack_rules, sig_rules, FN as NFN
    from .c05 import message_loop, output_list_name
    nfi = ctx.p.func(NFN)
    ctx.analysed(nfi)
    lp = message_loop(nfi.node)
    stack_rules(ctx, nfi, lp, output_list_name(nfi.node))
    sig_rules(ctx, nfi, lp, lp.target.id)


def _insertion_rules(ctx: Ctx) -> None:
    """The loader builds each sequence with add_absolute_message in file order and normalises it in the stored order: the
    position binary_insort chooses among equal ticks decides whether a note-off precedes the re-strike of its pitch."""
    from ..engines.structure import bisect_rule
    ctx.floor("pieces of the sorted insertion decided", bisect_rule(ctx), 1)


# further rule groups a property rests on although they live in another property's module
def _load_entry_rules(ctx: Ctx) -> None:
    from .c13 import _entry
    _entry(ctx)


def _convert_rules(ctx: Ctx) -> None:
    """Loading a saved file goes through `MidiFile.convert`: what was written comes back only if every event of every track is
    routed, once and unconditionally, to its sequence with the running position as its time (C13's rules for `convert`)."""
    from . import c13
    expl, assumptions = ctx.explanation, list(ctx.assumptions)
    c13._main_check(ctx)
    c13._parse_path(ctx)
    ctx.explanation, ctx.assumptions = expl, assumptions


def _set_channel_rules(ctx: Ctx) -> None:
    """The TRACK field of every emitted token is below the track count because tokenise calls set_channel(i) on track i first:
    set_channel must reach every message (C18's rules for it)."""
    from . import c18
    c18._check(ctx, only={"set_channel"})


RULE_DEPS = {
    "C02": [_set_channel_rules],
    "C12": [_normaliser_rules, _insertion_rules, _load_entry_rules, _convert_rules],
    "C13": [_normaliser_rules, _insertion_rules],
}
# every operation property quantifies over sequences that callers build with add_absolute_message: the sorted insertion decides
# the order of simultaneous events in them (a note-off and the re-strike of its pitch on one tick), hence what the operation sees
for _p in ("C05", "C06", "C07", "C08", "C09", "C10", "C14", "C17", "C18"):
    RULE_DEPS.setdefault(_p, []).append(_insertion_rules)


def _equality_rules(ctx: Ctx) -> None:
    """`a copy equals its original` is stated in terms of the library's own equality: the rules of `equals` (C17) decide what that means."""
    from . import c17
    c17._main_check(ctx)
    c17.wrapper_rules(ctx)


for _p in ("C10", "C16"):
    RULE_DEPS.setdefault(_p, []).append(_equality_rules)


# operations whose whole effect happens in one pass over the messages: the pass must be reached on every call
# (an early `return` taken from a guess about the first message silently turns the operation into a no-op for some inputs;
# raising on invalid arguments is not an early return)
REACH = {
    "RelativeSequence.transpose": "the shift of every note",
    "RelativeSequence.normalise_relative": "the normalisation pass",
    "RelativeSequence.pad": "the length measurement",
    "RelativeSequence.concatenate": "the appending of the given sequences",
    "AbsoluteSequence.quantise": "the quantisation pass",
    "AbsoluteSequence.to_relative_sequence": "the conversion pass",
    "RelativeSequence.to_absolute_sequence": "the conversion pass",
    "RelativeSequence.get_sequence_duration_relation": "the duration sum",
    "AbsoluteSequence.get_message_pairings": "the pairing pass",
    "AbsoluteSequence.get_message_times_of_type": "the collection pass",
    "AbsoluteSequence.quantise_note_lengths": "the per-note fitting pass",
    "AbsoluteSequence.cutoff": "the per-note length test",
    "AbsoluteSequence.merge": "the merging of every input",
    "RelativeSequence.split": "the splitting pass",
    "RelativeSequence.set_channel": "the channel assignment",
}


def reach_rule(ctx: Ctx, functions) -> None:
    import ast
    from ..astutil import early_exits_before, path_conditions, short, src
    for q in sorted(functions):
        what = REACH.get(q)
        fi = ctx.p.functions.get(q)
        if what is None or fi is None:
            continue
        loops = [n for n in fi.node.body if isinstance(n, (ast.For, ast.While))
                 or (isinstance(n, ast.Assign) and isinstance(n.value, ast.ListComp))]
        main = next((n for n in loops if "_messages" in src(n.iter if isinstance(n, ast.For) else n) or isinstance(n, ast.For) and src(n.iter) in fi.params), None) \
            or (loops[0] if loops else None)
        if main is None:
            ctx.undetermined("REACH", f"{q}: {what}", "no top-level pass found: not judged")
            continue
        ex = [x for x in early_exits_before(fi.node, main) if isinstance(x, ast.Return)]
        ctx.check(not ex, "REACH", f"{q}: {what} is reached on every call", function=q,
                  construct=f"{q.split('.')[-1]} can return before {what}",
                  message=f"`{short(ex[0]._parent if ex and hasattr(ex[0], '_parent') else (ex[0] if ex else None), 80)}`: for the inputs that take this exit the operation does nothing",
                  file=fi.file, node=ex[0] if ex else main)


def view_deps(ctx: Ctx) -> None:
    if not ctx.extra.get("_rule_deps_done"):
        ctx.extra["_rule_deps_done"] = True
        for f in RULE_DEPS.get(ctx.prop, []):
            f(ctx)
    from ..engines.typestate import TypestateEngine, check_wrappers
    names = VIEW_DEPS.get(ctx.prop)
    if not names:
        return
    eng = TypestateEngine(ctx.p, "Sequence")
    have = [n for n in names if n in eng.ci.methods]
    missing = [n for n in names if n not in eng.ci.methods]
    for n in missing:
        ctx.undetermined("VIEW", f"Sequence.{n}", "method not found: not judged")
    check_wrappers(ctx, have)


# ---------------------------------------------------------------------------------------------------- dependency closure
_CG: dict[int, dict[str, set[str]]] = {}


def call_graph(ctx: Ctx) -> dict[str, set[str]]:
    """Type-resolved call graph (from the numeric-kind engine's receiver resolution) plus property reads."""
    import ast
    key = id(ctx.p)
    if key in _CG:
        return _CG[key]
    from ..engines.kinds import KindEngine
    eng = KindEngine(ctx.p)
    eng.solve()
    g = {k: set(v) for k, v in eng.edges.items()}
    props = {}
    for fi in ctx.p.all_functions():
        if fi.cls and any(isinstance(d, ast.Name) and d.id == "property" for d in fi.node.decorator_list):
            props.setdefault(fi.name, []).append(fi.qualname)
    for fi in ctx.p.all_functions():
        for n in ast.walk(fi.node):
            if isinstance(n, ast.Attribute) and n.attr in props:
                g.setdefault(fi.qualname, set()).update(props[n.attr])
        if fi.parent_func is not None:                       # a nested function belongs to its parent
            g.setdefault(fi.parent_func.qualname if hasattr(fi.parent_func, "qualname") else str(fi.parent_func), set()).add(fi.qualname)
    _CG.clear()
    _CG[key] = g
    return g


def reachable(ctx: Ctx, roots, stop=()) -> set[str]:
    g = call_graph(ctx)
    seen, todo = set(), list(roots)
    while todo:
        q = todo.pop()
        if q in seen or q in stop:
            continue
        seen.add(q)
        todo.extend(g.get(q, ()))
    return seen


# ---------------------------------------------------------------------------------------------------- rule registry
def _r_normalise(c):
    from . import c07
    c07._check(c)


def _r_split(c):
    from .c08 import split_rules
    # Q1 (deferred events at the very end of the input, a known finding of C08) concerns zero-time events sitting exactly on the
    # final boundary; it does not affect what the dependants state (sounding sets, bar durations), so it stays C08's own rule
    split_rules(c, {"KEY", "CUT", "RESTRIKE", "COUNT", "PLACE", "DEST", "PIECE", "FLOW"})


def _r_quantise(c):
    from . import c05
    c05._check(c)


def _r_qnl(c):
    from . import c06
    c06._check(c)


def _r_pairings(c):
    from ..engines.pairing import check_pairings
    from ..engines import keykind
    keykind.check_function(c, "AbsoluteSequence.get_message_pairings", "KEY", expect_min=2)
    check_pairings(c)


def _r_interleave(c):
    from ..engines.structure import interleave_rule
    interleave_rule(c)


def _r_bisect(c):
    from ..engines.structure import bisect_rule
    bisect_rule(c)


def _r_argmin(c):
    from ..engines.structure import argmin_rule
    argmin_rule(c)


def _r_conv(c):
    from ..engines.structure import conversion_structure
    conversion_structure(c)


def _r_c18(which):
    def run(c):
        from . import c18
        c18._check(c, only={which})
    return run


def _r_bar(c):
    from .c10 import bar_rules
    bar_rules(c)


def _r_merge(c):
    from . import c15
    c15._check(c)


def _r_transpose(c):
    from . import c14
    c14._check(c)


def _r_times(c):
    from ..engines.structure import times_of_type_rule
    times_of_type_rule(c)


def _r_concat(c):
    from ..engines.structure import concat_rule
    concat_rule(c)


def _r_duration(c):
    from .c10 import duration_measure
    duration_measure(c)


def _r_equals(c):
    from . import c17
    c17._check(c)
    c17._extra(c)


def _r_bars(c):
    from . import c09
    c09._main_check(c)


def _r_tables(c):
    from . import c20
    c20.check(c)


# function -> (the rule group that decides it, label).  A property whose code reaches the function rests on the group.
def _r_sort(c):
    from .c15 import order_rules
    order_rules(c)


REGISTRY = {
    "AbsoluteSequence.sort": (_r_sort, "canonical sort (ORDER)"),
    "RelativeSequence.normalise_relative": (_r_normalise, "normaliser (C07 rules)"),
    "RelativeSequence.split": (_r_split, "split (C08 rules)"),
    "AbsoluteSequence.quantise": (_r_quantise, "quantise (C05 rules)"),
    "AbsoluteSequence.quantise_note_lengths": (_r_qnl, "note-length quantisation (C06 rules)"),
    "AbsoluteSequence.get_message_pairings": (_r_pairings, "pairing table (PAIR)"),
    "AbsoluteSequence.get_interleaved_message_pairings": (_r_interleave, "interleaving (INTERLEAVE)"),
    "binary_insort": (_r_bisect, "sorted insertion (BISECT)"),
    "find_minimal_distance": (_r_argmin, "nearest candidate (ARGMIN)"),
    "AbsoluteSequence.to_relative_sequence": (_r_conv, "view conversions (CONV)"),
    "RelativeSequence.to_absolute_sequence": (_r_conv, "view conversions (CONV)"),
    "RelativeSequence.pad": (_r_c18("pad"), "pad (C18 rules)"),
    "AbsoluteSequence.cutoff": (_r_c18("cutoff"), "cutoff (C18 rules)"),
    "RelativeSequence.set_channel": (_r_c18("set_channel"), "set_channel (C18 rules)"),
    "Bar.__init__": (_r_bar, "bar construction (C10 rules)"),
    "AbsoluteSequence.merge": (_r_merge, "merge (C15 rules)"),
    "RelativeSequence.transpose": (_r_transpose, "transposition (C14 rules)"),
    "AbsoluteSequence.get_message_times_of_type": (_r_times, "signature look-up helper (TIMES)"),
    "RelativeSequence.concatenate": (_r_concat, "concatenation (CONCAT)"),
    "RelativeSequence.get_sequence_duration_relation": (_r_duration, "duration in quarters (MEASURE)"),
    "AbsoluteSequence.equals": (_r_equals, "equality (C17 rules)"),
    "Sequence.sequences_split_bars": (_r_bars, "bar splitting (C09 rules)"),
    "Key.transpose_key": (_r_tables, "key tables (C20 rules)"),
}

# properties whose statement is about one operation or pipeline (closure meaningful); C02 / C04 / C11 / C16 / C20 are
# whole-class or whole-program analyses already
CLOSURE_PROPS = {"C01", "C03", "C05", "C06", "C07", "C08", "C09", "C10", "C12", "C13", "C14", "C15", "C17", "C18", "C19"}


# call edges outside the scope of a property's statement (C18 speaks about integer factors >= 1; the factor < 1 path of scale
# re-bars the sequence)
STOP = {"C18": {"Sequence.sequences_split_bars"}}


def dependency_closure(ctx: Ctx) -> None:
    """DEP: every routine the property's own code reaches (type-resolved call graph from the functions the check looked at)
    that is decided by a rule group of its own contributes that group's obligations; Sequence-level wrappers on the way
    contribute VIEW obligations.  A break in a routine the property rests on is a break of the property."""
    from ..model import AnalysisError
    from ..engines.typestate import TypestateEngine, check_wrappers
    full = ctx.prop in CLOSURE_PROPS
    roots = sorted(ctx.analysed_functions)
    reach = reachable(ctx, roots, STOP.get(ctx.prop, set()))
    have = {(o.rule, o.instance) for o in ctx.obligations}
    keys = {f.key for f in ctx.findings}
    done = set()
    ran = []
    # a registered routine that was moved to a base class is found under the name it has there
    registry = dict(REGISTRY)
    for key, ent_ in REGISTRY.items():
        if key not in ctx.p.functions and "." in key:
            c_, _, m_ = key.partition(".")
            fi_ = ctx.p.lookup_method(c_, m_) if c_ in ctx.p.classes else None
            if fi_ is not None:
                registry.setdefault(fi_.qualname, ent_)
    for q in sorted(reach):
        ent = registry.get(q) if full else None       # whole-class / whole-program properties only get the generic hazard rules
        if ent is None or id(ent[0]) in done:
            continue
        done.add(id(ent[0]))
        sub = Ctx(ctx.p, ctx.prop, ctx.tier)
        try:
            ent[0](sub)
        except AnalysisError as e:
            ctx.undetermined("DEP", f"{ent[1]} (reached through {q})", f"its analysis could not be completed: {str(e)[:120]}")
            continue
        ran.append(ent[1])
        for o in sub.obligations:
            if (o.rule, o.instance) not in have:
                have.add((o.rule, o.instance))
                ctx.obligations.append(o)
        for f in sub.findings:
            if f.key not in keys:
                keys.add(f.key)
                ctx.findings.append(f)
        ctx.analysed_functions |= sub.analysed_functions
    # generic hazards in everything reached: mutation of an iterated container, of a shared class-level table
    from ..engines.structure import iter_mutation_rule
    sub = Ctx(ctx.p, ctx.prop, ctx.tier)
    iter_mutation_rule(sub, reach | set(roots))
    from ..engines.structure import mutable_default_rule
    from ..engines.tables import check_tables_immutable
    mutable_default_rule(sub, reach | set(roots))
    from ..engines.structure import lazy_state_rule
    lazy_state_rule(sub, {fi.qualname for fi in ctx.p.all_functions()})      # object state anywhere in the library
    reach_rule(sub, reach | set(roots))
    from ..engines.structure import misc_hazard_rules
    misc_hazard_rules(sub, reach | set(roots))
    check_tables_immutable(sub, "IMMUT")
    from ..engines.structure import process_state_rule, undefined_name_rule, derived_state_rule
    process_state_rule(sub, "MEMO")
    derived_state_rule(sub, "DERIVED")
    undefined_name_rule(sub, reach | set(roots))
    from ..engines.structure import param_rebind_rule, identity_rule
    param_rebind_rule(sub, reach | set(roots))
    identity_rule(sub, reach | set(roots))
    from ..engines.structure import default_channel_rule
    default_channel_rule(sub, reach | set(roots))
    for o in sub.obligations:
        ctx.obligations.append(o)
    for f in sub.findings:
        if f.key not in keys:
            keys.add(f.key)
            ctx.findings.append(f)
    if not full:
        ctx.extra["dependency_closure"] = {"roots": roots, "reached_functions": len(reach), "rule_groups_included": [], "view_wrappers": [],
                                           "generic_hazard_rules": HAZARD_RULES}
        return
    eng = TypestateEngine(ctx.p, "Sequence")
    # the two-view discipline is the class invariant that makes "a sequence" well defined: an operation property quantifies over every
    # sequence a history of public operations can produce, so *every* public operation of Sequence must leave both views coherent -- a
    # wrapper that forgets an invalidation (Sequence.quantise, say) hands the operation under test an object whose views disagree
    wrappers = sorted(m for m, mfi in eng.ci.methods.items() if not m.startswith("_") and not mfi.is_static and not mfi.is_property
                      and m not in ("abs", "rel", "invalidate_abs", "invalidate_rel", "refresh"))
    sub = Ctx(ctx.p, ctx.prop, ctx.tier)
    check_wrappers(sub, wrappers)
    for o in sub.obligations:
        if (o.rule, o.instance) not in have:
            have.add((o.rule, o.instance))
            ctx.obligations.append(o)
    for f in sub.findings:
        if f.key not in keys:
            keys.add(f.key)
            ctx.findings.append(f)
    ctx.extra["dependency_closure"] = {"roots": roots, "reached_functions": len(reach), "rule_groups_included": ran, "view_wrappers": wrappers,
                                       "generic_hazard_rules": HAZARD_RULES}


HAZARD_RULES = ["ITERMUT", "MUTDEFAULT", "IMMUT", "LAZY", "REACH", "TRUTHY", "OBJTRUTH", "NONETRUTH", "EXCEPT", "SETORDER", "CLASSATTR", "MEMO", "DERIVED", "UNDEF", "REBIND", "IDENT", "DEFCHAN"]


def run_property(ctx: Ctx) -> None:
    """The property's own rules, then the rule groups of everything its code rests on."""
    import importlib
    mod = importlib.import_module(f"sa.props.{ctx.prop.lower()}")
    mod.check(ctx)
    if not ctx.extra.get("_rule_deps_done"):          # properties whose module does not call view_deps itself
        ctx.extra["_rule_deps_done"] = True
        for f in RULE_DEPS.get(ctx.prop, []):
            f(ctx)
    dependency_closure(ctx)
