"""C16 -- copies and derived sequences are independent values (ownership analysis)."""
from __future__ import annotations

import ast

from ..astutil import attr_chain, call_method, short, names_in
from ..model import walk_local, AnalysisError
from ..report import Ctx
from ..engines import ownership


def _main_check(ctx: Ctx) -> None:
    ctx.explanation = (
        "Ownership analysis: OWN1 every derivation route (Message/sequence/Sequence/Bar/Track/Composition copy, "
        "RelativeSequence.split, Sequence.split, sequences_split_bars, the two view conversions) returns only objects "
        "created by the call -- no message object or list of the source is reachable from the result (taint analysis "
        "with FRESH/DERIVED summaries to a fixpoint over the call graph, scalars recognised through the numeric-kind "
        "engine); OWN2 each copy routine hands every constructor parameter that the class stores to the new object, "
        "derived from the same attribute; OWN3 message fields only ever receive immutable scalars, so the field-wise "
        "Message.copy is deep. Independence of later operations follows because all writes go through `self`.")
    ctx.assumptions += [
        "enum members, ints, strings and None are immutable (sharing them cannot make two objects interfere)",
        "caller-supplied scalar arguments are scalars (hypothesis 'arg' of the numeric-kind engine)",
    ]
    eng = ownership.engine_for(ctx)
    ctx.counters["ownership_fixpoint_rounds"] = eng.rounds
    ownership.check_routes(ctx, "OWN1")
    ctx.floor("derivation routes", len(ownership.ROUTES), 11)
    own2(ctx, eng)
    own3(ctx, eng)
    adopt_rule(ctx, eng)


def adopt_rule(ctx: Ctx, eng) -> None:
    """ADOPT: an operation that takes other sequences in (`concatenate`, `merge`) does not leave *their* message objects in a view
    of the receiver that stays in use.  Either the view-level method copies what it takes, or the Sequence wrapper leaves the
    adopting view stale on every exit -- it is then rebuilt from the other view, which the copying conversion (OWN1) derived from
    it.  Otherwise `c = o.copy(); c.concatenate([o]); c.transpose(2)` transposes `o`'s own messages: the copy and its original
    are no longer independent, and the original's two views disagree."""
    from ..engines.typestate import TypestateEngine, PRE_STATES, S
    p = ctx.p
    ts = TypestateEngine(p, "Sequence")
    n = 0
    for w in ("concatenate", "merge"):
        fi = ts.ci.methods.get(w)
        if fi is None:
            ctx.undetermined("ADOPT", f"Sequence.{w}", "method not found: not judged")
            continue
        ctx.analysed(fi)
        calls = [c for c in walk_local(fi.node) if isinstance(c, ast.Call) and call_method(c)[0] is not None
                 and attr_chain(call_method(c)[0]) in (["self", "abs"], ["self", "rel"])]
        adopting = []
        for c in calls:
            view = attr_chain(call_method(c)[0])[1]
            m = p.lookup_method(ts.view_class[view], call_method(c)[1])
            if m is None:
                continue
            ctx.analysed(m)
            got = ownership.adopted_foreign(eng, m)
            n += 1
            if got:
                adopting.append((view, m, got))
            else:
                ctx.ok("ADOPT", f"{m.qualname}: takes no message object of its arguments into the receiver (copies, or takes nothing)")
        for view, m, got in adopting:
            bad = []
            for pname, pre in PRE_STATES.items():
                exits, problems, _ = ts.analyse_method(w, pre)
                for node, wld, how in exits:
                    if how == "raise":
                        continue
                    flag = wld.fa if view == "abs" else wld.fr
                    if flag != S:
                        bad.append(pname)
            ctx.check(not bad, "ADOPT", f"Sequence.{w}: the {view} view, which `{m.qualname}` fills with the arguments' own message objects, is left stale on every exit",
                      function=fi.qualname, construct=f"Sequence.{w} keeps message objects of its arguments in its own {view} view",
                      message=f"`{short(got[0][0], 70)}` stores {got[0][1]} without copying and Sequence.{w} leaves that view in use (from [{', '.join(sorted(set(bad)))}]): "
                              f"a later in-place operation on the receiver (transpose, set_channel, quantise ...) changes the argument sequences as well",
                      file=m.file, node=got[0][0])
    ctx.floor("sequence-taking operations inspected", n, 2)


def stored_params(ctx: Ctx, cls: str) -> dict[str, str]:
    """param -> attribute, for `self.attr = param` (possibly annotated) in cls.__init__."""
    init = ctx.p.lookup_method(cls, "__init__")
    out = {}
    if init is None:
        return out
    params = init.params[1:]
    for n in walk_local(init.node):
        tg, val = None, None
        if isinstance(n, ast.Assign) and len(n.targets) == 1:
            tg, val = n.targets[0], n.value
        elif isinstance(n, ast.AnnAssign) and n.value is not None:
            tg, val = n.target, n.value
        if tg is None:
            continue
        ch = attr_chain(tg)
        if ch and len(ch) == 2 and ch[0] == "self" and isinstance(val, ast.Name) and val.id in params:
            out.setdefault(val.id, ch[1])
    return out


def own2(ctx: Ctx, eng) -> None:
    p = ctx.p
    n_fields = 0
    # (a) classes with a copy() that rebuilds the object through its constructor
    for cls in ("Message", "Bar", "Track", "Composition", "Sequence", "AbstractSequence"):
        ci = p.cls(cls)
        cp = ci.methods.get("copy")
        if cp is None:
            raise AnalysisError(f"{cls}.copy not found")
        ctx.analysed(cp)
        ctor = None
        for c in walk_local(cp.node):
            if isinstance(c, ast.Call):
                ch = attr_chain(c.func)
                if (ch and ch[-1] == "__class__") or (isinstance(c.func, ast.Name) and c.func.id == cls):
                    ctor = c
        if ctor is None:
            ctx.violation("OWN2", f"{cls}.copy", function=cp.qualname, construct="copy() does not rebuild the object through its constructor",
                          message="copy routine could not be matched to a constructor call", file=cp.file, node=cp.node)
            continue
        init = p.lookup_method(cls, "__init__")
        params = init.params[1:]
        sp = stored_params(ctx, cls)
        if cls == "Sequence":
            sp = {params[0]: "_abs", params[1]: "_rel"}
        if cls == "AbstractSequence":
            sp = {"messages": "_messages"}
        supplied: dict[str, ast.expr] = {}
        for i, a in enumerate(ctor.args):
            if i < len(params):
                supplied[params[i]] = a
        for kw in ctor.keywords:
            if kw.arg:
                supplied[kw.arg] = kw.value
        if any(kw.arg is None for kw in ctor.keywords) or any(isinstance(a, ast.Starred) for a in ctor.args):
            ctx.undetermined("OWN2", f"{cls}.copy: field coverage", "the constructor is called with * / ** arguments: which fields are supplied is decided at run time, not judged")
            continue
        for prm, attr in sp.items():
            n_fields += 1
            inst = f"{cls}.copy: field {attr}"
            e = supplied.get(prm)
            if e is None:
                ctx.violation("OWN2", inst, function=cp.qualname, construct=f"constructor parameter `{prm}` not supplied by copy()",
                              message=f"{cls}.copy() drops `{attr}`: the copy gets the default instead of the original's value",
                              file=cp.file, node=ctor)
                continue
            # the supplied expression must be derived from self.<attr> (directly, via a local, or via the accessor of it)
            if _mentions_attr(cp.node, e, attr, cls):
                ctx.ok("OWN2", inst, f"supplied as `{short(e, 50)}`")
            else:
                ctx.violation("OWN2", inst, function=cp.qualname,
                              construct=f"constructor parameter `{prm}` supplied from something other than self.{attr}",
                              message=f"{cls}.copy() passes `{short(e, 50)}` for `{prm}`; expected a value derived from self.{attr}",
                              file=cp.file, node=e)
    # (b) the other field-wise message converters
    msg_fields = eng.msg_fields
    for q, src_name in (("ReadOnlyMessage.__init__", None), ("MidiMessage.parse_internal_message", None)):
        fi = p.func(q)
        ctx.analysed(fi)
        src_param = fi.params[1] if fi.cls and not fi.is_static else fi.params[0]
        call = None
        for c in walk_local(fi.node):
            if isinstance(c, ast.Call) and len(c.keywords) >= 5:
                call = c
        if call is None:
            raise AnalysisError(f"{q}: field-wise constructor call not found")
        kws = {k.arg: k.value for k in call.keywords}
        for f in msg_fields:
            n_fields += 1
            inst = f"{q}: field {f}"
            e = kws.get(f)
            if e is None:
                ctx.violation("OWN2", inst, function=q, construct=f"field `{f}` not passed on",
                              message=f"{q} drops message field `{f}`", file=fi.file, node=call)
            elif attr_chain(e) == [src_param, f]:
                ctx.ok("OWN2", inst)
            else:
                ctx.violation("OWN2", inst, function=q, construct=f"field `{f}` filled from `{short(e, 40)}`",
                              message=f"{q} fills `{f}` from `{short(e, 40)}` instead of {src_param}.{f}", file=fi.file, node=e)
    ctx.floor("copy-constructor fields", n_fields, 10 * 3 + 8)


def _mentions_attr(fn: ast.FunctionDef, e: ast.expr, attr: str, cls: str) -> bool:
    accessor = {"_abs": "abs", "_rel": "rel"}.get(attr)

    def direct(x: ast.AST) -> bool:
        for n in ast.walk(x):
            ch = attr_chain(n) if isinstance(n, ast.Attribute) else None
            if ch and len(ch) >= 2 and ch[0] == "self" and (ch[1] == attr or ch[1] == accessor):
                return True
        return False
    if direct(e):
        return True
    # through locals: every assignment to a local used in e must itself derive from self.attr (or be None)
    for nm in names_in(e):
        defs = [n for n in walk_local(fn) if isinstance(n, ast.Assign) and any(isinstance(t, ast.Name) and t.id == nm for t in n.targets)]
        non_none = [d for d in defs if not (isinstance(d.value, ast.Constant) and d.value.value is None)]
        if non_none and all(direct(d.value) for d in non_none):
            return True
    return False


def own3(ctx: Ctx, eng) -> None:
    """Message fields never receive a mutable container."""
    p = ctx.p
    fields = set(eng.msg_fields)
    n = 0
    for fi in p.all_functions():
        for s in walk_local(fi.node):
            tg, val = [], None
            if isinstance(s, ast.Assign):
                tg, val = s.targets, s.value
            elif isinstance(s, ast.AugAssign):
                tg, val = [s.target], s.value
            for t in tg:
                if isinstance(t, ast.Attribute) and t.attr in fields and not (fi.cls and fi.cls not in ("Message", "ReadOnlyMessage", "MidiMessage") and attr_chain(t) and attr_chain(t)[0] == "self"):
                    n += 1
                    if isinstance(val, (ast.List, ast.Dict, ast.Set, ast.ListComp, ast.DictComp, ast.SetComp)) or \
                            (isinstance(val, ast.Call) and isinstance(val.func, ast.Name) and val.func.id in ("list", "dict", "set")):
                        ctx.violation("OWN3", f"{fi.qualname}: {short(s, 60)}", function=fi.qualname,
                                      construct=f"message field `{t.attr}` assigned a mutable container",
                                      message="a mutable value in a message field would be shared by Message.copy()",
                                      file=fi.file, node=s)
                    else:
                        ctx.ok("OWN3", f"{fi.qualname}: {short(s, 60)}")
    ctx.floor("message field stores", n, 15)


def check(ctx: Ctx) -> None:
    _main_check(ctx)
    from .common import view_deps
    view_deps(ctx)
