"""C18 -- pad, cut-off, integer scaling and channel assignment do exactly what they say (frame conditions)."""
from __future__ import annotations

import ast

from ..astutil import attr_chain, call_method, short, src, enum_member, kwarg, ancestors
from ..linear import Normaliser, Sym
from ..model import walk_local, AnalysisError
from ..report import Ctx
from ..engines.effects import Effects
from ..engines.typecase import TypeCase, events_matching
from ..engines import units
from ..engines.units import UnitAnalysis, show, TICK
from .c05 import message_loop


def passes_through(ctx: Ctx, wrapper: str, callee_name: str, view: str) -> None:
    """Sequence.<op>(params) calls self.<view>.<op>(same params)."""
    p = ctx.p
    fi = p.func(wrapper)
    ctx.analysed(fi)
    call = next((c for c in walk_local(fi.node) if isinstance(c, ast.Call) and call_method(c)[1] == callee_name
                 and attr_chain(call_method(c)[0]) == ["self", view]), None)
    if call is None:
        ctx.violation("DELEG", f"{wrapper} delegates to self.{view}.{callee_name}", function=wrapper,
                      construct=f"{wrapper} does not call self.{view}.{callee_name}", message="", file=fi.file, node=fi.node)
        return
    target = p.lookup_method({"abs": "AbsoluteSequence", "rel": "RelativeSequence"}[view], callee_name)
    tparams = target.params[1:]
    bound = {}
    for i, a in enumerate(call.args):
        if i < len(tparams):
            bound[tparams[i]] = a
    for k in call.keywords:
        bound[k.arg] = k.value
    own = fi.params[1:]
    ok = True
    detail = []
    for tp in tparams:
        if tp in own:
            e = bound.get(tp)
            good = isinstance(e, ast.Name) and e.id == tp
            detail.append(f"{tp}<-{short(e) if e is not None else 'default'}")
            ok = ok and good
    ctx.check(ok, "DELEG", f"{wrapper} passes its arguments through unchanged ({', '.join(detail)})", function=wrapper,
              construct=f"{wrapper} alters or drops an argument when delegating", message=", ".join(detail), file=fi.file, node=call)



def _selects(test: ast.AST, var: str, T: str):
    """Does `test` (a comparison of `var.message_type` with enum members) hold for a message of type T?  None if not of that form."""
    if isinstance(test, ast.Compare) and len(test.ops) == 1 and src(test.left) == f"{var}.message_type":
        m = enum_member(test.comparators[0], "MessageType")
        if m is not None and isinstance(test.ops[0], (ast.Eq, ast.Is)):
            return m == T
        if m is not None and isinstance(test.ops[0], (ast.NotEq, ast.IsNot)):
            return m != T
        if isinstance(test.ops[0], (ast.In, ast.NotIn)) and isinstance(test.comparators[0], (ast.Tuple, ast.List, ast.Set)):
            ms = [enum_member(e, "MessageType") for e in test.comparators[0].elts]
            if all(x is not None for x in ms):
                return (T in ms) == isinstance(test.ops[0], ast.In)
    return None

def check(ctx: Ctx) -> None:
    _check(ctx)
    from ..engines.typestate import check_wrappers
    check_wrappers(ctx, ['pad', 'cutoff', 'scale', 'set_channel'])
    from ..engines.pairing import check_pairings     # cutoff reads notes through the pairing table
    ctx.floor("pairing-table cases decided", check_pairings(ctx), 16)


def _check(ctx: Ctx, only=None) -> None:
    p = ctx.p
    eff = Effects(p)
    if only is None:
      ctx.explanation = (
        "Frame conditions of C18 (the 'changes nothing else' half and the shape of the one change): per operation the effect "
        "engine lists every write; set_channel writes only `channel`, on every message (unfiltered loop), with the argument; "
        "pad only appends one new WAIT whose time is symbolically requested - measured length, under `measured < requested`, "
        "the measured length being the sum of all WAIT times, units ticks vs ticks; cutoff writes only the note-off time, under "
        "`end - start > maximum`, to start + reduced (linear identity), scale (factor > 1) writes only WAIT times to time*factor, "
        "factor == 1 writes nothing; the Sequence-level wrappers pass their arguments through unchanged; SORT cutoff re-sorts the list after rewriting end times, on every exit. "
        "Not decided: exact resulting durations as numbers; Sequence.scale's default re-quantisation.")
    if only is None:
        ctx.assumptions += ["integer arguments; k >= 1 for scale (the k < 1 path re-bars the sequence and is outside C18)"]

    # ---- set_channel
    if only is None or 'set_channel' in only:
        q = "RelativeSequence.set_channel"
        fi = p.func(q)
        ctx.analysed(fi)
        ws = eff.writes("RelativeSequence", "set_channel")
        ctx.check({(w.kind, w.attr) for w in ws} == {("attr", "channel")}, "FR", f"{q}: writes only `channel`", function=q,
                  construct="set_channel writes something other than the channel", message=f"{sorted({(w.kind, w.attr) for w in ws})}", file=fi.file, node=fi.node)
        lp = message_loop(fi.node)
        if lp is None:
            raise AnalysisError(f"{q}: message loop not found")
        tc = TypeCase(p, fi, {lp.target.id}, None)
        exits = tc.run_body(lp.body)
        rng = events_matching(exits, lambda e: e[0] == "attrstore" and e[1] == "msg" and e[2] == "channel")
        ctx.check(rng == (1, 1) and all(k == "end" for k, _ in exits), "FR", f"{q}: every message gets the channel {rng}", function=q,
                  construct="set_channel skips some messages", message=f"stores per message {rng}, exits {sorted({k for k, _ in exits})}", file=fi.file, node=lp)
        from ..astutil import early_exits_before, path_conditions
        ex = early_exits_before(fi.node, lp)
        pcs = path_conditions(lp)
        ctx.check(not ex and not pcs, "FR", f"{q}: the loop over the messages is always reached", function=q,
                  construct="set_channel can return before (or skip) the loop over its messages",
                  message=f"early exits {[short(x) for x in ex]}, conditions {[short(t) for t, _ in pcs]}: for some sequences no event gets the new channel "
                          f"(the first message's channel says nothing about the others)", file=fi.file, node=ex[0] if ex else lp)
        st = [n for n in ast.walk(lp) if isinstance(n, ast.Assign) and any(isinstance(t, ast.Attribute) and t.attr == "channel" for t in n.targets)]
        ctx.check(bool(st) and all(isinstance(n.value, ast.Name) and n.value.id == fi.params[1] for n in st), "FR", f"{q}: assigns its argument",
                  function=q, construct="set_channel assigns something other than its argument", message=f"{[short(n) for n in st]}", file=fi.file, node=lp)

    # ---- pad
    if only is None or 'pad' in only:
        q = "RelativeSequence.pad"
        fi = p.func(q)
        ctx.analysed(fi)
        ws = eff.writes("RelativeSequence", "pad")
        ctx.check({w.kind for w in ws} <= {"listmut"} and len(ws) == 1, "FR", f"{q}: only appends", function=q,
                  construct="pad does more than append one message", message=f"{[(w.kind, w.attr) for w in ws]}", file=fi.file, node=fi.node)
        req = fi.params[1]
        lp = message_loop(fi.node)
        acc = None
        if lp is not None:
            for n in ast.walk(lp):
                if isinstance(n, ast.AugAssign) and isinstance(n.op, ast.Add) and isinstance(n.target, ast.Name) and isinstance(n.value, ast.Attribute) \
                        and n.value.attr == "time":
                    acc = n.target.id
        sum_form = None
        if lp is None or acc is None:
            # the same measurement written as one expression: `acc = sum(m.time for m in self._messages if m.message_type == WAIT)`
            for st_ in fi.node.body:
                if isinstance(st_, ast.Assign) and len(st_.targets) == 1 and isinstance(st_.targets[0], ast.Name) and isinstance(st_.value, ast.Call) \
                        and isinstance(st_.value.func, ast.Name) and st_.value.func.id == "sum" and st_.value.args \
                        and isinstance(st_.value.args[0], (ast.GeneratorExp, ast.ListComp)) and len(st_.value.args[0].generators) == 1 \
                        and isinstance(st_.value.args[0].elt, ast.Attribute) and st_.value.args[0].elt.attr == "time":
                    sum_form, acc = st_, st_.targets[0].id
        if sum_form is not None:
            comp = sum_form.value.args[0]
            gen = comp.generators[0]
            ctx.check(attr_chain(gen.iter) == ["self", "_messages"], "MEASURE", f"{q}: the length is measured over the sequence's whole event list", function=q,
                      construct="pad measures something other than the sequence's whole event list",
                      message=f"`{short(gen.iter)}`: a partly consumed iterator (or another list) leaves waits uncounted, so too much is appended", file=fi.file, node=sum_form)
            tv = gen.target.id if isinstance(gen.target, ast.Name) else None
            for T in p.enum_order("MessageType"):
                sel = bool(gen.ifs) or None
                if gen.ifs and tv:
                    sel = all(_selects(t_, tv, T) for t_ in gen.ifs)
                want = T == "WAIT"
                ctx.check(sel is not None and sel == want and src(comp.elt.value) == tv, "MEASURE", f"{q}: {T} contributes {'its time' if want else 'nothing'} to the measured length",
                          function=q, construct=f"measured length counts {T} messages wrongly", message=f"filter `{[short(t_) for t_ in gen.ifs]}`", file=fi.file, node=sum_form)
        elif lp is None or acc is None:
            ctx.floor(f"{q}: length measurement (loop or sum over the event list)", 0, 1)
        else:
            for T in p.enum_order("MessageType"):
                tc = TypeCase(p, fi, {lp.target.id}, T)
                exits = tc.run_body(lp.body)
                rng = events_matching(exits, lambda e: e[0] == "aug" and e[1] == acc, kinds=("end", "continue", "break"))
                want = (1, 1) if T == "WAIT" else (0, 0)
                ctx.check(rng == want or (rng is None and want == (0, 0)), "MEASURE", f"{q}: {T} contributes {rng} to the measured length", function=q,
                          construct=f"measured length counts {T} messages wrongly", message=f"{rng}, expected {want}", file=fi.file, node=lp)
            init = [s for s in fi.node.body if isinstance(s, ast.Assign) and any(isinstance(t, ast.Name) and t.id == acc for t in s.targets)]
            ctx.check(len(init) == 1 and isinstance(init[0].value, ast.Constant) and init[0].value.value == 0, "MEASURE", f"{q}: measurement starts at 0",
                      function=q, construct="measured length does not start at 0", message="", file=fi.file, node=fi.node)
            # early exit only once the requested length is reached
            for b in [n for n in ast.walk(lp) if isinstance(n, ast.Break)]:
                g = getattr(b, "_parent", None)
                from ..linear import relation, same_relation
                rr = relation(g.test, Normaliser()) if isinstance(g, ast.If) else None
                ok = rr is not None and (same_relation(rr, Sym.atom(acc) - Sym.atom(req), ">=") or same_relation(rr, Sym.atom(acc) - Sym.atom(req), ">"))
                ctx.check(ok, "MEASURE", f"{q}: measuring stops early only when the requested length is reached", function=q,
                          construct="measurement loop stops early under another condition", message=f"`{short(getattr(g, 'test', None))}`", file=fi.file, node=b)
        apps = [c for c in walk_local(fi.node) if isinstance(c, ast.Call) and call_method(c)[1] in ("append", "add_message")
                and c.args and isinstance(c.args[0], ast.Call) and call_method(c.args[0])[1] == "Message"]
        ctx.floor("pad append site", len(apps), 1)
        nz = Normaliser()
        for c in apps:
            m = c.args[0]
            ctx.check(enum_member(kwarg(m, "message_type"), "MessageType") == "WAIT", "PAD", f"{q}: appends a WAIT", function=q,
                      construct="pad appends something other than a WAIT", message=short(m), file=fi.file, node=c)
            t = kwarg(m, "time")
            want = nz.norm(ast.parse(f"{req} - {acc}", mode="eval").body)
            got = nz.norm(t) if t is not None else None
            # int() wrapper tolerated
            if isinstance(t, ast.Call) and isinstance(t.func, ast.Name) and t.func.id == "int" and t.args:
                got = nz.norm(t.args[0])
            if isinstance(t, ast.Name) and t.id not in (req, acc):
                # a named temporary: its one definition, when nothing it reads is assigned between the definition and the append
                defs = [a for a in walk_local(fi.node) if isinstance(a, ast.Assign) and len(a.targets) == 1 and isinstance(a.targets[0], ast.Name) and a.targets[0].id == t.id]
                if len(defs) == 1 and defs[0].lineno < c.lineno:
                    reads = {x.id for x in ast.walk(defs[0].value) if isinstance(x, ast.Name)}
                    between = [x for x in walk_local(fi.node) if isinstance(x, ast.Name) and isinstance(x.ctx, ast.Store) and x.id in reads
                               and defs[0].lineno < x.lineno <= c.lineno]
                    if not between:
                        got = nz.norm(defs[0].value)
            ctx.check(got == want, "PAD", f"{q}: appended wait = requested - measured", function=q,
                      construct="appended wait is not requested length minus measured length",
                      message=f"time normalises to `{got.canon() if got else None}`, expected `{want.canon()}`", file=fi.file, node=c)
            g = next((a for a in ancestors(c) if isinstance(a, ast.If)), None)
            ok = g is not None and isinstance(g.test, ast.Compare) and len(g.test.ops) == 1 and (
                (isinstance(g.test.ops[0], ast.Lt) and src(g.test.left) == acc and src(g.test.comparators[0]) == req) or
                (isinstance(g.test.ops[0], ast.Gt) and src(g.test.left) == req and src(g.test.comparators[0]) == acc))
            from ..astutil import extra_conditions
            ok = ok and not extra_conditions(c, g.test)
            ctx.check(ok, "PAD", f"{q}: pads exactly when measured < requested", function=q,
                      construct="padding guard is not `measured < requested`", message=f"`{short(getattr(g, 'test', None))}`", file=fi.file, node=c)
            ua = UnitAnalysis(p, fi)
            if g is not None and isinstance(g.test, ast.Compare):
                a, b = ua.unit(g.test.left), ua.unit(g.test.comparators[0])
                pu = units.infer_param_unit(p, fi, req)
                ctx.check(a == TICK or b == TICK, "UNIT", f"{q}: guard compares ticks ({show(a)} vs {show(b)})", function=q,
                          construct="pad guard does not compare tick quantities", message=f"{show(a)} vs {show(b)}", file=fi.file, node=g)
            ctx.check(not any(isinstance(a, (ast.For, ast.While)) for a in ancestors(c) if a is not fi.node), "PAD", f"{q}: pads once, after measuring",
                      function=q, construct="padding happens inside the measuring loop", message="", file=fi.file, node=c)

    # ---- cutoff
    if only is None or 'cutoff' in only:
        q = "AbsoluteSequence.cutoff"
        fi = p.func(q)
        ctx.analysed(fi)
        ws = [w for w in eff.writes("AbsoluteSequence", "cutoff") if w.kind == "attr"]
        ctx.require("CUT", f"{q}: the shortened end is written to the note-off", len(ws), 1, function=q,
                    construct="cutoff never writes a new end time", message="no store to a message attribute: over-long notes keep their length", file=fi.file, node=fi.node)
        mx, red = fi.params[1], fi.params[2]
        for w in ws:
            t = w.node.target if isinstance(w.node, ast.AugAssign) else w.node.targets[0]
            second = isinstance(t.value, ast.Subscript) and isinstance(t.value.slice, ast.Constant) and t.value.slice.value == 1
            ctx.check(w.attr == "time" and second, "FR", f"{q}: writes only the note-off time", function=q,
                      construct="cutoff writes something other than a note's end", message=short(w.node), file=fi.file, node=w.node)
            if not (w.attr == "time" and second):
                continue
            pair = src(t.value.value)
            nzz = Normaliser()
            # temporaries defined in the same block before the guard / the store are substituted (`length = end - onset; if length > m`)
            lp_ = next((a for a in ancestors(w.node) if isinstance(a, ast.For)), None)
            if lp_ is not None:
                nzz.run_block([s_ for s_ in ast.walk(lp_) if isinstance(s_, ast.Assign) and len(s_.targets) == 1 and isinstance(s_.targets[0], ast.Name)
                               and s_.lineno < w.node.lineno and not isinstance(s_.value, (ast.Call, ast.Subscript))])
            new_end = nzz.norm(w.node.value) if isinstance(w.node, ast.Assign) else None
            start = Sym.atom(f"{pair}[0].time")
            ctx.check(new_end is not None and (new_end - start) == Sym.atom(red), "CUT", f"{q}: new end = onset + {red}", function=q,
                      construct="shortened note does not end at onset + replacement length",
                      message=f"new end - onset = `{(new_end - start).canon() if new_end else None}`", file=fi.file, node=w.node)
            g = next((a for a in ancestors(w.node) if isinstance(a, ast.If) and w.node in a.body), None)
            ok = False
            if g is not None and isinstance(g.test, ast.Compare) and len(g.test.ops) == 1:
                l, r = nzz.norm(g.test.left), nzz.norm(g.test.comparators[0])
                dur = Sym.atom(f"{pair}[1].time") - start
                ok = (isinstance(g.test.ops[0], ast.Gt) and l == dur and r == Sym.atom(mx)) or (isinstance(g.test.ops[0], ast.Lt) and r == dur and l == Sym.atom(mx))
            ctx.check(ok, "CUT", f"{q}: shortens exactly the notes longer than {mx}", function=q,
                      construct="cutoff guard is not `end - onset > maximum`", message=f"`{short(getattr(g, 'test', None))}`", file=fi.file, node=w.node)
            # nothing but "this pairing is a closed note" may stand between a pairing and the length test
            from ..astutil import path_conditions
            extra = []
            for t, holds in path_conditions(w.node):
                if g is not None and t is g.test and holds:
                    continue
                txt = src(t)
                is_len = isinstance(t, ast.Compare) and len(t.ops) == 1 and isinstance(t.left, ast.Call) and isinstance(t.left.func, ast.Name) \
                    and t.left.func.id == "len" and src(t.left.args[0]) == pair and isinstance(t.comparators[0], ast.Constant)
                if is_len:
                    c0, op = t.comparators[0].value, type(t.ops[0])
                    closed_when_true = (op is ast.Eq and c0 == 2) or (op is ast.Gt and c0 == 1) or (op is ast.GtE and c0 == 2) or (op is ast.NotEq and c0 == 1)
                    closed_when_false = (op is ast.Eq and c0 == 1) or (op is ast.Lt and c0 == 2) or (op is ast.LtE and c0 == 1) or (op is ast.NotEq and c0 == 2)
                    if (holds and closed_when_true) or (not holds and closed_when_false):
                        continue
                extra.append(f"`{short(t, 60)}` is {'true' if holds else 'false'}")
            ctx.check(not extra, "CUT", f"{q}: every closed note reaches the length test", function=q,
                      construct="cutoff applies its length test only to some notes",
                      message=f"the rewrite additionally requires {', '.join(extra)}: notes longer than {mx} outside that condition keep their length",
                      file=fi.file, node=w.node)
        from ..engines.mustflow import check_sorted_invariant
        nsi = check_sorted_invariant(ctx, "SORT", methods={"cutoff"})
        ctx.floor("cutoff re-sort obligation", nsi, 1)
        lps = [n for n in ast.walk(fi.node) if isinstance(n, ast.For)]
        ctx.check(not any(isinstance(x, (ast.Continue, ast.Break)) for lp_ in lps for x in ast.walk(lp_)), "FR", f"{q}: visits every pairing",
                  function=q, construct="cutoff skips pairings", message="", file=fi.file, node=fi.node)

    # ---- scale (factor > 1)
    if only is None or 'scale' in only:
        q = "RelativeSequence.scale"
        fi = p.func(q)
        ctx.analysed(fi)
        fac = fi.params[1]
        big = None
        for n in fi.node.body:
            # the branch that stretches: an `if` on the factor whose body loops over the messages
            if isinstance(n, ast.If) and fac in {x.id for x in ast.walk(n.test) if isinstance(x, ast.Name)} \
                    and any(isinstance(x, ast.For) and attr_chain(x.iter) == ["self", "_messages"] for x in n.body):
                big = n
                break
        if big is None:
            raise AnalysisError(f"{q}: the branch that multiplies the waits (an `if` on `{fac}` looping over the messages) was not found")
        t_ = big.test
        okg = isinstance(t_, ast.Compare) and len(t_.ops) == 1 and src(t_.left) == fac and isinstance(t_.comparators[0], ast.Constant) \
            and t_.comparators[0].value == 1 and isinstance(t_.ops[0], (ast.Gt, ast.GtE))
        ctx.check(okg, "SCALE", f"{q}: the stretching branch is taken for every factor above 1 (`{short(t_)}`)", function=q,
                  construct="scale does not multiply the waits for every factor greater than 1",
                  message=f"`{short(t_)}`: some integer factors above 1 fall through to the re-barring path for factors below 1", file=fi.file, node=big)
        lp = next(x for x in big.body if isinstance(x, ast.For))

        # the loop is reached for *every* integer factor k >= 2: each condition on the way (the governing `if`s and the guard
        # clauses passed) is evaluated for such a factor -- `if not factor == 1: return` in front of it makes scale(2) a no-op
        def fac_truth(t):
            if isinstance(t, ast.UnaryOp) and isinstance(t.op, ast.Not):
                v = fac_truth(t.operand)
                return None if v is None else not v
            if isinstance(t, ast.BoolOp):
                vs = [fac_truth(v) for v in t.values]
                if isinstance(t.op, ast.And):
                    return False if any(v is False for v in vs) else (True if all(v is True for v in vs) else None)
                return True if any(v is True for v in vs) else (False if all(v is False for v in vs) else None)
            if isinstance(t, ast.Compare) and len(t.ops) == 1:
                l_, r_, op = t.left, t.comparators[0], type(t.ops[0])
                if isinstance(l_, ast.Constant) and src(r_) == fac:
                    l_, r_, op = r_, l_, {ast.Lt: ast.Gt, ast.Gt: ast.Lt, ast.LtE: ast.GtE, ast.GtE: ast.LtE}.get(op, op)
                if src(l_) == fac and isinstance(r_, ast.Constant) and isinstance(r_.value, (int, float)) and not isinstance(r_.value, bool):
                    c = r_.value
                    if c < 2:                                   # k >= 2 > c
                        return {ast.Gt: True, ast.GtE: True, ast.NotEq: True, ast.Eq: False, ast.Lt: False, ast.LtE: False}.get(op)
                    if c == 2:
                        return {ast.GtE: True, ast.Lt: False}.get(op)
                    return None
            if isinstance(t, ast.Call) and isinstance(t.func, ast.Attribute) and t.func.attr == "is_integer" and not t.args:
                inner = src(t.func.value).replace(" ", "")
                if inner in (f"({fac}*1.0)", f"float({fac})", f"({fac}/1)", f"(1.0*{fac})"):
                    return True
                if inner in (f"(1/{fac})", f"(1.0/{fac})"):
                    return False
            if isinstance(t, ast.Call) and src(t.func) == "isinstance" and len(t.args) == 2 and src(t.args[0]) == fac and src(t.args[1]) == "int":
                return True
            return None
        from ..astutil import guarded_conditions
        blocked, unsure = [], []
        for t, holds in guarded_conditions(lp, None):
            v = fac_truth(t)
            if v is None:
                unsure.append(short(t, 50))
            elif v != holds:
                blocked.append(f"`{short(t, 50)}` must {'hold' if holds else 'not hold'}")
        if unsure and not blocked:
            ctx.undetermined("SCALE", f"{q}: the stretching loop is reached for every integer factor above 1", f"condition(s) {unsure} not decided for a factor k >= 2: not judged")
        else:
            ctx.check(not blocked, "SCALE", f"{q}: the stretching loop is reached for every integer factor above 1", function=q,
                      construct="scale's stretching loop is not reached for some integer factor above 1",
                      message=f"{blocked[:2]} on the way to the loop, which is false for an integer factor k >= 2: the call returns without stretching", file=fi.file, node=lp)
        for T in p.enum_order("MessageType"):
            tc = TypeCase(p, fi, {lp.target.id}, T)
            exits = tc.run_body(lp.body)
            rng = events_matching(exits, lambda e: e[0] == "attrstore" and e[1] == "msg" and e[2] == "time")
            oth = events_matching(exits, lambda e: e[0] == "attrstore" and e[2] != "time")
            want = (1, 1) if T == "WAIT" else (0, 0)
            ctx.check((rng or (0, 0)) == want and (oth or (0, 0)) == (0, 0), "FR", f"{q}: {T}: time stores {rng}, other stores {oth}", function=q,
                      construct=f"scale treats {T} messages wrongly", message=f"time stores {rng} (expected {want}), other attribute stores {oth}",
                      file=fi.file, node=lp)
        for n in ast.walk(lp):
            if isinstance(n, (ast.Assign, ast.AugAssign)):
                t = n.targets[0] if isinstance(n, ast.Assign) else n.target
                if isinstance(t, ast.Attribute) and t.attr == "time":
                    nz2 = Normaliser()
                    if isinstance(n, ast.Assign):
                        got = nz2.norm(n.value)
                    else:
                        got = nz2.norm(ast.BinOp(left=t, op=n.op, right=n.value))
                    want = nz2.norm(t) * Sym.atom(fac)
                    ctx.check(got == want, "SCALE", f"{q}: wait time multiplied by the factor", function=q,
                              construct="scaled wait is not time * factor", message=f"`{got.canon()}` vs `{want.canon()}`", file=fi.file, node=n)
        # factor == 1: returns before any write
        one = [n for n in fi.node.body if isinstance(n, ast.If) and isinstance(n.test, ast.Compare) and isinstance(n.test.ops[0], ast.Eq)
               and src(n.test.left) == fac and isinstance(n.test.comparators[0], ast.Constant) and n.test.comparators[0].value == 1]
        if one:
            ctx.check(len(one[0].body) == 1 and isinstance(one[0].body[0], ast.Return) and one[0].lineno < big.lineno, "SCALE",
                      f"{q}: factor 1 changes nothing", function=q, construct="factor 1 does not return untouched", message="", file=fi.file, node=one[0])

    if only is None:
        for w, c, v in (("Sequence.pad", "pad", "rel"), ("Sequence.cutoff", "cutoff", "abs"), ("Sequence.set_channel", "set_channel", "rel"),
                        ("Sequence.scale", "scale", "rel")):
            passes_through(ctx, w, c, v)
