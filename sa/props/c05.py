"""C05 -- quantise puts every event on the grid and keeps every note well-formed (structural clauses)."""
from __future__ import annotations

import ast

from ..astutil import attr_chain, call_method, short, src, ancestors
from ..model import walk_local, AnalysisError
from ..report import Ctx
from ..engines import keykind, grid
from ..engines.typecase import TypeCase, TCState, events_matching
from ..engines.mustflow import MustFollow
from ..engines.effects import Effects

FN = "AbsoluteSequence.quantise"


def output_list_name(fn: ast.FunctionDef) -> str | None:
    """The local list that becomes `self._messages` (last rebind) -- directly, or filtered / copied on the way
    (`self._messages = [m for i, m in enumerate(out) if ...]`): then the list the expression is built from."""
    name = None
    for n in walk_local(fn):
        if isinstance(n, ast.Assign) and any(attr_chain(t) == ["self", "_messages"] for t in n.targets):
            if isinstance(n.value, ast.Name):
                name = n.value.id
            else:
                local_lists = [x.id for x in ast.walk(n.value) if isinstance(x, ast.Name) and isinstance(x.ctx, ast.Load)
                               and any(isinstance(a, ast.Assign) and isinstance(a.value, (ast.List, ast.ListComp)) and any(isinstance(t, ast.Name) and t.id == x.id for t in a.targets)
                                       for a in walk_local(fn))]
                if local_lists:
                    name = local_lists[0]
    return name


def message_loop(fn: ast.FunctionDef, over_self: bool = True) -> ast.For | None:
    for n in fn.body:
        if isinstance(n, ast.For) and isinstance(n.target, ast.Name) and attr_chain(n.iter) == ["self", "_messages"]:
            return n
    for n in walk_local(fn):
        if isinstance(n, ast.For) and isinstance(n.target, ast.Name) and attr_chain(n.iter) == ["self", "_messages"]:
            return n
    return None


def check(ctx: Ctx) -> None:
    _check(ctx)
    _extra(ctx)


def _check(ctx: Ctx) -> None:
    p = ctx.p
    fi = p.func(FN)
    ctx.analysed(fi)
    ctx.explanation = (
        "Structural necessary conditions of C05 on AbsoluteSequence.quantise: KEY1/KEY2 the open-note and timing "
        "dictionaries are indexed by channel and pitch (key-domain analysis); IDX1 the index list fed to the "
        "shifted-pop removal loop is provably ascending; GRID every time written (attribute store or Message(time=)) "
        "is provably a multiple of a step size (provenance lattice GRID/ORIG/OFFGRID); NEAR the candidates are, per step size, "
        "floor(time/step)*step and that plus one step (normal forms), i.e. the two grid points enclosing the event; ARGMIN the choice "
        "function has the argmin shape; KEEP every non-note message "
        "is appended to the output exactly once on every path and never enters the removal list (per-type abstract "
        "execution); SORT the rewrite of the event list is followed by the canonical re-sort on every exit. "
        "Not decided: nearest-position choice, displacement bound after the smothering filter, survival rule, "
        "non-overlap as numeric facts.")
    ctx.assumptions += ["step sizes are positive integers", "the input sequence is sorted by time (class invariant of AbsoluteSequence)"]

    # --- KEY
    keykind.check_function(ctx, FN, "KEY", expect_min=3)

    # --- IDX1
    sites = grid.shifted_pop_sites(fi.node)
    for loop, L, call in sites:
        ok, why = grid.provably_ascending(fi.node, loop, L)
        ctx.check(ok, "IDX1", f"{FN}: shifted removal `{short(call)}` over `{short(L)}`", function=FN,
                  construct="shifted-pop removal loop over an index list not proven ascending",
                  message=f"`{short(call)}` removes positions with a running shift, which is only correct for ascending "
                          f"indices: {why}", file=fi.file, node=loop, detail=why)
    # removal by other means (list comprehension filter, reversed deletion) is outside this idiom: nothing to prove
    ctx.counters["shifted_pop_sites"] = len(sites)

    # --- GRID
    gi = grid.analyse_quantise(fi)
    n_grid = n_bad = 0
    for key, (node, expr, k, what) in sorted(gi.sinks.items()):
        inst = f"{FN}: {what} <- {short(expr, 70)}"
        if k == grid.GRID:
            n_grid += 1
            ctx.ok("GRID", inst, "multiple of a step size")
            ctx.sample({"sink": inst, "kind": k})
        elif k == grid.ORIG:
            n_bad += 1
            ctx.violation("GRID", inst, function=FN, construct=f"{what} receives the unquantised time",
                          message=f"`{short(expr, 70)}` is (or may be) the message's original time, not a grid position",
                          file=fi.file, node=node)
        elif k == grid.OFFGRID:
            n_bad += 1
            ctx.violation("GRID", inst, function=FN, construct=f"{what} receives a grid position shifted by a constant",
                          message=f"`{short(expr, 70)}` is a multiple of a step size plus a non-zero constant: off the grid",
                          file=fi.file, node=node)
        else:
            ctx.undetermined("GRID", inst, f"kind {k}: provenance not recognised, not judged")
    ctx.floor("time writes in quantise judged (proven on-grid or proven off-grid)", n_grid + n_bad, 2)      # note-off write + at least one write shared by the other kinds

    # --- NEAR: the candidates are the grid position at or below the event and the next one above, per step size
    near_rule(ctx, fi)

    # --- POS / ZERO / OVERLAP: the three comparisons that make notes well-formed
    compare_rules(ctx, fi)
    ctx.floor("bookkeeping cases of quantise decided", qcase_rule(ctx, fi), 8)
    ctx.floor("removal-pass obligations", remove_rule(ctx, fi), 8)

    # --- KEEP
    loop = message_loop(fi.node)
    out = output_list_name(fi.node)
    if loop is not None and out is None:
        ctx.violation("KEEP", f"{FN}: the result list is installed as the sequence's event list", function=FN,
                      construct="the operation never installs its result (`self._messages = <result list>` is missing)",
                      message="the rebuilt list is dropped on return: the sequence is left exactly as it was", file=fi.file, node=fi.node)
        return
    if loop is None or out is None:
        raise AnalysisError(f"{FN}: message loop / output list not found")
    types = p.enum_order("MessageType")
    notes = {"NOTE_ON", "NOTE_OFF"}
    for T in types:
        if T in ("WAIT",):
            continue  # never present in an absolute sequence
        tc = TypeCase(p, fi, {loop.target.id}, T)
        exits = tc.run_body(loop.body)
        rng = events_matching(exits, lambda e: e[0] == "append" and e[1] == out and e[2] == "msg")
        inst = f"{FN}: {T} message -> appends to `{out}` {rng}"
        if T in notes:
            ctx.check(rng is not None and rng[1] <= 1, "KEEP", inst, function=FN, construct=f"{T} message may be appended more than once",
                      message=f"a {T} message can be appended {rng} times to the output", file=fi.file, node=loop)
        else:
            ctx.check(rng == (1, 1), "KEEP", inst, function=FN,
                      construct="non-note message not appended to the output exactly once on every path",
                      message=f"a {T} message is appended {rng} times (must be exactly once: non-note events are all kept)",
                      file=fi.file, node=loop)
    # the removal pass must only ever collect note messages
    second = [n for n in fi.node.body if isinstance(n, ast.For) and n is not loop and n.lineno > loop.lineno]
    removal_lists = {src(L) for _, L, _ in sites} | {L.args[0].id for _, L, _ in sites if isinstance(L, ast.Call) and L.args and isinstance(L.args[0], ast.Name)}
    for lp in second:
        msgvar = None
        if isinstance(lp.target, ast.Tuple) and len(lp.target.elts) == 2 and isinstance(lp.target.elts[1], ast.Name):
            msgvar = lp.target.elts[1].id
        elif isinstance(lp.target, ast.Name):
            msgvar = lp.target.id
        if msgvar is None or not any(isinstance(x, ast.Attribute) and x.attr == "message_type" for x in ast.walk(lp)):
            continue
        for T in types:
            if T in notes or T == "WAIT":
                continue
            tc = TypeCase(p, fi, {msgvar}, T)
            exits = tc.run_body(lp.body)
            rng = events_matching(exits, lambda e: e[0] == "append" and e[1] in removal_lists)
            ctx.check(rng in (None, (0, 0)), "KEEP", f"{FN}: {T} message never enters the removal list {rng}", function=FN,
                      construct="non-note message can be scheduled for removal",
                      message=f"a {T} message can be put on the removal list ({rng})", file=fi.file, node=lp)

    # --- SORT: after the final rebind of self._messages the list is re-sorted on every normal exit
    eff = Effects(p)

    def trigger(n):
        return isinstance(n, ast.Assign) and any(attr_chain(t) == ["self", "_messages"] for t in n.targets)

    def discharge(n):
        if isinstance(n, ast.Call):
            recv, name = call_method(n)
            if isinstance(recv, ast.Name) and recv.id == "self" and name and p.lookup_method("AbsoluteSequence", name):
                return any(w.kind == "sort" for w in eff.writes("AbsoluteSequence", name))
            if attr_chain(recv) == ["self", "_messages"] and name == "sort":
                return True
        return False

    bad = MustFollow(trigger, discharge).run(fi.node)
    ctx.check(not bad, "SORT", f"{FN}: canonical re-sort after rewriting the event list", function=FN,
              construct="event list rewritten without a following canonical sort",
              message="self._messages is replaced and an exit is reachable without re-sorting it", file=fi.file,
              node=bad[0][1] if bad else fi.node)


def compare_rules(ctx: Ctx, fi) -> None:
    """POS: a note-off candidate is admitted iff it lies strictly after the note's quantised start; ZERO: a pair is scheduled
    for removal iff end - start <= 0; OVERLAP: a note-on is accepted iff no earlier end is recorded or it does not start
    before that end.  Each is recognised as a relation `E op 0` in normal form (mirror images accepted)."""
    from ..linear import Normaliser, Sym, relation, same_relation
    loop = message_loop(fi.node)
    if loop is None:
        return
    nz = Normaliser()
    # POS: inside the note-off branch, `valid.append(position)` under a test on position - start
    pos_sites = []
    for n in ast.walk(loop):
        if isinstance(n, ast.For) and isinstance(n.target, ast.Name) and n is not loop:          # (the message loop itself appends messages, not candidates)
            for c in ast.walk(n):
                if isinstance(c, ast.Call) and call_method(c)[1] == "append" and c.args and isinstance(c.args[0], ast.Name) and c.args[0].id == n.target.id:
                    g = next((a for a in ancestors(c) if isinstance(a, ast.If)), None)
                    if g is not None and g in list(ast.walk(n)):
                        pos_sites.append((n.target.id, g, c))
    # the same filter written as a comprehension: cand = [v for v in L if <test>]
    for n in ast.walk(loop):
        if isinstance(n, ast.Assign) and len(n.targets) == 1 and isinstance(n.targets[0], ast.Name) and isinstance(n.value, ast.ListComp) \
                and len(n.value.generators) == 1 and isinstance(n.value.generators[0].target, ast.Name) and len(n.value.generators[0].ifs) == 1 \
                and src(n.value.elt) == n.value.generators[0].target.id and "time" not in src(n.value.generators[0].iter):
            gen = n.value.generators[0]
            fake = ast.If(test=gen.ifs[0], body=[n], orelse=[])
            ast.copy_location(fake, n)
            pos_sites.append((gen.target.id, fake, n))
    ctx.floor("end-candidate filters (POS) in quantise", len(pos_sites), 1)
    for var, g, c in pos_sites:
        # FALLBACK: when the filter leaves nothing, the note's own start is the only candidate (the note collapses and is removed)
        if isinstance(c, ast.Assign):
            loop_for, cand = c, c.targets[0].id
        else:
            loop_for = next(a for a in ancestors(c) if isinstance(a, ast.For) and isinstance(a.target, ast.Name) and a.target.id == var)
            cand = src(call_method(c)[0])
        blk = next((getattr(loop_for._parent, f) for f in ("body", "orelse") if loop_for in getattr(loop_for._parent, f, [])), [])
        def _fills(z):
            # `cand.append(start)` or `cand = [start]`
            return any(isinstance(y, ast.Call) and call_method(y)[1] == "append" and src(call_method(y)[0]) == cand for y in ast.walk(z)) \
                or (isinstance(z, ast.Assign) and len(z.targets) == 1 and src(z.targets[0]) == cand and isinstance(z.value, ast.List) and len(z.value.elts) == 1)
        fb = [x for x in blk[blk.index(loop_for) + 1:] if isinstance(x, ast.If) and any(_fills(z) for z in x.body)]
        okf = False
        whyf = "no fallback found"
        if fb:
            t = fb[0].test
            neg = False
            while isinstance(t, ast.UnaryOp) and isinstance(t.op, ast.Not):
                neg, t = not neg, t.operand
            empty = None
            if isinstance(t, ast.Compare) and isinstance(t.left, ast.Call) and isinstance(t.left.func, ast.Name) and t.left.func.id == "len" \
                    and src(t.left.args[0]) == cand and isinstance(t.comparators[0], ast.Constant):
                c0, op = t.comparators[0].value, type(t.ops[0])
                if (op is ast.Eq and c0 == 0) or (op is ast.Lt and c0 == 1) or (op is ast.LtE and c0 == 0):
                    empty = True
                elif (op is ast.NotEq and c0 == 0) or (op is ast.Gt and c0 == 0) or (op is ast.GtE and c0 == 1):
                    empty = False
            elif isinstance(t, ast.Name) and t.id == cand:
                empty = False
            others = [a for a in (relation(g.test, nz)[0].atoms() if relation(g.test, nz) else []) if a != var]
            app = next((y for z in fb[0].body for y in ast.walk(z) if isinstance(y, ast.Call) and call_method(y)[1] == "append"), None)
            filled = app.args[0] if app is not None and app.args else next((z.value.elts[0] for z in fb[0].body if isinstance(z, ast.Assign) and isinstance(z.value, ast.List)
                                                                          and len(z.value.elts) == 1), None)
            okf = empty is not None and (empty != neg) and len(others) == 1 and filled is not None and src(filled) == others[0] and not fb[0].orelse
            app = app if app is not None else fb[0].body[0]
            whyf = f"`{short(fb[0].test)}` -> `{short(app)}`"
        ctx.check(okf, "ZERO", f"{FN}: when no end candidate is left the note's own start is used ({whyf})", function=FN,
                  construct="fallback for an empty end-candidate list is missing, inverted, or not the note's start",
                  message=f"{whyf}: with the test inverted every note with candidates also receives its start as a candidate (needless zero-length notes) "
                          f"and an empty list stays empty", file=fi.file, node=fb[0] if fb else g)
        r = relation(g.test, nz)
        inside_body = any(c is x for y in g.body for x in ast.walk(y))
        if r is None:
            ctx.undetermined("POS", f"{FN}: end-candidate filter", f"`{short(g.test)}` not a single comparison")
            continue
        d, op = r
        others = [a for a in d.atoms() if a != var]
        ok = len(others) == 1 and same_relation(r if inside_body else (d, {">": "<=", ">=": "<", "<": ">=", "<=": ">", "==": "!=", "!=": "=="}[op]),
                                                   Sym.atom(var) - Sym.atom(others[0]), ">")
        ctx.check(ok, "POS", f"{FN}: an end candidate is admitted iff it lies strictly after the note's start (`{short(g.test)}`)", function=FN,
                  construct="note-off candidates are not restricted to positions strictly after the note's quantised start",
                  message=f"`{short(g.test)}`: a candidate equal to (or before) the start gives a zero or negative length", file=fi.file, node=g)
    # ZERO and OVERLAP
    second = [n for n in fi.node.body if isinstance(n, ast.For) and n is not loop and n.lineno > loop.lineno]
    for lp in second:
        for g in [x for x in ast.walk(lp) if isinstance(x, ast.If)]:
            if any(isinstance(c, ast.Call) and call_method(c)[1] in ("extend", "append") for y in g.body for c in ast.walk(y)) and ".time" in src(g.test):
                r = relation(g.test, nz)
                ok = False
                if r is not None:
                    d, op = r
                    tatoms = [a for a in d.atoms() if a.endswith(".time")]
                    oatoms = [a for a in d.atoms() if not a.endswith(".time")]
                    if len(tatoms) == 1 and len(oatoms) == 1:
                        ok = same_relation(r, Sym.atom(tatoms[0]) - Sym.atom(oatoms[0]), "<=") or same_relation(r, Sym.atom(tatoms[0]) - Sym.atom(oatoms[0]), "==")
                ctx.check(ok, "ZERO", f"{FN}: a pair is removed iff its end does not lie after its start (`{short(g.test)}`)", function=FN,
                          construct="collapsed-note removal does not test end - start <= 0",
                          message=f"`{short(g.test)}`: zero-length notes would survive, or proper notes be removed", file=fi.file, node=g)
    n_overlap = 0
    from ..model import _Canon
    # a name bound to `table.get(key)`: `name is None` reads `key not in table`, `name[1]` reads `table[key][1]`
    get_alias = {a.targets[0].id for a in ast.walk(loop) if isinstance(a, ast.Assign) and len(a.targets) == 1 and isinstance(a.targets[0], ast.Name)
                 and isinstance(a.value, ast.Call) and call_method(a.value)[1] == "get" and len(a.value.args) == 1}

    def absent_test(v):
        if isinstance(v, ast.Compare) and len(v.ops) == 1:
            if isinstance(v.ops[0], ast.NotIn):
                return True
            if isinstance(v.ops[0], (ast.Is, ast.Eq)) and isinstance(v.left, ast.Name) and v.left.id in get_alias \
                    and isinstance(v.comparators[0], ast.Constant) and v.comparators[0].value is None:
                return True
        return False

    def present_test(v):
        return isinstance(v, ast.Compare) and len(v.ops) == 1 and (isinstance(v.ops[0], ast.In) or (
            isinstance(v.ops[0], (ast.IsNot, ast.NotEq)) and isinstance(v.left, ast.Name) and v.left.id in get_alias
            and isinstance(v.comparators[0], ast.Constant) and v.comparators[0].value is None))

    def registers(blk):
        return any(isinstance(a, ast.Assign) and isinstance(a.targets[0], ast.Subscript) for y in blk for a in ast.walk(y))

    def rest_after(g):
        par = getattr(g, "_parent", None)
        for f in ("body", "orelse"):
            blk = getattr(par, f, None)
            if isinstance(blk, list) and g in blk:
                return blk[blk.index(g) + 1:]
        return []

    for g in [x for x in ast.walk(loop) if isinstance(x, ast.If) and ".time" in src(x.test)
              and any(absent_test(c_) or present_test(c_) for c_ in ast.walk(x.test))]:
        # the branch that accepts the note-on is the one that registers it in a table; its condition is the test or its negation
        skips = len(g.body) == 1 and isinstance(g.body[0], ast.Continue) and not g.orelse
        if skips and registers(rest_after(g)):
            cond = _Canon().visit_UnaryOp(ast.UnaryOp(op=ast.Not(), operand=g.test))       # `if <reject>: continue` and the rest accepts
        elif registers(g.body) == registers(g.orelse):
            continue
        else:
            cond = g.test if registers(g.body) else _Canon().visit_UnaryOp(ast.UnaryOp(op=ast.Not(), operand=g.test))
        parts = cond.values if isinstance(cond, ast.BoolOp) and isinstance(cond.op, ast.Or) else [cond]
        notin = [v for v in parts if absent_test(v)]
        rels = [relation(v, nz) for v in parts if relation(v, nz) is not None and not absent_test(v) and not present_test(v)]
        n_overlap += 1
        ok = False
        if len(notin) == 1 and len(rels) == 1 and len(parts) == 2:
            d, op = rels[0]
            tatoms = [a for a in d.atoms() if a.endswith(".time")]
            oatoms = [a for a in d.atoms() if not a.endswith(".time")]
            ok = len(tatoms) == 1 and len(oatoms) == 1 and oatoms[0].endswith("[1]") and same_relation(rels[0], Sym.atom(tatoms[0]) - Sym.atom(oatoms[0]), ">=")
        ctx.check(ok, "OVERLAP", f"{FN}: a note-on is accepted iff it does not start before the previous end of its key (`{short(cond, 80)}`)", function=FN,
                  construct="overlap test is not `no previous note, or start >= previous end`",
                  message=f"accepting condition `{short(cond, 100)}`", file=fi.file, node=g)
    ctx.floor("overlap tests (OVERLAP) in quantise", n_overlap, 1)


def near_rule(ctx: Ctx, fi) -> None:
    from ..linear import Normaliser, Sym
    loop = message_loop(fi.node)
    if loop is None:
        return
    m = loop.target.id
    nz = Normaliser()
    nz.run_block([s_ for s_ in loop.body if isinstance(s_, ast.Assign) and isinstance(s_.targets[0], ast.Name) and not isinstance(s_.value, (ast.ListComp, ast.List))])
    comps = [s_ for s_ in loop.body if isinstance(s_, ast.Assign) and isinstance(s_.targets[0], ast.Name) and isinstance(s_.value, ast.ListComp)]
    floor_lists, ceil_lists = {}, {}
    t = Sym.atom(f"{m}.time")
    for c in comps:
        lc = c.value
        g = lc.generators[0]
        if len(lc.generators) != 1:
            continue
        tv = g.target.id if isinstance(g.target, ast.Name) else None
        esym = nz.norm(lc.elt)
        e = esym.canon()
        floor_sym = (Sym.atom(tv) * Sym.atom(f"floordiv({t.canon()},{tv})")) if tv else None
        if tv and esym == floor_sym:
            floor_lists[c.targets[0].id] = (c, src(g.iter))
        elif tv and isinstance(g.iter, ast.Call) and isinstance(g.iter.func, ast.Name) and g.iter.func.id == "range":
            # [left[i] + steps[i] for i in range(len(steps))]
            for fl, (_, steps) in floor_lists.items():
                if e in (f"{fl}[{tv}] + {steps}[{tv}]", f"{steps}[{tv}] + {fl}[{tv}]"):
                    ceil_lists[c.targets[0].id] = (c, fl)
        elif isinstance(g.target, ast.Tuple) and len(g.target.elts) == 2 and all(isinstance(x, ast.Name) for x in g.target.elts) \
                and isinstance(g.iter, ast.Call) and isinstance(g.iter.func, ast.Name) and g.iter.func.id == "zip" and len(g.iter.args) == 2 and not g.ifs:
            # [left + step for left, step in zip(lefts, steps)]  (either order of the two lists)
            a_, b_ = g.target.elts[0].id, g.target.elts[1].id
            za, zb = src(g.iter.args[0]), src(g.iter.args[1])
            for fl, (_, steps) in floor_lists.items():
                if {za, zb} == {fl, steps} and esym == Sym.atom(a_) + Sym.atom(b_):
                    ceil_lists[c.targets[0].id] = (c, fl)
        elif tv:
            for fl, (_, steps) in floor_lists.items():
                if src(g.iter) == steps and esym == floor_sym + Sym.atom(tv):
                    ceil_lists[c.targets[0].id] = (c, fl)
    step_param = fi.params[1] if len(fi.params) > 1 else "step_sizes"
    in_idiom = any(step_param in {n.id for n in ast.walk(c.value.generators[0].iter) if isinstance(n, ast.Name)} for c in comps)
    if not floor_lists and not ceil_lists and not in_idiom:
        ctx.undetermined("NEAR", f"{FN}: candidate positions", "candidate lists not in the recognised comprehension form: not judged")
        return
    ctx.check(len(floor_lists) == 1, "NEAR", f"{FN}: lower candidates are (time // step) * step for every step size ({sorted(floor_lists)})", function=FN,
              construct="lower grid candidates are not floor(time / step) * step", message=f"{[short(c.value, 80) for c in comps]}", file=fi.file,
              node=comps[0] if comps else fi.node)
    ctx.check(len(ceil_lists) == 1, "NEAR", f"{FN}: upper candidates are the lower candidate plus its step ({sorted(ceil_lists)})", function=FN,
              construct="upper grid candidates are not the lower candidate plus one step",
              message=f"{[short(c.value, 80) for c in comps]}: an event could be moved by more than one step", file=fi.file, node=comps[-1] if comps else fi.node)
    # an index comprehension must visit every step size: range(len(steps)) / range(0, len(steps))
    for name_, (c, fl) in ceil_lists.items():
        it = c.value.generators[0].iter
        if isinstance(it, ast.Call) and isinstance(it.func, ast.Name) and it.func.id == "range":
            steps = floor_lists[fl][1]
            a = it.args
            full = (len(a) == 1 and src(a[0]) == f"len({steps})") or (len(a) == 2 and isinstance(a[0], ast.Constant) and a[0].value == 0 and src(a[1]) == f"len({steps})")
            ctx.check(full and not c.value.generators[0].ifs, "NEAR", f"{FN}: upper candidates are computed for every step size (`{short(it)}`)", function=FN,
                      construct="upper grid candidates are not computed for every step size",
                      message=f"`{short(it)}`: a step size without its upper candidate can only round down", file=fi.file, node=c)
    for name_, (c, steps) in floor_lists.items():
        ctx.check(not c.value.generators[0].ifs and src(c.value.generators[0].iter) == step_param, "NEAR",
                  f"{FN}: lower candidates are computed for every step size", function=FN,
                  construct="lower grid candidates are not computed for every step size", message=short(c.value, 90), file=fi.file, node=c)
    # both lists feed the candidate set
    both = [s_ for s_ in loop.body if isinstance(s_, ast.Assign) and isinstance(s_.value, ast.BinOp) and isinstance(s_.value.op, ast.Add)
            and {n.id for n in ast.walk(s_.value) if isinstance(n, ast.Name)} >= (set(floor_lists) | set(ceil_lists))]
    ctx.check(bool(both) or not (floor_lists and ceil_lists), "NEAR", f"{FN}: lower and upper candidates are both offered", function=FN,
              construct="candidate set omits the lower or the upper grid positions", message="", file=fi.file, node=loop)


def _extra(ctx):
    from ..engines.typestate import check_wrappers
    check_wrappers(ctx, ['quantise'])
    from ..engines.structure import argmin_rule
    argmin_rule(ctx)


# ------------------------------------------------------------------------------------------------ QCASE
class _QCase(TypeCase):
    """Per (kind, note open?, earlier note recorded?, would overlap?) execution of quantise's main loop with the tests on the
    two bookkeeping tables decided by the case."""

    def __init__(self, *a, opens: str, timings: str, is_open: bool, recorded: bool, overlaps: bool, **kw):
        super().__init__(*a, **kw)
        self.opens, self.timings = opens, timings
        self.is_open, self.recorded, self.overlaps = is_open, recorded, overlaps

    def _base(self, e):
        while isinstance(e, ast.Subscript):
            e = e.value
        if isinstance(e, ast.Name) and e.id in getattr(self, "timing_aliases", ()):
            return self.timings              # `prev = timings.get(key)`: prev[1] is timings[key][1]
        return e.id if isinstance(e, ast.Name) else None

    def truth(self, test, st):
        if isinstance(test, ast.Compare) and len(test.ops) == 1:
            op, c = test.ops[0], test.comparators[0]
            # `prev is None` / `prev is not None` for `prev = timings.get(key)`: the case says whether an earlier note is recorded
            if isinstance(test.left, ast.Name) and test.left.id in getattr(self, "timing_aliases", ()) and isinstance(c, ast.Constant) and c.value is None \
                    and isinstance(op, (ast.Is, ast.IsNot, ast.Eq, ast.NotEq)):
                v = st.vals.get("$rec", frozenset([self.recorded]))
                if len(v) == 1:
                    rec = next(iter(v))
                    return (not rec) if isinstance(op, (ast.Is, ast.Eq)) else rec
                return None
            if isinstance(op, (ast.In, ast.NotIn)) and isinstance(c, ast.Name):
                neg = isinstance(op, ast.NotIn)
                if c.id == self.opens:
                    v = st.vals.get("$open", frozenset([self.is_open]))
                    if len(v) == 1:
                        return next(iter(v)) != neg
                    return None
                if c.id == self.timings:
                    v = st.vals.get("$rec", frozenset([self.recorded]))
                    if len(v) == 1:
                        return next(iter(v)) != neg
                    return None
            # `<new time> < timings[key][1]` : the case says whether the new note would start before the recorded end
            if isinstance(op, (ast.Lt, ast.GtE)) and self._base(c) == self.timings and ".time" in src(test.left):
                return self.overlaps if isinstance(op, ast.Lt) else not self.overlaps
            if isinstance(op, (ast.Gt, ast.LtE)) and self._base(test.left) == self.timings and ".time" in src(c):
                return self.overlaps if isinstance(op, ast.Gt) else not self.overlaps
        return super().truth(test, st)

    def event_for_call(self, c, st):
        recv, name = call_method(c)
        if recv is not None and name == "pop" and self._base(recv) == self.opens:
            st.vals["$open"] = frozenset([False])
            return ("open-pop",)
        if recv is not None and name == "append" and self._base(recv) == self.timings and isinstance(recv, ast.Subscript):
            return ("timings-append", "msg.time" if c.args and isinstance(c.args[0], ast.Attribute) and c.args[0].attr == "time"
                    and self.is_msg(c.args[0].value, st) else "other")
        return super().event_for_call(c, st)

    def stmt(self, s, st):
        if isinstance(s, ast.Assign) and len(s.targets) == 1 and isinstance(s.targets[0], ast.Name) and isinstance(s.value, ast.Call) \
                and call_method(s.value)[1] == "get" and isinstance(call_method(s.value)[0], ast.Name) and call_method(s.value)[0].id == self.timings \
                and (len(s.value.args) == 1 or (len(s.value.args) == 2 and isinstance(s.value.args[1], ast.Constant) and s.value.args[1].value is None)):
            self.__dict__.setdefault("timing_aliases", set()).add(s.targets[0].id)
            return st
        if isinstance(s, ast.Delete) and len(s.targets) == 1 and isinstance(s.targets[0], ast.Subscript) and self._base(s.targets[0]) == self.opens:
            st.bump(("open-pop",))            # `del opens[key]` takes the entry out like `opens.pop(key)`
            st.vals["$open"] = frozenset([False])
            return st
        if isinstance(s, ast.Assign) and len(s.targets) == 1 and isinstance(s.targets[0], ast.Subscript):
            t, v = s.targets[0], s.value
            is_time = isinstance(v, ast.Attribute) and v.attr == "time" and self.is_msg(v.value, st)
            if self._base(t) == self.opens:
                self.scan_expr(v, st)
                st.bump(("open-store", "msg.time" if is_time else "other"))
                st.vals["$open"] = frozenset([True])
                return st
            if self._base(t) == self.timings:
                self.scan_expr(v, st)
                one = isinstance(v, ast.List) and len(v.elts) == 1 and isinstance(v.elts[0], ast.Attribute) and v.elts[0].attr == "time" \
                    and self.is_msg(v.elts[0].value, st)
                st.bump(("timings-reset", "[msg.time]" if one else "other"))
                st.vals["$rec"] = frozenset([True])
                return st
        return super().stmt(s, st)


def qcase_rule(ctx: Ctx, fi) -> int:
    """QCASE: the bookkeeping of quantise as a table over (kind, open?, recorded?, overlap?)."""
    p = ctx.p
    loop = message_loop(fi.node)
    out = output_list_name(fi.node)
    if loop is None or out is None:
        return 0
    m = loop.target.id
    aliases = {m} | {s.targets[0].id for s in loop.body if isinstance(s, ast.Assign) and isinstance(s.targets[0], ast.Name)
                     and isinstance(s.value, ast.Name) and s.value.id == m}
    # table roles: the dictionary popped in the NOTE_OFF branch = open notes; the one whose entries are lists = recorded spans
    dicts = [s.targets[0].id for s in fi.node.body if isinstance(s, ast.Assign) and isinstance(s.targets[0], ast.Name) and s.lineno < loop.lineno
             and ((isinstance(s.value, ast.Call) and isinstance(s.value.func, ast.Name) and s.value.func.id == "dict") or isinstance(s.value, ast.Dict))]
    timings = next((d for d in dicts if any(isinstance(a, ast.Assign) and isinstance(a.targets[0], ast.Subscript) and isinstance(a.targets[0].value, ast.Name)
                                             and a.targets[0].value.id == d and isinstance(a.value, ast.List) for a in ast.walk(loop))), None)
    opens = next((d for d in dicts if d != timings and any(isinstance(c, ast.Call) and call_method(c)[1] == "pop" and isinstance(call_method(c)[0], ast.Name)
                                                          and call_method(c)[0].id == d for c in ast.walk(loop))), None)
    if timings is None or opens is None:
        ctx.undetermined("QCASE", f"{FN}: bookkeeping tables", f"roles not recognised (open notes: {opens}, recorded spans: {timings}): not judged")
        return 0
    Z, ONE = (0, 0), (1, 1)
    cases = [
        # kind, open, recorded, overlaps, description, expectations
        ("NOTE_ON", False, False, False, "a note-on of a pitch not seen before",
         dict(kept=ONE, time_written=ONE, imputed_off=Z, open_pop=Z, open_store=ONE, rec_reset=ONE, rec_append=Z)),
        ("NOTE_ON", False, True, False, "a note-on that starts at or after the recorded end of the previous note of its key",
         dict(kept=ONE, time_written=ONE, imputed_off=Z, open_pop=Z, open_store=ONE, rec_reset=ONE, rec_append=Z)),
        ("NOTE_ON", False, True, True, "a note-on that would start before the recorded end of the previous note of its key",
         dict(kept=Z, imputed_off=Z, open_pop=Z, open_store=Z, rec_reset=Z, rec_append=Z)),
        ("NOTE_ON", True, True, False, "a note-on of a key that is still open",
         dict(kept=ONE, time_written=ONE, imputed_off=ONE, open_pop=ONE, open_store=ONE, rec_reset=ONE, rec_append=ONE)),
        ("NOTE_OFF", True, True, False, "a note-off of an open note",
         dict(kept=ONE, time_written=ONE, imputed_off=Z, open_pop=ONE, open_store=Z, rec_reset=Z, rec_append=ONE)),
        ("NOTE_OFF", False, True, False, "a note-off whose note-on was dropped (nothing open)",
         dict(kept=Z, imputed_off=Z, open_pop=Z, open_store=Z, rec_reset=Z, rec_append=Z)),
        ("NOTE_OFF", False, False, False, "a note-off of a pitch never opened",
         dict(kept=Z, imputed_off=Z, open_pop=Z, open_store=Z, rec_reset=Z, rec_append=Z)),
        ("CONTROL_CHANGE", False, False, False, "an event that is not a note",
         dict(kept=ONE, time_written=ONE, imputed_off=Z, open_pop=Z, open_store=Z, rec_reset=Z, rec_append=Z)),
    ]
    words = {"kept": "appends of the message to the result", "time_written": "writes of the message's time",
             "imputed_off": "synthesised NOTE_OFFs appended to the result", "open_pop": "entries removed from the open-note table",
             "open_store": "entries written to the open-note table (with the new time)", "rec_reset": "recorded span restarted as [new time]",
             "rec_append": "ends appended to the recorded span (the new time)"}
    n = 0
    for T, is_open, rec, ov, what, want in cases:
        tc = _QCase(p, fi, set(aliases), T, opens=opens, timings=timings, is_open=is_open, recorded=rec, overlaps=ov)
        exits = tc.run_body(loop.body)

        def ev(pred):
            r = events_matching(exits, pred, kinds=("end", "continue"))
            return r if r is not None else (0, 0)
        got = {
            "kept": ev(lambda e: e[0] == "append" and e[1] == out and e[2] == "msg"),
            "time_written": ev(lambda e: e[0] == "attrstore" and e[1] == "msg" and e[2] == "time"),
            "imputed_off": ev(lambda e: e[0] == "append" and e[1] == out and e[2] == "new:NOTE_OFF"),
            "open_pop": ev(lambda e: e == ("open-pop",)),
            "open_store": ev(lambda e: e == ("open-store", "msg.time")),
            "rec_reset": ev(lambda e: e == ("timings-reset", "[msg.time]")),
            "rec_append": ev(lambda e: e == ("timings-append", "msg.time")),
        }
        other = ev(lambda e: e in (("open-store", "other"), ("timings-reset", "other"), ("timings-append", "other")))
        bad = {k: (got[k], v) for k, v in want.items() if got[k] != v}
        if other != (0, 0):
            bad["other"] = (other, (0, 0))
        n += 1
        ctx.check(not bad, "QCASE", f"{FN}: {what}: " + ", ".join(f"{k}={got[k]}" for k in want), function=FN,
                  construct=f"quantise bookkeeping: {what} is not handled as required ({', '.join(sorted(bad))})" if bad else "ok",
                  message="; ".join(f"{words.get(k, 'table writes with a value other than the new time')}: [min,max]={g}, required {w}" for k, (g, w) in bad.items()),
                  file=fi.file, node=loop)
    return n


# ------------------------------------------------------------------------------------------------ REMOVE
def remove_rule(ctx: Ctx, fi) -> int:
    """REMOVE: the pass that deletes notes collapsed to zero length.  Decided per kind on the second message loop: a
    NOTE_ON records (its index, its time) under its (channel, pitch) key; a NOTE_OFF takes that record out and schedules
    both indices iff end - start <= 0 (ZERO); nothing else is recorded or scheduled; afterwards every scheduled index is
    popped from the result with the running shift."""
    from ..linear import Normaliser, Sym
    p = ctx.p
    main = message_loop(fi.node)
    out = output_list_name(fi.node)
    second = [n_ for n_ in fi.node.body if isinstance(n_, ast.For) and n_ is not main and n_.lineno > main.lineno and isinstance(n_.iter, ast.Call)
              and isinstance(n_.iter.func, ast.Name) and n_.iter.func.id == "enumerate" and n_.iter.args and src(n_.iter.args[0]) == out]
    if not second or not (isinstance(second[0].target, ast.Tuple) and len(second[0].target.elts) == 2):
        ctx.undetermined("REMOVE", f"{FN}: zero-length removal pass", "no `for i, m in enumerate(result)` pass: idiom not recognised, not judged")
        return 0
    lp = second[0]
    ivar, mvar = lp.target.elts[0].id, lp.target.elts[1].id
    tables = [s.targets[0].id for s in fi.node.body if isinstance(s, ast.Assign) and isinstance(s.targets[0], ast.Name) and main.end_lineno < s.lineno < lp.lineno]
    n = 0
    sched = None
    for T in ("NOTE_ON", "NOTE_OFF", "CONTROL_CHANGE", "TIME_SIGNATURE"):
        tc = TypeCase(p, fi, {mvar}, T)
        exits = tc.run_body(lp.body)
        stores = events_matching(exits, lambda e: e[0] == "substore" and e[1] in tables) or (0, 0)
        pops = events_matching(exits, lambda e: e[0] == "call" and e[1].endswith(".pop") and e[1].split(".")[0] in tables) or (0, 0)
        adds_a = events_matching(exits, lambda e: e[0] == "append" and e[1] in tables) or (0, 0)
        adds_u = events_matching(exits, lambda e: e[0] == "call" and e[1].split(".")[0] in tables and e[1].split(".")[-1] in ("update", "add")) or (0, 0)
        adds = (adds_a[0] + adds_u[0], adds_a[1] + adds_u[1])
        want = {"NOTE_ON": ((1, 1), (0, 0), (0, 0)), "NOTE_OFF": ((0, 0), (1, 1), (0, 1))}.get(T, ((0, 0), (0, 0), (0, 0)))
        n += 1
        ctx.check((stores, pops, adds) == want, "REMOVE", f"{FN}: removal pass, {T}: records {stores}, takes out {pops}, schedules {adds}", function=FN,
                  construct=f"zero-length removal pass handles {T} wrongly",
                  message=f"records [min,max]={stores}, take-outs={pops}, scheduling calls={adds}; required {want} "
                          f"(a note-on is recorded once, a note-off takes the record out once and may schedule the pair, other kinds do nothing)",
                  file=fi.file, node=lp)
    # what is recorded / scheduled
    for a in ast.walk(lp):
        if isinstance(a, ast.Assign) and isinstance(a.targets[0], ast.Subscript) and isinstance(a.targets[0].value, ast.Name) and a.targets[0].value.id in tables:
            v = a.value
            okv = isinstance(v, ast.Tuple) and len(v.elts) == 2 and src(v.elts[0]) == ivar and src(v.elts[1]) == f"{mvar}.time"
            n += 1
            ctx.check(okv, "REMOVE", f"{FN}: a note-on is recorded as (its index, its time)", function=FN,
                      construct="removal pass records something other than (index, time) for a note-on", message=short(a, 90), file=fi.file, node=a)
        if isinstance(a, ast.Assign) and isinstance(a.value, ast.Call) and call_method(a.value)[1] == "pop" and isinstance(call_method(a.value)[0], ast.Name) \
                and call_method(a.value)[0].id in tables and isinstance(a.targets[0], ast.Tuple) and len(a.targets[0].elts) == 2:
            jvar, tvar = a.targets[0].elts[0].id, a.targets[0].elts[1].id
            for c in ast.walk(lp):
                if isinstance(c, ast.Call) and call_method(c)[1] in ("extend", "append", "update", "add") and isinstance(call_method(c)[0], ast.Name) and call_method(c)[0].id in tables:
                    sched = call_method(c)[0].id
                    arg = c.args[0] if c.args else None
                    both = isinstance(arg, (ast.List, ast.Tuple, ast.Set)) and sorted(src(e) for e in arg.elts) == sorted([jvar, ivar]) and call_method(c)[1] in ("extend", "update")
                    n += 1
                    ctx.check(both, "REMOVE", f"{FN}: a collapsed note schedules both of its indices", function=FN,
                              construct="removal pass does not schedule exactly the note-on's and the note-off's index",
                              message=short(c, 90), file=fi.file, node=c)
                    from ..astutil import path_conditions
                    conds = [(t, h) for t, h in path_conditions(c, lp) if "message_type" not in src(t)]
                    nz = Normaliser()
                    from ..linear import relation, same_relation
                    okg = len(conds) == 1 and conds[0][1] and same_relation(relation(conds[0][0], nz), Sym.atom(f"{mvar}.time") - Sym.atom(tvar), "<=")
                    n += 1
                    ctx.check(okg, "REMOVE", f"{FN}: the pair is scheduled iff end - recorded start <= 0", function=FN,
                              construct="scheduling of a collapsed note is not guarded by exactly `end - start <= 0`",
                              message=f"{[(short(t, 50), h) for t, h in conds]}", file=fi.file, node=c)
    # the removal itself
    sites = grid.shifted_pop_sites(fi.node)
    n += 1
    if not sites and sched is not None:
        # the other way to take the scheduled positions out: keep exactly the elements whose index was not scheduled
        #   [m for i, m in enumerate(result) if i not in scheduled]
        filt = [c for c in ast.walk(fi.node) if isinstance(c, ast.ListComp) and len(c.generators) == 1 and isinstance(c.generators[0].iter, ast.Call)
                and src(c.generators[0].iter.func) == "enumerate" and c.generators[0].iter.args and src(c.generators[0].iter.args[0]) == out
                and isinstance(c.generators[0].target, ast.Tuple) and len(c.generators[0].target.elts) == 2]
        for c in filt:
            iv, mv = (x.id for x in c.generators[0].target.elts)
            ifs = c.generators[0].ifs
            okf = src(c.elt) == mv and len(ifs) == 1 and isinstance(ifs[0], ast.Compare) and len(ifs[0].ops) == 1 and isinstance(ifs[0].ops[0], ast.NotIn) \
                and src(ifs[0].left) == iv and src(ifs[0].comparators[0]) == sched
            installed = any(isinstance(a, ast.Assign) and a.value is c and any(attr_chain(t) == ["self", "_messages"] for t in a.targets) for a in ast.walk(fi.node))
            ctx.check(okf and installed, "REMOVE", f"{FN}: the result keeps exactly the elements whose index was not scheduled (`{short(c, 60)}`)", function=FN,
                      construct="the filter that drops the scheduled positions keeps or drops something else", message=short(c, 90), file=fi.file, node=c)
        if filt:
            return n
    if not sites:
        ctx.check(False, "REMOVE", f"{FN}: scheduled indices are removed from the result", function=FN,
                  construct="scheduled indices are never removed from the result", message="zero-length notes stay in the sequence", file=fi.file, node=lp)
        return n
    for loop, L, call in sites:
        tv = loop.target.elts if isinstance(loop.target, ast.Tuple) else []
        nz = Normaliser()
        okp = len(tv) == 2 and src(call_method(call)[0]) == out and call.args and nz.norm(call.args[0]) == Sym.atom(tv[1].id) - Sym.atom(tv[0].id) \
            and sched is not None and sched in {x.id for x in ast.walk(L) if isinstance(x, ast.Name)}
        ctx.check(okp, "REMOVE", f"{FN}: `{short(call)}` removes position (index - number already removed) from the result", function=FN,
                  construct="shifted removal does not pop `index - shift` of the scheduled indices from the result", message=short(call, 80), file=fi.file, node=call)
    return n
