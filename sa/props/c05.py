"""C05 -- quantise puts every event on the grid and keeps every note well-formed (structural clauses)."""
from __future__ import annotations

import ast

from ..astutil import attr_chain, call_method, short, src, ancestors
from ..model import walk_local, AnalysisError
from ..report import Ctx
from ..engines import keykind, grid
from ..engines.typecase import TypeCase, TCState, events_matching
from ..engines.mustflow import MustFollow
from ..engines.effects import Effects

FN = "AbsoluteSequence.quantise"


def output_list_name(fn: ast.FunctionDef) -> str | None:
    """The local list that becomes `self._messages` (last rebind)."""
    name = None
    for n in walk_local(fn):
        if isinstance(n, ast.Assign) and any(attr_chain(t) == ["self", "_messages"] for t in n.targets) and isinstance(n.value, ast.Name):
            name = n.value.id
    return name


def message_loop(fn: ast.FunctionDef, over_self: bool = True) -> ast.For | None:
    for n in fn.body:
        if isinstance(n, ast.For) and isinstance(n.target, ast.Name) and attr_chain(n.iter) == ["self", "_messages"]:
            return n
    for n in walk_local(fn):
        if isinstance(n, ast.For) and isinstance(n.target, ast.Name) and attr_chain(n.iter) == ["self", "_messages"]:
            return n
    return None


def check(ctx: Ctx) -> None:
    _check(ctx)
    _extra(ctx)


def _check(ctx: Ctx) -> None:
    p = ctx.p
    fi = p.func(FN)
    ctx.analysed(fi)
    ctx.explanation = (
        "Structural necessary conditions of C05 on AbsoluteSequence.quantise: KEY1/KEY2 the open-note and timing "
        "dictionaries are indexed by channel and pitch (key-domain analysis); IDX1 the index list fed to the "
        "shifted-pop removal loop is provably ascending; GRID every time written (attribute store or Message(time=)) "
        "is provably a multiple of a step size (provenance lattice GRID/ORIG/OFFGRID); NEAR the candidates are, per step size, "
        "floor(time/step)*step and that plus one step (normal forms), i.e. the two grid points enclosing the event; ARGMIN the choice "
        "function has the argmin shape; KEEP every non-note message "
        "is appended to the output exactly once on every path and never enters the removal list (per-type abstract "
        "execution); SORT the rewrite of the event list is followed by the canonical re-sort on every exit. "
        "Not decided: nearest-position choice, displacement bound after the smothering filter, survival rule, "
        "non-overlap as numeric facts.")
    ctx.assumptions += ["step sizes are positive integers", "the input sequence is sorted by time (class invariant of AbsoluteSequence)"]

    # --- KEY
    keykind.check_function(ctx, FN, "KEY", expect_min=3)

    # --- IDX1
    sites = grid.shifted_pop_sites(fi.node)
    for loop, L, call in sites:
        ok, why = grid.provably_ascending(fi.node, loop, L)
        ctx.check(ok, "IDX1", f"{FN}: shifted removal `{short(call)}` over `{short(L)}`", function=FN,
                  construct="shifted-pop removal loop over an index list not proven ascending",
                  message=f"`{short(call)}` removes positions with a running shift, which is only correct for ascending "
                          f"indices: {why}", file=fi.file, node=loop, detail=why)
    # removal by other means (list comprehension filter, reversed deletion) is outside this idiom: nothing to prove
    ctx.counters["shifted_pop_sites"] = len(sites)

    # --- GRID
    gi = grid.analyse_quantise(fi)
    n_grid = n_bad = 0
    for key, (node, expr, k, what) in sorted(gi.sinks.items()):
        inst = f"{FN}: {what} <- {short(expr, 70)}"
        if k == grid.GRID:
            n_grid += 1
            ctx.ok("GRID", inst, "multiple of a step size")
            ctx.sample({"sink": inst, "kind": k})
        elif k == grid.ORIG:
            n_bad += 1
            ctx.violation("GRID", inst, function=FN, construct=f"{what} receives the unquantised time",
                          message=f"`{short(expr, 70)}` is (or may be) the message's original time, not a grid position",
                          file=fi.file, node=node)
        elif k == grid.OFFGRID:
            n_bad += 1
            ctx.violation("GRID", inst, function=FN, construct=f"{what} receives a grid position shifted by a constant",
                          message=f"`{short(expr, 70)}` is a multiple of a step size plus a non-zero constant: off the grid",
                          file=fi.file, node=node)
        else:
            ctx.undetermined("GRID", inst, f"kind {k}: provenance not recognised, not judged")
    ctx.floor("time writes in quantise judged (proven on-grid or proven off-grid)", n_grid + n_bad, 3)

    # --- NEAR: the candidates are the grid position at or below the event and the next one above, per step size
    near_rule(ctx, fi)

    # --- POS / ZERO / OVERLAP: the three comparisons that make notes well-formed
    compare_rules(ctx, fi)

    # --- KEEP
    loop = message_loop(fi.node)
    out = output_list_name(fi.node)
    if loop is None or out is None:
        raise AnalysisError(f"{FN}: message loop / output list not found")
    types = p.enum_order("MessageType")
    notes = {"NOTE_ON", "NOTE_OFF"}
    for T in types:
        if T in ("WAIT",):
            continue  # never present in an absolute sequence
        tc = TypeCase(p, fi, {loop.target.id}, T)
        exits = tc.run_body(loop.body)
        rng = events_matching(exits, lambda e: e[0] == "append" and e[1] == out and e[2] == "msg")
        inst = f"{FN}: {T} message -> appends to `{out}` {rng}"
        if T in notes:
            ctx.check(rng is not None and rng[1] <= 1, "KEEP", inst, function=FN, construct=f"{T} message may be appended more than once",
                      message=f"a {T} message can be appended {rng} times to the output", file=fi.file, node=loop)
        else:
            ctx.check(rng == (1, 1), "KEEP", inst, function=FN,
                      construct="non-note message not appended to the output exactly once on every path",
                      message=f"a {T} message is appended {rng} times (must be exactly once: non-note events are all kept)",
                      file=fi.file, node=loop)
    # the removal pass must only ever collect note messages
    second = [n for n in fi.node.body if isinstance(n, ast.For) and n is not loop and n.lineno > loop.lineno]
    removal_lists = {src(L) for _, L, _ in sites} | {L.args[0].id for _, L, _ in sites if isinstance(L, ast.Call) and L.args and isinstance(L.args[0], ast.Name)}
    for lp in second:
        msgvar = None
        if isinstance(lp.target, ast.Tuple) and len(lp.target.elts) == 2 and isinstance(lp.target.elts[1], ast.Name):
            msgvar = lp.target.elts[1].id
        elif isinstance(lp.target, ast.Name):
            msgvar = lp.target.id
        if msgvar is None or not any(isinstance(x, ast.Attribute) and x.attr == "message_type" for x in ast.walk(lp)):
            continue
        for T in types:
            if T in notes or T == "WAIT":
                continue
            tc = TypeCase(p, fi, {msgvar}, T)
            exits = tc.run_body(lp.body)
            rng = events_matching(exits, lambda e: e[0] == "append" and e[1] in removal_lists)
            ctx.check(rng in (None, (0, 0)), "KEEP", f"{FN}: {T} message never enters the removal list {rng}", function=FN,
                      construct="non-note message can be scheduled for removal",
                      message=f"a {T} message can be put on the removal list ({rng})", file=fi.file, node=lp)

    # --- SORT: after the final rebind of self._messages the list is re-sorted on every normal exit
    eff = Effects(p)

    def trigger(n):
        return isinstance(n, ast.Assign) and any(attr_chain(t) == ["self", "_messages"] for t in n.targets)

    def discharge(n):
        if isinstance(n, ast.Call):
            recv, name = call_method(n)
            if isinstance(recv, ast.Name) and recv.id == "self" and name and p.lookup_method("AbsoluteSequence", name):
                return any(w.kind == "sort" for w in eff.writes("AbsoluteSequence", name))
            if attr_chain(recv) == ["self", "_messages"] and name == "sort":
                return True
        return False

    bad = MustFollow(trigger, discharge).run(fi.node)
    ctx.check(not bad, "SORT", f"{FN}: canonical re-sort after rewriting the event list", function=FN,
              construct="event list rewritten without a following canonical sort",
              message="self._messages is replaced and an exit is reachable without re-sorting it", file=fi.file,
              node=bad[0][1] if bad else fi.node)


def compare_rules(ctx: Ctx, fi) -> None:
    """POS: a note-off candidate is admitted iff it lies strictly after the note's quantised start; ZERO: a pair is scheduled
    for removal iff end - start <= 0; OVERLAP: a note-on is accepted iff no earlier end is recorded or it does not start
    before that end.  Each is recognised as a relation `E op 0` in normal form (mirror images accepted)."""
    from ..linear import Normaliser, Sym, relation, same_relation
    loop = message_loop(fi.node)
    if loop is None:
        return
    nz = Normaliser()
    # POS: inside the note-off branch, `valid.append(position)` under a test on position - start
    pos_sites = []
    for n in ast.walk(loop):
        if isinstance(n, ast.For) and isinstance(n.target, ast.Name):
            for c in ast.walk(n):
                if isinstance(c, ast.Call) and call_method(c)[1] == "append" and c.args and isinstance(c.args[0], ast.Name) and c.args[0].id == n.target.id:
                    g = next((a for a in ancestors(c) if isinstance(a, ast.If)), None)
                    if g is not None and g in list(ast.walk(n)):
                        pos_sites.append((n.target.id, g, c))
    for var, g, c in pos_sites:
        r = relation(g.test, nz)
        inside_body = any(c is x for y in g.body for x in ast.walk(y))
        if r is None:
            ctx.undetermined("POS", f"{FN}: end-candidate filter", f"`{short(g.test)}` not a single comparison")
            continue
        d, op = r
        others = [a for a in d.atoms() if a != var]
        ok = len(others) == 1 and same_relation(r if inside_body else (d, {">": "<=", ">=": "<", "<": ">=", "<=": ">", "==": "!=", "!=": "=="}[op]),
                                                   Sym.atom(var) - Sym.atom(others[0]), ">")
        ctx.check(ok, "POS", f"{FN}: an end candidate is admitted iff it lies strictly after the note's start (`{short(g.test)}`)", function=FN,
                  construct="note-off candidates are not restricted to positions strictly after the note's quantised start",
                  message=f"`{short(g.test)}`: a candidate equal to (or before) the start gives a zero or negative length", file=fi.file, node=g)
    # ZERO and OVERLAP
    second = [n for n in fi.node.body if isinstance(n, ast.For) and n is not loop and n.lineno > loop.lineno]
    for lp in second:
        for g in [x for x in ast.walk(lp) if isinstance(x, ast.If)]:
            if any(isinstance(c, ast.Call) and call_method(c)[1] in ("extend", "append") for y in g.body for c in ast.walk(y)) and ".time" in src(g.test):
                r = relation(g.test, nz)
                ok = False
                if r is not None:
                    d, op = r
                    tatoms = [a for a in d.atoms() if a.endswith(".time")]
                    oatoms = [a for a in d.atoms() if not a.endswith(".time")]
                    if len(tatoms) == 1 and len(oatoms) == 1:
                        ok = same_relation(r, Sym.atom(tatoms[0]) - Sym.atom(oatoms[0]), "<=") or same_relation(r, Sym.atom(tatoms[0]) - Sym.atom(oatoms[0]), "==")
                ctx.check(ok, "ZERO", f"{FN}: a pair is removed iff its end does not lie after its start (`{short(g.test)}`)", function=FN,
                          construct="collapsed-note removal does not test end - start <= 0",
                          message=f"`{short(g.test)}`: zero-length notes would survive, or proper notes be removed", file=fi.file, node=g)
    for g in [x for x in ast.walk(loop) if isinstance(x, ast.If) and isinstance(x.test, ast.BoolOp) and isinstance(x.test.op, ast.Or)]:
        parts = g.test.values
        notin = [v for v in parts if isinstance(v, ast.Compare) and isinstance(v.ops[0], ast.NotIn)]
        rels = [relation(v, nz) for v in parts if relation(v, nz) is not None and not (isinstance(v, ast.Compare) and isinstance(v.ops[0], ast.NotIn))]
        if len(notin) == 1 and len(rels) == 1:
            d, op = rels[0]
            tatoms = [a for a in d.atoms() if a.endswith(".time")]
            oatoms = [a for a in d.atoms() if not a.endswith(".time")]
            ok = len(tatoms) == 1 and len(oatoms) == 1 and oatoms[0].endswith("[1]") and same_relation(rels[0], Sym.atom(tatoms[0]) - Sym.atom(oatoms[0]), ">=")
            ctx.check(ok, "OVERLAP", f"{FN}: a note-on is accepted iff it does not start before the previous end of its key (`{short(g.test, 80)}`)", function=FN,
                      construct="overlap test is not `no previous note, or start >= previous end`",
                      message=f"`{short(g.test, 100)}`", file=fi.file, node=g)


def near_rule(ctx: Ctx, fi) -> None:
    from ..linear import Normaliser, Sym
    loop = message_loop(fi.node)
    if loop is None:
        return
    m = loop.target.id
    nz = Normaliser()
    nz.run_block([s_ for s_ in loop.body if isinstance(s_, ast.Assign) and isinstance(s_.targets[0], ast.Name) and not isinstance(s_.value, (ast.ListComp, ast.List))])
    comps = [s_ for s_ in loop.body if isinstance(s_, ast.Assign) and isinstance(s_.targets[0], ast.Name) and isinstance(s_.value, ast.ListComp)]
    floor_lists, ceil_lists = {}, {}
    t = Sym.atom(f"{m}.time")
    for c in comps:
        lc = c.value
        g = lc.generators[0]
        if len(lc.generators) != 1:
            continue
        tv = g.target.id if isinstance(g.target, ast.Name) else None
        esym = nz.norm(lc.elt)
        e = esym.canon()
        floor_sym = (Sym.atom(tv) * Sym.atom(f"floordiv({t.canon()},{tv})")) if tv else None
        if tv and esym == floor_sym:
            floor_lists[c.targets[0].id] = (c, src(g.iter))
        elif tv and isinstance(g.iter, ast.Call) and isinstance(g.iter.func, ast.Name) and g.iter.func.id == "range":
            # [left[i] + steps[i] for i in range(len(steps))]
            for fl, (_, steps) in floor_lists.items():
                if e in (f"{fl}[{tv}] + {steps}[{tv}]", f"{steps}[{tv}] + {fl}[{tv}]"):
                    ceil_lists[c.targets[0].id] = (c, fl)
        elif tv:
            for fl, (_, steps) in floor_lists.items():
                if src(g.iter) == steps and esym == floor_sym + Sym.atom(tv):
                    ceil_lists[c.targets[0].id] = (c, fl)
    step_param = fi.params[1] if len(fi.params) > 1 else "step_sizes"
    in_idiom = any(step_param in {n.id for n in ast.walk(c.value.generators[0].iter) if isinstance(n, ast.Name)} for c in comps)
    if not floor_lists and not ceil_lists and not in_idiom:
        ctx.undetermined("NEAR", f"{FN}: candidate positions", "candidate lists not in the recognised comprehension form: not judged")
        return
    ctx.check(len(floor_lists) == 1, "NEAR", f"{FN}: lower candidates are (time // step) * step for every step size ({sorted(floor_lists)})", function=FN,
              construct="lower grid candidates are not floor(time / step) * step", message=f"{[short(c.value, 80) for c in comps]}", file=fi.file,
              node=comps[0] if comps else fi.node)
    ctx.check(len(ceil_lists) == 1, "NEAR", f"{FN}: upper candidates are the lower candidate plus its step ({sorted(ceil_lists)})", function=FN,
              construct="upper grid candidates are not the lower candidate plus one step",
              message=f"{[short(c.value, 80) for c in comps]}: an event could be moved by more than one step", file=fi.file, node=comps[-1] if comps else fi.node)
    # both lists feed the candidate set
    both = [s_ for s_ in loop.body if isinstance(s_, ast.Assign) and isinstance(s_.value, ast.BinOp) and isinstance(s_.value.op, ast.Add)
            and {n.id for n in ast.walk(s_.value) if isinstance(n, ast.Name)} >= (set(floor_lists) | set(ceil_lists))]
    ctx.check(bool(both) or not (floor_lists and ceil_lists), "NEAR", f"{FN}: lower and upper candidates are both offered", function=FN,
              construct="candidate set omits the lower or the upper grid positions", message="", file=fi.file, node=loop)


def _extra(ctx):
    from ..engines.typestate import check_wrappers
    check_wrappers(ctx, ['quantise'])
    from ..engines.structure import argmin_rule
    argmin_rule(ctx)
