"""C01 -- tokenise -> encode -> decode -> detokenise reproduces every valid piece (emitter/parser agreement)."""
from __future__ import annotations

import ast
import copy

from ..astutil import clone, attr_chain, call_method, enum_member, short, src, ancestors, kwarg
from ..linear import Normaliser, Sym, relation, same_relation
from ..model import walk_local, AnalysisError
from ..report import Ctx
from ..engines import tokeniser as T
from ..engines.templates import TOK, parse_parts, show
from .c19 import clock_summaries, CLOCK_PREFIXES



def _named_string(scope: ast.AST, a: ast.AST) -> ast.AST:
    """A name that stands for one f-string (`part = f"..."`, assigned once) is that f-string."""
    if isinstance(a, ast.Name):
        d = [x for x in ast.walk(scope) if isinstance(x, ast.Assign) and len(x.targets) == 1 and isinstance(x.targets[0], ast.Name) and x.targets[0].id == a.id]
        if len(d) == 1 and isinstance(d[0].value, ast.JoinedStr):
            return d[0].value
    return a


def fused_part_sites(note_if: ast.If, result: str | None = None):
    """Statements that add one formatted part to the note token under construction: `token += f"..."` or `parts.append(f"...")` on a
    local list that is later joined.  -> [(statement node, JoinedStr)]"""
    joined = {c.args[0].id for c in ast.walk(note_if) if isinstance(c, ast.Call) and call_method(c)[1] == "join" and c.args and isinstance(c.args[0], ast.Name)}
    out = []
    for n in ast.walk(note_if):
        if isinstance(n, ast.AugAssign) and isinstance(n.value, ast.JoinedStr):
            out.append((n, n.value))
        elif isinstance(n, ast.Expr) and isinstance(n.value, ast.Call) and call_method(n.value)[1] == "append" and isinstance(call_method(n.value)[0], ast.Name) \
                and call_method(n.value)[0].id in joined and n.value.args and isinstance(_named_string(note_if, n.value.args[0]), ast.JoinedStr):
            out.append((n, _named_string(note_if, n.value.args[0])))
    return out

def block_of(n: ast.AST) -> list[ast.stmt]:
    par = getattr(n, "_parent", None)
    for fld in ("body", "orelse", "finalbody"):
        b = getattr(par, fld, None)
        if isinstance(b, list) and n in b:
            return b
    return [n]


def stmt_of(n: ast.AST) -> ast.stmt:
    while not isinstance(n, ast.stmt):
        n = n._parent
    return n


def emission_sites(fn: ast.FunctionDef):
    """prefix member -> [(append call, f-string or expr)] for every `tokens.append(...)` in tokenise (incl. closure)."""
    out = {}
    sinks = T.output_lists(fn)
    cands = []
    for c in ast.walk(fn):
        if isinstance(c, ast.Call) and call_method(c)[1] == "append" and isinstance(call_method(c)[0], ast.Name) and call_method(c)[0].id in sinks and c.args:
            cands.append((c, c.args[0]))
        # a list display moved into the result: `tokens.extend(batch + [note_token])`
        if (isinstance(c, ast.Call) and call_method(c)[1] == "extend" and isinstance(call_method(c)[0], ast.Name) and call_method(c)[0].id in sinks and c.args) \
                or (isinstance(c, ast.Assign) and len(c.targets) == 1 and isinstance(c.targets[0], ast.Name) and c.targets[0].id in sinks and isinstance(c.value, ast.BinOp)):
            for x in ast.walk(c.args[0] if isinstance(c, ast.Call) else c.value):
                if isinstance(x, ast.List):
                    cands += [(c, el) for el in x.elts]
    for c, a in cands:
        if True:
            a = _named_string(fn, a)
            m = None
            if isinstance(a, ast.JoinedStr):
                for v in a.values:
                    if isinstance(v, ast.FormattedValue):
                        m = enum_member(v.value, "TokenisationPrefixes")
                        break
            else:
                m = enum_member(a, "TokenisationPrefixes")
            out.setdefault(m, []).append((c, a))
    return out


def fields_of(js: ast.JoinedStr) -> list[ast.expr]:
    out = []
    first = True
    for v in js.values:
        if isinstance(v, ast.FormattedValue):
            if first and enum_member(v.value, "TokenisationPrefixes"):
                first = False
                continue
            first = False
            out.append(v.value)
    return out


def check(ctx: Ctx) -> None:
    _check(ctx)
    _extra(ctx)


def _check(ctx: Ctx) -> None:
    p = ctx.p
    fe = p.func(f"{TOK}.tokenise")
    fd = p.func(f"{TOK}.detokenise")
    ctx.analysed(fe)
    ctx.analysed(fd)
    ctx.explanation = (
        "Writer/reader agreement the round trip rests on (necessary conditions, all flag assignments): TPL1/TPL4 every token "
        "shape the emitter can produce is a vocabulary shape and every part kind is parsed by detokenise from the same field "
        "position through int(); TPL6 the running values (TRACK, VALUE, VELOCITY) are processed before PITCH; CLK2 the effect "
        "tokenise applies to its own clock when it emits a REST / BAR / TIME_SIGNATURE token equals, in rational normal form, the "
        "effect detokenise applies for that token (BAR under the emission guard remaining == 0; TIME_SIGNATURE after substituting "
        "the emitted fields scaled = n*8/d and the constant 8); CLK3 one capacity formula at all sites; CLK5 mid-bar signature guard "
        "in the emitter as in the parser; NOTE the emitter's VALUE field is end - onset of the pairing and the pitch its note; "
        "detokenise writes note-on at the clock with the running velocity and note-off at clock + running value, into the running "
        "track; each running-value branch stores its parsed field; RUN the emitter re-emits a running value iff it changed or "
        "running values are off, updates the three previous values after every note, and starts from values no note can have; "
        "GUARD the input constraints named in the statement are exactly the raising guards that dominate emission; REST the rest "
        "before an event is (event time + carried shift) - clock; CLOSE a partly filled last bar is closed with rests. "
        "Not decided: equality of the reconstructed note set for every piece; velocity-bin value semantics; duration rounding.")
    ctx.assumptions += ["vocabulary closure (C02)", "get_interleaved_message_pairings yields (channel, [on, off]) ordered by onset",
                        "DEFAULT_TIME_SIGNATURE_NUMERATOR == DEFAULT_TIME_SIGNATURE_DENOMINATOR (both 8 in the settings file)"]
    ctx.check(p.settings.get("DEFAULT_TIME_SIGNATURE_NUMERATOR") == p.settings.get("DEFAULT_TIME_SIGNATURE_DENOMINATOR") and
              isinstance(p.settings.get("DEFAULT_TIME_SIGNATURE_NUMERATOR"), int), "CONST",
              "default signature numerator and denominator settings are the same integer (the emitter writes one, the vocabulary the other)",
              function="settings", construct="DEFAULT_TIME_SIGNATURE_NUMERATOR differs from DEFAULT_TIME_SIGNATURE_DENOMINATOR",
              message="time-signature tokens emitted by tokenise would not be vocabulary members", file="scoda/config/default_settings.json")

    # ---- TPL1 / TPL4 (shapes) for all flag assignments
    chain = T.dispatch_chain(fd.node)
    branches = {m: body for m, _, body in chain if m is not None}
    bad_shapes = 0
    emitted_parts = set()
    for fl in T.all_flag_assignments():
        label = T.flag_label(fl)
        vocab = {parse_parts(t, {}) for t in T.vocabulary_templates(p, fl)}
        emit, doms = T.emitter_templates(p, fl)
        for t, node in emit.items():
            pp = parse_parts(t, {})
            if pp is None:
                raise AnalysisError(f"emitted token `{show(t)}` outside the grammar")
            if pp and pp[0] == "TRAILING-SEPARATOR":
                bad_shapes += 1
                ctx.violation("TPL1", f"[{label}] emitted `{show(t)}`", function=fe.qualname,
                              construct=f"emitted token shape `{show(t)}` ends with a separator",
                              message=f"with {label} tokenise emits a token with a trailing '-' (not a vocabulary member, and detokenise splits off an empty part)",
                              file=fe.file, node=node)
                continue
            if pp not in vocab:
                bad_shapes += 1
                ctx.violation("TPL1", f"[{label}] emitted `{show(t)}`", function=fe.qualname,
                              construct=f"emitted token shape `{show(t)}` is not a vocabulary key shape",
                              message=f"with {label} tokenise output cannot be encoded", file=fe.file, node=node)
            emitted_parts.update(x for x in pp if isinstance(x, tuple) and len(x) == 2 and isinstance(x[1], tuple))
    if not bad_shapes:
        ctx.ok("TPL1", "all emitted token shapes are vocabulary shapes for the 16 flag assignments")
    for pr, flds in sorted(emitted_parts):
        inst = f"emitted part <{pr}> ({len(flds)} field(s))"
        ctx.check(pr in branches, "TPL4", inst + " has a detokenise branch", function=fd.qualname, construct=f"no detokenise branch for emitted prefix {pr}",
                  message="", file=fd.file, node=fd.node)
    for v, (d, how) in sorted(doms.items()):
        ctx.ok("GUARD", f"emitter field `{v}` ranges over {d}", how)
    for need in ("PITCH", "VALUE", "TSG", "TRACK", "REST", "VELOCITY"):
        ctx.check(any(d == need for d, _ in doms.values()), "GUARD", f"input constraint for {need} dominates emission", function=fe.qualname,
                  construct=f"no guard/provenance establishes the {need} field's domain",
                  message=f"tokenise can emit a {need} value the vocabulary does not contain instead of rejecting the input", file=fe.file, node=fe.node)
    so = p.cls(TOK).class_attrs.get("sort_order")
    order = [enum_member(e, "TokenisationPrefixes") for e in so.elts] if isinstance(so, ast.List) else []
    ctx.check("PITCH" in order and all(x in order and order.index(x) < order.index("PITCH") for x in ("TRACK", "VALUE", "VELOCITY")), "TPL6",
              f"sort_order {order}: running values before PITCH", function=TOK, construct="sort_order lets PITCH be processed before its token's running values",
              message="", file=fd.file, node=so or fd.node)
    # the sort key in detokenise uses sort_order
    srt = [c for c in ast.walk(fd.node) if isinstance(c, ast.Call) and isinstance(c.func, ast.Name) and c.func.id == "sorted" and "sort_order" in src(c)]
    if not srt:
        # ... or in a helper of the class that detokenise calls on the token (the key may be a nested function there)
        for c in ast.walk(fd.node):
            if isinstance(c, ast.Call) and isinstance(c.func, ast.Attribute) and isinstance(c.func.value, ast.Name) and c.func.value.id == "self":
                h = p.lookup_method(fd.cls, c.func.attr)
                if h is not None and h.qualname != fd.qualname:
                    hs = [x for x in ast.walk(h.node) if isinstance(x, ast.Call) and isinstance(x.func, ast.Name) and x.func.id == "sorted" and "_split_token" in src(x)]
                    if hs and "sort_order" in src(h.node) and any(k.arg == "key" for k in hs[0].keywords):
                        srt = hs
    ctx.check(bool(srt) and "_split_token" in src(srt[0]), "TPL6", "detokenise orders the parts of each token by sort_order", function=fd.qualname,
              construct="detokenise does not order token parts by sort_order", message="", file=fd.file, node=fd.node)

    # ---- CLK2
    sites = emission_sites(fe.node)
    _, _, sum_d = clock_summaries(ctx, f"{TOK}.detokenise")
    hook = T.field_hook(p.settings)
    dmap = {m: body for m, _, body in chain if m is not None}

    droles = ctx.extra["clock_roles"]["detokenise"]
    dsub = {a: Sym.atom(r) for r, a in droles.items()}

    for pr in CLOCK_PREFIXES:
        if pr not in dmap:
            ctx.violation("CLK2", f"detokenise handles {pr}", function=fd.qualname, construct=f"no detokenise branch for prefix {pr}",
                          message=f"{pr} tokens emitted by tokenise would not be applied by detokenise", file=fd.file, node=fd.node)
    if any(pr not in dmap for pr in CLOCK_PREFIXES):
        return

    # ---- SIGMSG: the TIME_SIGNATURE event detokenise writes is a function of the token alone -- on every path through the branch
    # its numerator / denominator are the token's two fields, or both halved (simplification); never a value left over from an
    # earlier token
    def _paths(stmts, nz0, target):
        """Environments (one per path, `if`s forked) in force where `target` is reached."""
        envs = [Normaliser(env=dict(nz0.env), atom_hook=hook)]
        for s_ in stmts:
            if any(x is target for x in ast.walk(s_)) and not isinstance(s_, ast.If):
                return envs, True
            if isinstance(s_, ast.If):
                inb = any(x is target for y in s_.body for x in ast.walk(y))
                ino = any(x is target for y in s_.orelse for x in ast.walk(y))
                nxt_envs, hit = [], False
                for e_ in envs:
                    for blk, holds in ((s_.body, inb), (s_.orelse, ino)):
                        sub, h = _paths(blk, e_, target)
                        if inb or ino:
                            if holds:
                                nxt_envs += sub
                                hit = hit or h
                        else:
                            nxt_envs += sub
                if inb or ino:
                    return nxt_envs, hit
                envs = nxt_envs[:16]
            elif isinstance(s_, (ast.Assign, ast.AugAssign)):
                for e_ in envs:
                    e_.run_block([s_])
        return envs, False
    ts_body = dmap.get("TIME_SIGNATURE") or []
    ts_ctor = next((c for y in ts_body for c in ast.walk(y) if isinstance(c, ast.Call) and isinstance(c.func, ast.Name) and c.func.id == "Message"
                    and enum_member(kwarg(c, "message_type"), "MessageType") == "TIME_SIGNATURE"), None)
    if ts_ctor is None:
        ctx.undetermined("SIGMSG", "detokenise: TIME_SIGNATURE event", "no Message(message_type=TIME_SIGNATURE, ...) in the branch: not judged")
    else:
        envs, hit = _paths(ts_body, Normaliser(atom_hook=hook), ts_ctor)
        bad_paths = []
        for e_ in envs if hit else []:
            n_, d_ = e_.norm(kwarg(ts_ctor, "numerator")), e_.norm(kwarg(ts_ctor, "denominator"))
            f1, f2 = Sym.atom("FIELD(1)"), Sym.atom("FIELD(2)")
            half = Sym.const(1) * Sym.const(1)
            raw = n_ == f1 and d_ == f2
            halved = (n_.atoms() == {"FIELD(1)"} and d_.atoms() == {"FIELD(2)"} and n_ + n_ == f1 and d_ + d_ == f2) \
                or (n_.canon() == "floordiv(FIELD(1),2)" and d_.canon() == "floordiv(FIELD(2),2)")        # `// 2` under the evenness guard
            if not (raw or halved):
                bad_paths.append(f"numerator `{n_.canon()}`, denominator `{d_.canon()}`")
        ctx.check(hit and not bad_paths, "SIGMSG", f"detokenise: the written TIME_SIGNATURE carries the token's fields (or both halved) on each of {len(envs)} path(s)",
                  function=fd.qualname, construct="the TIME_SIGNATURE event written by detokenise is not determined by the token's own fields on every path",
                  message=f"{bad_paths[:2]}: a value left over from an earlier token (or a default) is written as the signature in force", file=fd.file, node=ts_ctor)

    # ---- SIGEMIT: *whether* the event is written.  The branch (the part that runs at a bar start) is interpreted over truth
    # assignments to its atomic conditions: `state variable ? token field` comparisons (evaluated with the values in force at
    # that statement -- after `cur = new` the two are equal), evenness tests, flags.  In every world in which the token's
    # signature differs from the one in force the event is written; the state variables end up holding the token's fields; the
    # halved form is written only under both evenness tests.
    class _Undecided(Exception):
        pass

    def _sig_states(stmts, states, target):
        import re as _re

        def fork(st, **kw):
            d = dict(st)
            d["nz"] = Normaliser(env=dict(st["nz"].env), atom_hook=hook)
            d["bools"] = dict(st["bools"])
            d.update(kw)
            return d

        def atom(key, w):
            if key in w:
                return [(w[key], w)]
            return [(True, {**w, key: True}), (False, {**w, key: False})]

        def ev(t, st, w):
            if isinstance(t, ast.Constant):
                return [(bool(t.value), w)]
            if isinstance(t, ast.UnaryOp) and isinstance(t.op, ast.Not):
                return [(not b, w2) for b, w2 in ev(t.operand, st, w)]
            if isinstance(t, ast.BoolOp):
                is_and = isinstance(t.op, ast.And)
                res = [(is_and, w)]
                for v in t.values:
                    nxt = []
                    for b, w2 in res:
                        if b != is_and:
                            nxt.append((b, w2))            # short-circuited
                        else:
                            nxt += ev(v, st, w2)
                    res = nxt
                return res
            if isinstance(t, ast.Name) and t.id in st["bools"]:
                return [(st["bools"][t.id], w)]
            if isinstance(t, ast.Compare) and len(t.ops) == 1:
                op, l_, r_ = t.ops[0], t.left, t.comparators[0]
                if isinstance(op, (ast.Eq, ast.NotEq)) and isinstance(l_, ast.BinOp) and isinstance(l_.op, ast.Mod) and isinstance(l_.right, ast.Constant) \
                        and l_.right.value == 2 and isinstance(r_, ast.Constant) and r_.value in (0, 1):
                    try:
                        key = ("even", st["nz"].norm(l_.left).canon())
                    except Exception:
                        key = ("src", src(t))
                    want_even = (r_.value == 0) == isinstance(op, ast.Eq)
                    return [(b == want_even, w2) for b, w2 in atom(key, w)]
                if isinstance(op, (ast.Eq, ast.NotEq)) and isinstance(l_, ast.Tuple) and isinstance(r_, ast.Tuple) and len(l_.elts) == len(r_.elts):
                    conj = ast.BoolOp(op=ast.And(), values=[ast.Compare(left=x, ops=[ast.Eq()], comparators=[y]) for x, y in zip(l_.elts, r_.elts)])
                    return [(b == isinstance(op, ast.Eq), w2) for b, w2 in ev(conj, st, w)]
                if isinstance(op, (ast.Eq, ast.NotEq)):
                    try:
                        a_, b_ = st["nz"].norm(l_).canon(), st["nz"].norm(r_).canon()
                    except Exception:
                        return atom(("src", src(t)), w)
                    if a_ == b_:
                        return [(isinstance(op, ast.Eq), w)]
                    return [(b == isinstance(op, ast.Eq), w2) for b, w2 in atom(("eq", frozenset((a_, b_))), w)]
            return atom(("src", src(t)), w)

        def has(n):
            return any(x is target for x in ast.walk(n))
        for s_ in stmts:
            nxt = []
            for st in states:
                if st["done"]:
                    nxt.append(st)
                    continue
                if isinstance(s_, ast.If):
                    for b, w2 in ev(s_.test, st, st["world"]):
                        sub = fork(st, world=w2)
                        nxt += _sig_states(s_.body if b else s_.orelse, [sub], target)
                elif has(s_):
                    if isinstance(s_, (ast.For, ast.While, ast.Try, ast.With)):
                        raise _Undecided(f"the event is written inside a `{type(s_).__name__.lower()}` statement")
                    nxt.append(fork(st, reached=True, done=True, at=Normaliser(env=dict(st["nz"].env), atom_hook=hook)))
                elif isinstance(s_, (ast.Continue, ast.Break, ast.Return, ast.Raise)):
                    nxt.append(fork(st, done=True))
                elif isinstance(s_, ast.Assign) and len(s_.targets) == 1 and isinstance(s_.targets[0], ast.Name) \
                        and (isinstance(s_.value, (ast.BoolOp, ast.Compare)) or (isinstance(s_.value, ast.UnaryOp) and isinstance(s_.value.op, ast.Not))
                             or (isinstance(s_.value, ast.Constant) and isinstance(s_.value.value, bool))):
                    for b, w2 in ev(s_.value, st, st["world"]):
                        nxt.append(fork(st, world=w2, bools={**st["bools"], s_.targets[0].id: b}))
                elif isinstance(s_, (ast.Assign, ast.AugAssign)):
                    try:
                        st["nz"].run_block([s_])
                    except Exception:
                        pass
                    for t_ in (s_.targets if isinstance(s_, ast.Assign) else [s_.target]):
                        if isinstance(t_, ast.Name):
                            st["bools"].pop(t_.id, None)
                    nxt.append(st)
                elif isinstance(s_, (ast.For, ast.While, ast.Try, ast.With)):
                    for x in ast.walk(s_):
                        if isinstance(x, ast.Name) and isinstance(x.ctx, ast.Store):
                            st["bools"].pop(x.id, None)
                            st["nz"].env.pop(x.id, None)
                    nxt.append(st)
                else:
                    nxt.append(st)
            states = nxt
            if len(states) > 512:
                raise _Undecided("more than 512 paths")
        return states
    if ts_ctor is None:
        ctx.violation("SIGEMIT", "detokenise: a TIME_SIGNATURE token writes a TIME_SIGNATURE event", function=fd.qualname,
                      construct="the TIME_SIGNATURE branch of detokenise writes no TIME_SIGNATURE event",
                      message="the decoded piece carries no signature change: every bar after it lies on the wrong grid", file=fd.file,
                      node=(ts_body[0] if ts_body else fd.node))
    else:
        _, _, live, _ = T.ts_guard_split(ts_body, droles["cur_time_bar"])
        try:
            finals = _sig_states(live, [dict(nz=Normaliser(atom_hook=hook), world={}, bools={}, reached=False, done=False, at=None)], ts_ctor)
        except _Undecided as e:
            finals = None
            ctx.undetermined("SIGEMIT", "detokenise: a changed signature is written", f"{e}: not judged")
        if finals is not None:
            import re as _re

            def dkey(w, k):
                """the `state variable == <the token's field k>` atoms of a world: [(variable, what it is compared with, equal?)]; the
                other side is FIELD(k) itself or a tuple of the fields (`(n, d) != in_force`)"""
                out = []
                for key, val in w.items():
                    if key[0] != "eq" or len(key[1]) != 2:
                        continue
                    a_, b_ = tuple(key[1])
                    for var, oth in ((a_, b_), (b_, a_)):
                        if _re.fullmatch(r"\w+", var) and f"FIELD({k})" in oth and _re.fullmatch(r"[\w(),\s]+", oth) and not _re.search(r"[*/+-]", oth):
                            out.append((var, oth, val))
                return out
            lost, stale, odd = [], [], []
            for st in finals:
                w = st["world"]
                same = all(any(val for _, _, val in dkey(w, k)) for k in (1, 2))        # both fields known equal to the state in force
                if not same and not st["reached"]:
                    lost.append({(k if isinstance(k, str) else "/".join(sorted(map(str, k[1]))) if k[0] == "eq" else str(k[1])): v for k, v in w.items()})
                for k in (1, 2):
                    for var, oth, _ in dkey(w, k):
                        endv = st["nz"].env.get(var)
                        if oth == f"FIELD({k})":
                            fresh = endv is not None and endv.atoms() == {f"FIELD({k})"}
                        else:
                            fresh = endv is not None and f"FIELD({k})" in endv.canon()
                        if not fresh:
                            stale.append((var, k))
                if st["reached"]:
                    n_, d_ = st["at"].norm(kwarg(ts_ctor, "numerator")), st["at"].norm(kwarg(ts_ctor, "denominator"))
                    if not (n_ == Sym.atom("FIELD(1)") and d_ == Sym.atom("FIELD(2)")):
                        if not (w.get(("even", "FIELD(1)")) is True and w.get(("even", "FIELD(2)")) is True):
                            odd.append((n_.canon(), d_.canon()))
            ctx.check(not lost, "SIGEMIT", f"detokenise: a TIME_SIGNATURE token whose signature differs from the one in force writes an event ({len(finals)} path(s))",
                      function=fd.qualname, construct="a changed time signature is not written by detokenise on some path",
                      message=f"conditions under which nothing is written although the signature changes: {lost[:2]}", file=fd.file, node=ts_ctor)
            ctx.check(not stale, "SIGEMIT", "detokenise: the signature in force is updated from the token before the branch ends", function=fd.qualname,
                      construct="the signature a TIME_SIGNATURE token is compared with is not updated from the token",
                      message=f"{sorted(set(stale))[:2]}: compared with field k of the token but not set from it: later tokens are compared with a stale signature",
                      file=fd.file, node=ts_ctor)
            ctx.check(not odd, "SIGEMIT", "detokenise: a simplified (halved) signature is written only when numerator and denominator are both even", function=fd.qualname,
                      construct="detokenise writes a modified signature outside the both-even case",
                      message=f"written (numerator, denominator) {odd[:2]} on a path that does not establish that both fields are even", file=fd.file, node=ts_ctor)

    def d_effect(pr):
        body = dmap[pr]
        if pr == "TIME_SIGNATURE":
            _, _, body, _ = T.ts_guard_split(body, droles["cur_time_bar"])
        env = T.branch_effect(body, p.settings)
        return {r: env.get(a, Sym.atom(a)).subst(dsub) for r, a in droles.items()}

    # emitter: identify its clock variables from the REST emission block and the bar-full block
    rest_sites = sites.get("REST", [])
    bar_sites = sites.get("BAR", [])
    ts_sites = sites.get("TIME_SIGNATURE", [])
    missing_kind = False
    for kind_, sites_ in (("REST", rest_sites), ("BAR", bar_sites), ("TIME_SIGNATURE", ts_sites)):
        if not ctx.require("CLK2", f"tokenise emits {kind_} tokens", len(sites_), 1, function=fe.qualname,
                           construct=f"tokenise never emits a {kind_} token", message=f"no `tokens.append(...)` of a {kind_} token: detokenise's clock is never told about "
                           f"{'elapsed time' if kind_ == 'REST' else 'bar lines' if kind_ == 'BAR' else 'signature changes'}", file=fe.file, node=fe.node):
            missing_kind = True
    if missing_kind:
        return
    c0, js0 = rest_sites[0]
    flds0 = fields_of(js0)
    if len(flds0) != 1 or not isinstance(flds0[0], ast.Name):
        raise AnalysisError("REST emission: field expression not a simple name")
    rest_env = T.branch_effect([s_ for s_ in block_of(stmt_of(c0)) if isinstance(s_, (ast.Assign, ast.AugAssign))
                                and not (isinstance(s_, ast.Assign) and any(isinstance(t_, ast.Name) and t_.id == flds0[0].id for t_ in s_.targets))], p.settings)
    bar_if = None
    for a in ancestors(bar_sites[0][0]):
        if isinstance(a, ast.If) and isinstance(a.test, ast.Compare) and isinstance(a.test.comparators[0], ast.Constant) and a.test.comparators[0].value == 0 \
                and isinstance(a.test.left, ast.Name):
            bar_if = a
    bar_env = T.branch_effect([s_ for s_ in bar_if.body if isinstance(s_, (ast.Assign, ast.AugAssign))], p.settings) if bar_if is not None else {}
    eroles = T.roles_from_effects(rest_env, bar_env, Sym.atom(flds0[0].id))
    if eroles is None:
        ctx.violation("CLK2", "tokenise: clock bookkeeping of a REST / full bar", function=fe.qualname,
                      construct="emitter's REST/BAR clock bookkeeping does not have the shape time += r, bar time += r, remaining -= r; bar time = 0, remaining = total",
                      message=f"REST block effect {({k: v.canon() for k, v in rest_env.items()})}; bar-full block effect {({k: v.canon() for k, v in bar_env.items()})}",
                      file=fe.file, node=stmt_of(c0))
        eroles = {r: r for r in T.ROLE_NAMES}
    ctx.extra["clock_roles"]["tokenise"] = eroles
    esub = {a: Sym.atom(r) for r, a in eroles.items()}

    def e_effect(env):
        return {r: env.get(a, Sym.atom(a)).subst(esub) for r, a in eroles.items()}

    # REST
    for c, js in rest_sites:
        st = stmt_of(c)
        flds = fields_of(js)
        # (the emitted value itself stays a symbol: how it is chosen is RESTSUM's question, here only what is done with it)
        fvar = flds[0].id if flds and isinstance(flds[0], ast.Name) else None
        env = e_effect(T.branch_effect([s_ for s_ in block_of(st) if isinstance(s_, (ast.Assign, ast.AugAssign))
                                        and not (isinstance(s_, ast.Assign) and any(isinstance(t_, ast.Name) and t_.id == fvar for t_ in s_.targets))], p.settings))
        de = d_effect("REST")
        sub = {"FIELD(1)": Sym.atom(flds[0].id)} if flds and isinstance(flds[0], ast.Name) else {}
        for r in T.ROLE_NAMES:
            got, want = env[r], de[r].subst(sub)
            ctx.check(got == want, "CLK2", f"REST: emitter `{r}` -> {got.canon()} ; parser -> {want.canon()}", function=fe.qualname,
                      construct=f"REST token: emitter and parser change `{r}` differently",
                      message=f"emitter {got.canon()} vs parser {want.canon()}", file=fe.file, node=st)
    # BAR
    for c, _ in bar_sites:
        rem = eroles["cur_bar_capacity_remaining"]
        outer = next((a for a in ancestors(c) if isinstance(a, ast.If) and isinstance(a.test, ast.Compare) and rem in src(a.test)), None)
        ok = outer is not None and isinstance(outer.test.ops[0], ast.Eq) and isinstance(outer.test.comparators[0], ast.Constant) and outer.test.comparators[0].value == 0 \
            and src(outer.test.left) == rem
        ctx.check(ok, "CLK2", "BAR is emitted exactly when the bar is full (remaining == 0)", function=fe.qualname,
                  construct="BAR token not emitted under `remaining capacity == 0`", message=short(outer.test) if outer else "", file=fe.file, node=c)
        if outer is None:
            continue
        env = e_effect(T.branch_effect([s_ for s_ in outer.body if isinstance(s_, (ast.Assign, ast.AugAssign))], p.settings))
        de = d_effect("BAR")
        for r in T.ROLE_NAMES:
            got = env[r]
            want = de[r].subst({"cur_bar_capacity_remaining": Sym.const(0)}) if r == "cur_time" else de[r]
            ctx.check(got == want, "CLK2", f"BAR: emitter `{r}` -> {got.canon()} ; parser (remaining = 0) -> {want.canon()}", function=fe.qualname,
                      construct=f"BAR token: emitter and parser change `{r}` differently", message=f"{got.canon()} vs {want.canon()}", file=fe.file, node=c)
    # TIME_SIGNATURE
    for c, js in ts_sites:
        st = stmt_of(c)
        blk = block_of(st)
        simple = [s_ for s_ in blk if isinstance(s_, (ast.Assign, ast.AugAssign)) and s_.lineno < st.lineno]
        raw = T.branch_effect(simple, p.settings)
        env = e_effect(raw)
        flds = fields_of(js)
        if len(flds) != 2:
            raise AnalysisError("TIME_SIGNATURE emission: expected two fields")
        nz = Normaliser(env=raw, atom_hook=hook)
        sub = {"FIELD(1)": nz.norm(flds[0]).subst(esub), "FIELD(2)": nz.norm(flds[1]).subst(esub)}
        de = d_effect("TIME_SIGNATURE")
        for r in ("cur_bar_capacity_total", "cur_bar_capacity_remaining"):
            got, want = env[r], de[r].subst(sub)
            ctx.check(got == want, "CLK2", f"TIME_SIGNATURE: emitter `{r}` -> {got.canon()} ; parser on the emitted fields -> {want.canon()}",
                      function=fe.qualname, construct=f"TIME_SIGNATURE token: emitter and parser compute `{r}` differently",
                      message=f"{got.canon()} vs {want.canon()}", file=fe.file, node=st)
        bt = eroles["cur_time_bar"]
        # the conditions under which the TIME_SIGNATURE branch leaves the iteration before the emission (without raising): guard
        # clauses passed on the way and enclosing two-way branches whose other side leaves -- as (skip condition, node)
        from ..astutil import _always_leaves
        from ..model import _Canon
        leave = []
        child = st
        for a in ancestors(st):
            if isinstance(a, (ast.For, ast.While, ast.FunctionDef)):
                break
            for blk_ in (getattr(a, "body", None), getattr(a, "orelse", None)):
                if isinstance(blk_, list) and any(child is x for x in blk_):
                    for s_ in blk_:
                        if s_ is child:
                            break
                        if isinstance(s_, ast.If) and not s_.orelse and _always_leaves(s_.body) and not any(isinstance(x, ast.Raise) for y in s_.body for x in ast.walk(y)):
                            leave.append((s_.test, s_))
            if isinstance(a, ast.If):
                if "TIME_SIGNATURE" in src(a.test):
                    break
                in_body = any(child is x for x in a.body)
                otherb = a.orelse if in_body else a.body
                # (the other side need not `continue`: whatever it does, it does not reach this emission)
                if not any(isinstance(x, ast.Raise) for y in otherb for x in ast.walk(y)):
                    leave.append((_Canon().visit_UnaryOp(ast.UnaryOp(op=ast.Not(), operand=clone(a.test))) if in_body else a.test, a))
            child = a
        skips = [(t, s_) for t, s_ in leave if bt in {x.id for x in ast.walk(t) if isinstance(x, ast.Name)}]
        g = [(t, s_) for t, s_ in skips if relation(t, Normaliser()) is not None and same_relation(relation(t, Normaliser()), Sym.atom(bt), ">")]
        ctx.check(bool(g) or bool(skips), "CLK5", "tokenise ignores a time signature in mid-bar (as detokenise does)", function=fe.qualname,
                  construct="tokenise lacks the mid-bar time-signature guard", message="", file=fe.file, node=st)
        # ... and only then: a signature on a bar boundary (bar time 0) is always emitted, whatever else happened at that tick
        other = [s_ for t, s_ in leave if all(s_ is not s2 for _, s2 in g)]
        ctx.check(not other, "CLK5", "tokenise skips a time signature only in mid-bar (`bar time > 0`), exactly like detokenise", function=fe.qualname,
                  construct="tokenise skips a time signature under a condition other than `bar time > 0`",
                  message=f"{[short(s_.test, 70) for s_ in other]}: a signature placed on a bar boundary would not be emitted (no token, capacity not updated), "
                          f"so the bar grid and the total duration of the decoded piece change", file=fe.file, node=other[0] if other else st)
        sc = flds[0]
        if isinstance(sc, ast.Name):
            rej = [s_ for s_ in blk if isinstance(s_, ast.If) and "is_integer" in src(s_.test) and any(isinstance(x, ast.Raise) for x in s_.body)]
            ctx.check(bool(rej), "GUARD", "signatures not expressible in eighths are rejected", function=fe.qualname,
                      construct="no rejection of signatures that are not multiples of eighths", message="", file=fe.file, node=st)
    # CLK3
    for q, node, canon, wrapped in T.capacity_sites(p):
        ctx.check(canon == "4*D^-1*N*self.ppqn" and wrapped, "CLK3", f"{q}: capacity = int({canon})", function=q,
                  construct="bar capacity formula deviates from int(ppqn*4*numerator/denominator)", message=canon, file=fe.file, node=node)

    # ---- NOTE (parser side)
    pd = dmap.get("PITCH")
    if pd is None:
        raise AnalysisError("detokenise: PITCH branch not found")
    nzd = Normaliser(atom_hook=hook)
    nzd.run_block(pd)
    run_d = {}
    for pr in ("TRACK", "VALUE", "VELOCITY"):
        b = dmap.get(pr)
        env_b = T.branch_effect(b, p.settings) if b else {}
        hits = [v for v, e in env_b.items() if e.canon() == "FIELD(1)"]
        ctx.check(len(hits) == 1, "NOTE", f"detokenise: {pr} part stores its field in one running variable ({hits})", function=fd.qualname,
                  construct=f"{pr} part does not set exactly one running variable from its field", message=f"{({k: v.canon() for k, v in env_b.items()})}",
                  file=fd.file, node=fd.node)
        run_d[pr] = hits[0] if hits else f"<{pr}>"
    msgs = [c for s in pd for c in ast.walk(s) if isinstance(c, ast.Call) and isinstance(c.func, ast.Name) and c.func.id == "Message"]
    seen = set()
    for c in msgs:
        kw = {k.arg: k.value for k in c.keywords}
        mt = enum_member(kw.get("message_type"), "MessageType")
        seen.add(mt)
        call = next((a for a in ancestors(c) if isinstance(a, ast.Call) and call_method(a)[1] == "add_absolute_message"), None)
        recv = src(call_method(call)[0]) if call else ""
        ctx.check(recv.endswith(f"[{run_d['TRACK']}]"), "NOTE", f"detokenise: {mt} goes to the running track's sequence", function=fd.qualname,
                  construct=f"{mt} not added to sequences[running track]", message=recv, file=fd.file, node=c)
        ctx.check(nzd.norm(kw.get("note")).canon() == "FIELD(1)", "NOTE", f"detokenise: {mt} pitch = PITCH field", function=fd.qualname,
                  construct=f"{mt} pitch is not the token's PITCH field", message=short(kw.get("note")), file=fd.file, node=c)
        if mt == "NOTE_ON":
            ctx.check(nzd.norm(kw.get("time")).canon() == droles["cur_time"], "NOTE", "detokenise: note-on at the clock", function=fd.qualname,
                      construct="note-on not placed at cur_time", message=short(kw.get("time")), file=fd.file, node=c)
            ctx.check(kw.get("velocity") is not None and nzd.norm(kw.get("velocity")).canon() == run_d["VELOCITY"], "NOTE",
                      "detokenise: note-on carries the running velocity", function=fd.qualname, construct="note-on velocity is not the running velocity",
                      message=short(kw.get("velocity")), file=fd.file, node=c)
        if mt == "NOTE_OFF":
            ctx.check(nzd.norm(kw.get("time")) == Sym.atom(droles["cur_time"]) + Sym.atom(run_d["VALUE"]), "NOTE", "detokenise: note-off at clock + running value", function=fd.qualname,
                      construct="note-off not placed at cur_time + running value", message=short(kw.get("time")), file=fd.file, node=c)
    ctx.check({"NOTE_ON", "NOTE_OFF"} <= seen, "NOTE", "detokenise: a PITCH part creates a note-on and a note-off", function=fd.qualname,
              construct="PITCH part does not create both a note-on and a note-off", message=f"{sorted(str(s) for s in seen)}", file=fd.file, node=fd.node)
    # ---- NOTE / RUN (emitter side)
    note_if = None
    for n in ast.walk(fe.node):
        if isinstance(n, ast.If) and isinstance(n.test, ast.Compare) and enum_member(n.test.comparators[0], "MessageType") == "NOTE_ON":
            note_if = n
    if note_if is None:
        raise AnalysisError("tokenise: NOTE_ON branch not found")
    def _int_transparent(e, nz):
        # int(x) of a value that the guards have shown to equal an integer is x itself
        if isinstance(e, ast.Call) and isinstance(e.func, ast.Name) and e.func.id == "int" and len(e.args) == 1 and not e.keywords:
            return nz.norm(e.args[0])
        return None
    nze = Normaliser(atom_hook=_int_transparent)
    loop = next((a for a in ancestors(note_if) if isinstance(a, ast.For)), None)
    pre = [s for s in loop.body if isinstance(s, ast.Assign) and s.lineno < note_if.lineno]
    nze.run_block(pre + [s for s in note_if.body if isinstance(s, ast.Assign)])
    # equalities a raising guard establishes for the rest of the iteration: `if ch != pairing[0].channel: raise` -- from there on `ch` is that channel
    for g_ in loop.body:
        if isinstance(g_, ast.If) and g_.lineno < note_if.lineno and not g_.orelse and any(isinstance(x, ast.Raise) for x in g_.body) \
                and isinstance(g_.test, ast.Compare) and len(g_.test.ops) == 1 and isinstance(g_.test.ops[0], ast.NotEq):
            a_, b_ = g_.test.left, g_.test.comparators[0]
            for v_, e_ in ((a_, b_), (b_, a_)):
                if isinstance(v_, ast.Name) and v_.id not in nze.env and not isinstance(e_, ast.Name):
                    nze.env[v_.id] = nze.norm(e_)
                    break
    fld_src = {}
    for pr, lst in sites.items():
        for c, js in lst:
            if isinstance(js, ast.JoinedStr):
                f = fields_of(js)
                if f:
                    fld_src.setdefault(pr, set()).add(src(f[0]))
    # also fused parts: token += f"..."
    for n, js_ in fused_part_sites(note_if):
        m = None
        for v in js_.values:
            if isinstance(v, ast.FormattedValue):
                m = enum_member(v.value, "TokenisationPrefixes")
                break
        f = fields_of(js_)
        if m and f:
            fld_src.setdefault(m, set()).add(src(f[0]))
    pairing = None
    for s in pre:
        if isinstance(s.value, ast.Subscript) and isinstance(s.value.slice, ast.Constant) and s.value.slice.value == 1 and isinstance(s.targets[0], ast.Name):
            pairing = s.targets[0].id
    if pairing is None and isinstance(loop.target, ast.Name):
        pairing = f"{loop.target.id}[1]"           # (channel, pairing) items read in place: no local names the pairing
    if pairing is None and isinstance(loop.target, ast.Tuple) and len(loop.target.elts) == 2 and all(isinstance(x, ast.Name) for x in loop.target.elts):
        pairing = loop.target.elts[1].id           # `for channel, pairing in ...`: the item unpacked in the loop header
    want = {"VALUE": f"{pairing}[1].time - {pairing}[0].time", "PITCH": f"{pairing}[0].note", "TRACK": f"{pairing}[0].channel"}
    for pr, w in want.items():
        srcs = fld_src.get(pr, set())
        ok = bool(srcs)
        got = []
        wsym = nze.norm(ast.parse(w, mode="eval").body)
        for s_ in srcs:
            c = nze.norm(ast.parse(s_, mode="eval").body)
            got.append(c.canon())
            ok = ok and c == wsym
        ctx.check(ok, "NOTE", f"tokenise: {pr} field = {w}", function=fe.qualname, construct=f"emitted {pr} field is not {w.replace(pairing, 'pairing') if pairing else w}",
                  message=f"{got}", file=fe.file, node=note_if)
    # running values
    for pr, flag in (("TRACK", "flag_fuse_track"), ("VALUE", "flag_fuse_value"), ("VELOCITY", "flag_fuse_velocity")):
        fsrc = next(iter(fld_src.get(pr, {""})))
        # the running variable: the name the emitted value is compared with
        prv = None
        cond = None
        for c in ast.walk(note_if):
            if isinstance(c, ast.Compare) and len(c.ops) == 1 and isinstance(c.ops[0], (ast.NotEq, ast.Eq)):
                l, r = c.left, c.comparators[0]
                for a_, b_ in ((l, r), (r, l)):
                    if fsrc and src(a_) == fsrc and isinstance(b_, ast.Name):
                        prv, cond = b_.id, c
        # decided by truth table over (fused, changed, running values on): the separate token is written iff not fused and (changed or
        # running values off), the fused part iff fused -- whatever the order and nesting of the tests
        from ..astutil import reach_condition
        sep_sites = [c for c, js in sites.get(pr, []) if note_if in list(ancestors(c))]
        fused_sites = [n for n, js_ in fused_part_sites(note_if)
                       if any(isinstance(v, ast.FormattedValue) and enum_member(v.value, "TokenisationPrefixes") == pr for v in js_.values)]
        bad_rows = []
        if prv is not None:
            for F in (True, False):
                for C in (True, False):
                    for R in (True, False):
                        atoms = {f"self.{flag}": F, f"{fsrc} != {prv}": C, "self.flag_running_values": R}

                        def any_reached(nodes):
                            rs = [reach_condition(n_, note_if, atoms) for n_ in nodes]
                            return True if any(r_ is True for r_ in rs) else (None if any(r_ is None for r_ in rs) else False)
                        got_sep, got_fused = any_reached(sep_sites), any_reached(fused_sites)
                        want_sep, want_fused = (not F) and (C or not R), F
                        if got_sep is not want_sep or got_fused is not want_fused:
                            bad_rows.append(f"fused={F}, changed={C}, running={R}: separate token {got_sep} (required {want_sep}), fused part {got_fused} (required {want_fused})")
        ok = prv is not None and not bad_rows
        ctx.check(ok, "RUN", f"tokenise: separate {pr} token iff not fused and (changed or running values off); fused part iff fused", function=fe.qualname,
                  construct=f"emission condition of the {pr} token/part deviates", message="; ".join(bad_rows[:3]) if bad_rows else "running variable not found",
                  file=fe.file, node=(sep_sites or fused_sites or [note_if])[0])
        if prv is None:
            continue
        ups = [s_ for s_ in note_if.body if isinstance(s_, ast.Assign) and isinstance(s_.targets[0], ast.Name) and s_.targets[0].id == prv]
        ctx.check(len(ups) == 1 and src(ups[0].value) == fsrc, "RUN", f"tokenise: the previous {pr.lower()} is updated to the emitted value after every note",
                  function=fe.qualname, construct=f"previous {pr.lower()} is not updated with the note's {pr.lower()} after every note",
                  message=f"{[short(u) for u in ups]}", file=fe.file, node=note_if)
        ini = [s_ for s_ in fe.node.body if isinstance(s_, ast.Assign) and isinstance(s_.targets[0], ast.Name) and s_.targets[0].id == prv]
        okd = len(ini) == 1 and isinstance(ini[0].value, ast.Call) and call_method(ini[0].value)[1] == "get" and len(ini[0].value.args) == 2 \
            and isinstance(ini[0].value.args[1], ast.UnaryOp) and isinstance(ini[0].value.args[1].op, ast.USub)
        ctx.check(okd, "RUN", f"tokenise: the previous {pr.lower()} starts from a value no note can have (forces the first emission)", function=fe.qualname,
                  construct=f"initial previous {pr.lower()} could equal a real value", message=f"{[short(i_) for i_ in ini]}", file=fe.file, node=fe.node)

    # ---- RUN (existence): each running value has a separate token and a fused part somewhere in the note branch (when each is written is
    # decided by the truth table above)
    for pr, flag in (("TRACK", "flag_fuse_track"), ("VALUE", "flag_fuse_value"), ("VELOCITY", "flag_fuse_velocity")):
        sep = [c for c, js in sites.get(pr, []) if note_if in list(ancestors(c))]
        ctx.check(bool(sep), "RUN", f"tokenise: a separate {pr} token is emitted under the unfused test", function=fe.qualname,
                  construct=f"no separate {pr} token is emitted when {pr.lower()} is not fused",
                  message=f"{len(sep)} emission(s) in the note branch: detokenise would keep using the running {pr.lower()} of an earlier note", file=fe.file,
                  node=sep[0] if sep else note_if)
        fused = [n for n, js_ in fused_part_sites(note_if)
                 if any(isinstance(v, ast.FormattedValue) and enum_member(v.value, "TokenisationPrefixes") == pr for v in js_.values)]
        ctx.check(bool(fused), "RUN", f"tokenise: the {pr} part is fused into the note token under `self.{flag}`", function=fe.qualname,
                  construct=f"no fused {pr} part when {pr.lower()} is fused", message=f"{len(fused)} fused part(s)", file=fe.file, node=fused[0] if fused else note_if)

    from ..astutil import path_conditions
    # ---- DISPATCH: kind, time and channel of an event are read from the first message of its pairing; the note branch runs
    # for NOTE_ON, the signature branch for TIME_SIGNATURE
    defs = {s_.targets[0].id: s_.value for s_ in pre if isinstance(s_.targets[0], ast.Name)}
    tvar = note_if.test.left.id if isinstance(note_if.test.left, ast.Name) else None
    tdef = defs.get(tvar)
    if tvar is None and pairing is not None:
        tvar, tdef = src(note_if.test.left), note_if.test.left          # the kind read in place: `<pairing>[0].message_type == NOTE_ON`
    ctx.check(isinstance(note_if.test.ops[0], ast.Eq) and tdef is not None and nze.norm(tdef) == nze.norm(ast.parse(f"{pairing}[0].message_type", mode="eval").body), "DISPATCH",
              f"tokenise: the note branch runs iff the pairing's first message is a NOTE_ON", function=fe.qualname,
              construct="note branch of tokenise is not selected by `first message of the pairing is NOTE_ON`",
              message=f"`{short(note_if.test)}` with `{tvar} = {short(tdef) if tdef is not None else '?'}`", file=fe.file, node=note_if)
    ts_ifs = [n for n in ast.walk(loop) if isinstance(n, ast.If) and isinstance(n.test, ast.Compare) and len(n.test.ops) == 1
              and enum_member(n.test.comparators[0], "MessageType") == "TIME_SIGNATURE"]
    ts_sites = sites.get("TIME_SIGNATURE", [])
    okt = len(ts_ifs) == 1 and isinstance(ts_ifs[0].test.ops[0], ast.Eq) and src(ts_ifs[0].test.left) == tvar \
        and all(any(c is x for y in ts_ifs[0].body for x in ast.walk(y)) for c, _ in ts_sites) and bool(ts_sites)
    if okt:
        pcs = path_conditions(ts_ifs[0], loop)
        okt = all((not h) for t, h in pcs if "MessageType" in src(t)) and all("MessageType" in src(t) for t, h in pcs)
    ctx.check(okt, "DISPATCH", "tokenise: the signature branch runs iff the pairing's first message is a TIME_SIGNATURE (and it is not a note)", function=fe.qualname,
              construct="signature branch of tokenise is not selected by `first message of the pairing is TIME_SIGNATURE`",
              message=f"{[short(n.test) for n in ts_ifs]}", file=fe.file, node=ts_ifs[0] if ts_ifs else loop)
    for pr_site, lst in (("PITCH", sites.get("PITCH", [])),):
        pass
    res_name = result_name if "result_name" in dir() else None
    joined_ = {c.args[0].id for c in ast.walk(note_if) if isinstance(c, ast.Call) and call_method(c)[1] == "join" and c.args and isinstance(c.args[0], ast.Name)}
    # the note token: a name appended to the result, or the parts joined on the spot (`tokens.append("-".join(parts))`)
    note_tokens = [c for c in ast.walk(note_if) if isinstance(c, ast.Call) and call_method(c)[1] == "append" and c.args
                   and isinstance(call_method(c)[0], ast.Name) and call_method(c)[0].id not in joined_
                   and (isinstance(c.args[0], ast.Name) or (isinstance(c.args[0], ast.Call) and call_method(c.args[0])[1] == "join"))]
    # ... or the joined parts put into a list display that is moved into the result (`tokens.extend(batch + ["-".join(parts)])`)
    for st_ in note_if.body:
        if any(isinstance(x, ast.List) and any(isinstance(el, ast.Call) and call_method(el)[1] == "join" for el in x.elts) for x in ast.walk(st_)):
            mover = [c for c in ast.walk(note_if) if isinstance(c, ast.Call) and call_method(c)[1] == "extend" and isinstance(call_method(c)[0], ast.Name)
                     and call_method(c)[0].id in T.output_lists(fe.node) and not path_conditions(c, note_if)]
            if mover and (isinstance(st_, ast.Assign) and isinstance(st_.targets[0], ast.Name) and st_.targets[0].id in T.output_lists(fe.node)
                          or any(c in list(ast.walk(st_)) for c in mover)):
                note_tokens.append(mover[0])
    ctx.check(any(not path_conditions(c, note_if) for c in note_tokens), "DISPATCH", "tokenise: every note appends its note token unconditionally", function=fe.qualname,
              construct="the note token of a note is not appended on every path of the note branch", message=f"{[short(c) for c in note_tokens]}",
              file=fe.file, node=note_if)

    # ---- VEL: the emitted velocity is the value of the note's velocity bin, taken from the tokeniser's own bin list
    vsrc = next(iter(fld_src.get("VELOCITY", {""})))
    vdef = None
    for s_ in note_if.body:
        if isinstance(s_, ast.Assign) and isinstance(s_.targets[0], ast.Name) and s_.targets[0].id == vsrc:
            vdef = s_.value
    okv = False
    if isinstance(vdef, ast.Subscript) and src(vdef.value) == "self.velocity_bins" and isinstance(vdef.slice, ast.Call) \
            and isinstance(vdef.slice.func, ast.Name) and vdef.slice.func.id == "bin_velocity":
        a = vdef.slice.args
        kw = {k.arg: k.value for k in vdef.slice.keywords}
        vel_arg = a[0] if a else kw.get("velocity")
        bins_arg = a[1] if len(a) > 1 else kw.get("bins")
        okv = vel_arg is not None and nze.norm(vel_arg) == nze.norm(ast.parse(f"{pairing}[0].velocity", mode="eval").body) \
            and bins_arg is not None and src(bins_arg) == "self.velocity_bins"
    ctx.check(okv, "NOTE", "tokenise: the VELOCITY field is velocity_bins[bin_velocity(note-on velocity, velocity_bins)]", function=fe.qualname,
              construct="emitted velocity is not the value of the note's bin in the tokeniser's own bin list",
              message=f"`{vsrc} = {short(vdef) if vdef is not None else '?'}`", file=fe.file, node=note_if)

    from ..engines.velbins import topbin_rules
    topbin_rules(ctx)
    from .c02 import config_rules
    config_rules(ctx)

    # ---- DUR (parser side): every bar line is recorded in every track, at the clock after the bar was closed, so that the
    # decoded duration reaches the end of the last bar
    bar_branch = next((b for m_, t_, b in T.prefix_branches(fd.node) if m_ == "BAR"), None) if hasattr(T, "prefix_branches") else None
    if bar_branch is None:
        for n_ in ast.walk(fd.node):
            if isinstance(n_, ast.If) and isinstance(n_.test, ast.Compare) and enum_member(getattr(n_.test.comparators[0], "value", None), "TokenisationPrefixes") == "BAR":
                bar_branch = n_.body
    okd = False
    why = "BAR branch not found"
    if bar_branch is not None:
        clk = droles["cur_time"]
        caps = [c for s_ in bar_branch for c in ast.walk(s_) if isinstance(c, ast.Call) and isinstance(c.func, ast.Name) and c.func.id == "Message"
                and enum_member(kwarg(c, "message_type"), "MessageType") == "INTERNAL"]
        adv = [s_ for s_ in bar_branch if isinstance(s_, ast.AugAssign) and isinstance(s_.target, ast.Name) and s_.target.id == clk]
        why = f"{len(caps)} INTERNAL message(s)"
        if len(caps) == 1 and adv:
            c = caps[0]
            lp_ = next((a for a in ancestors(c) if isinstance(a, ast.For)), None)
            seqs = next((s_.targets[0].id for s_ in fd.node.body if isinstance(s_, ast.Assign) and isinstance(s_.targets[0], ast.Name)
                         and isinstance(s_.value, ast.ListComp) and "Sequence" in src(s_.value)), None)
            okd = lp_ is not None and src(lp_.iter) == seqs and src(kwarg(c, "time")) == clk and lp_.lineno > adv[0].lineno \
                and not path_conditions(c, lp_) and any(lp_ is s_ for s_ in bar_branch)
            why = f"loop over `{src(lp_.iter) if lp_ is not None else None}`, time `{short(kwarg(c, 'time'))}`"
    ctx.check(okd, "DUR", "detokenise: every BAR token marks the bar line in every track at the advanced clock", function=fd.qualname,
              construct="detokenise does not record the bar line (INTERNAL message at the clock after the bar) in every track",
              message=f"{why}: the decoded duration would end at the last note instead of the end of the last bar", file=fd.file, node=fd.node)

    input_rule(ctx, fe)

    # ---- BAR: the bar token is written exactly when the bar is full and bar tokens are requested; the bar bookkeeping does not depend on the flag
    for c, a in sites.get("BAR", []):
        pcs = path_conditions(c)
        flagp = fe.params[2] if len(fe.params) > 2 else None
        flag_ok = [t for t, h in pcs if isinstance(t, ast.Name) and t.id == flagp and h]
        full_ok = [t for t, h in pcs if h and relation(t, Normaliser()) is not None and same_relation(relation(t, Normaliser()), Sym.atom(eroles["cur_bar_capacity_remaining"]), "==")]
        ctx.check(len(pcs) == 2 and len(flag_ok) == 1 and len(full_ok) == 1, "BAR", "tokenise: a BAR token is written iff the bar is full and bar tokens are requested",
                  function=fe.qualname, construct="BAR token emitted under a condition other than `bar full and insert_bar_token`",
                  message=f"{[(short(t), h) for t, h in pcs]}", file=fe.file, node=c)
        if full_ok:
            full_if = next(a_ for a_ in ancestors(c) if isinstance(a_, ast.If) and a_.test is full_ok[0])
            resets = [s_ for s_ in full_if.body if isinstance(s_, ast.Assign) and isinstance(s_.targets[0], ast.Name)
                      and s_.targets[0].id in (eroles["cur_time_bar"], eroles["cur_bar_capacity_remaining"])]
            ctx.check(len(resets) == 2, "BAR", "tokenise: bar time and remaining capacity are reset whenever a bar is full, with or without BAR tokens", function=fe.qualname,
                      construct="bar bookkeeping of tokenise depends on insert_bar_token", message=f"{[short(x) for x in resets]}", file=fe.file, node=full_if)

    # ---- REST amount and CLOSE
    calls = [c for c in ast.walk(fe.node) if isinstance(c, ast.Call) and isinstance(c.func, ast.Name) and c.func.id == "_apply_rest"]
    ctx.floor("_apply_rest call sites", len(calls), 1)
    nzr = Normaliser()
    nzr.run_block(pre)
    main = [c for c in calls if loop in list(ancestors(c))]
    ctx.require("REST", "tokenise: the time between the clock and the next event is emitted as rests", len(main), 1, function=fe.qualname,
                construct="the event loop of tokenise never emits the rest that precedes an event",
                message="no `_apply_rest(...)` call in the event loop: every event is placed at the clock, all gaps are lost", file=fe.file, node=loop)
    for c in main:
        got = nzr.norm(c.args[0])
        rest_ = got - nzr.norm(ast.parse(f"{pairing}[0].time", mode="eval").body) + Sym.atom(eroles["cur_time"])
        shift_ok = False
        if rest_.is_monomial() and len(rest_.atoms()) == 1 and list(rest_.terms.values()) == [1]:
            sv = next(iter(rest_.atoms()))
            ini = [s_ for s_ in fe.node.body if isinstance(s_, ast.Assign) and isinstance(s_.targets[0], ast.Name) and s_.targets[0].id == sv]
            if len(ini) == 1 and isinstance(ini[0].value, ast.Name):
                # a copy, taken before anything ran, of the variable restored from the carried clock
                src_ = [s_ for s_ in fe.node.body if isinstance(s_, ast.Assign) and isinstance(s_.targets[0], ast.Name) and s_.targets[0].id == ini[0].value.id
                        and s_.lineno < ini[0].lineno]
                between = [s_ for s_ in fe.node.body if src_ and src_[-1].lineno < s_.lineno < ini[0].lineno]
                if len(src_) == 1 and all(isinstance(s_, ast.Assign) for s_ in between):
                    ini = src_
            shift_ok = len(ini) == 1 and isinstance(ini[0].value, ast.Call) and call_method(ini[0].value)[1] == "get" and ini[0].value.args \
                and isinstance(ini[0].value.args[0], ast.Constant) and ini[0].value.args[0].value == "cur_time"
        want_ = got if shift_ok else None
        ctx.check(shift_ok, "REST", "tokenise: rest before an event = event time + carried shift - clock", function=fe.qualname,
                  construct="rest before an event is not (event time + shift) - clock", message=got.canon(), file=fe.file, node=c)
        # reached for every event whose time differs from the clock (and before the event is emitted)
        pcs = path_conditions(c, loop)
        okr = True
        for t, h in pcs:
            rr = relation(t, nzr)
            d = nzr.norm(ast.parse(f"{pairing}[0].time", mode="eval").body) + (got - nzr.norm(ast.parse(f"{pairing}[0].time", mode="eval").body) + Sym.atom(eroles["cur_time"])) - Sym.atom(eroles["cur_time"])
            same = rr is not None and (same_relation(rr, got, "!=") or same_relation(rr, got, ">")) and h
            same = same or (rr is not None and same_relation(rr, got, "==") and not h)
            okr = okr and same
        ctx.check(okr and c.lineno < note_if.lineno, "REST", "tokenise: the rest is emitted whenever the event's time differs from the clock, before the event", function=fe.qualname,
                  construct="the rest before an event is emitted under a condition other than `event time != clock`",
                  message=f"{[(short(t), h) for t, h in pcs]}", file=fe.file, node=c)
    tail = [c for c in calls if loop not in list(ancestors(c))]
    ok = False
    for c in tail:
        g = next((a for a in ancestors(c) if isinstance(a, ast.If)), None)
        rem_, bt_ = eroles["cur_bar_capacity_remaining"], eroles["cur_time_bar"]
        # (which bars the guard selects is decided by the state model of close_rule below; here: the amount and the sole guard)
        names_ = {x.id for x in ast.walk(g.test) if isinstance(x, ast.Name)} if g is not None else set()
        if g is not None and src(c.args[0]) == rem_ and {rem_, bt_} <= names_:
            from ..astutil import extra_conditions
            ok = not extra_conditions(c, g.test)
    ctx.check(ok, "CLOSE", "tokenise: a partly filled last bar is closed with rests up to its capacity", function=fe.qualname,
              construct="end-of-call bar closing missing or with a different condition/amount", message="", file=fe.file, node=fe.node)
    from .c03 import close_rule
    close_rule(ctx, "CLOSE")
    rest_sum_rule(ctx, fe, sites, eroles)
    # merge + pairing types
    pr_call = next((c for c in ast.walk(fe.node) if isinstance(c, ast.Call) and call_method(c)[1] == "get_interleaved_message_pairings"), None)
    types = [enum_member(e, "MessageType") for e in pr_call.args[0].elts] if pr_call is not None and pr_call.args and isinstance(pr_call.args[0], ast.List) else []
    ctx.check({"NOTE_ON", "NOTE_OFF", "TIME_SIGNATURE"} <= set(types), "NOTE", f"tokenise pairs notes and time signatures ({types})", function=fe.qualname,
              construct="tokenise does not request note and time-signature pairings", message=f"{types}", file=fe.file, node=pr_call or fe.node)


def input_rule(ctx: Ctx, fe) -> None:
    """INPUT (shared with C03: a call that does not read its events -- a fast path for silent bars -- misses the signature they carry)."""
    from ..astutil import path_conditions
    # ---- INPUT: the events come from one sequence into which every input was merged, each labelled with its track index
    prc = next((c for c in ast.walk(fe.node) if isinstance(c, ast.Call) and call_method(c)[1] == "get_interleaved_message_pairings"), None)
    inp = fe.params[1]
    okm = False
    if prc is not None and isinstance(call_method(prc)[0], ast.Name):
        hub = call_method(prc)[0].id
        merges = [c for c in ast.walk(fe.node) if isinstance(c, ast.Call) and call_method(c)[1] == "merge" and src(call_method(c)[0]) == hub
                  and c.args and src(c.args[0]) == inp and c.lineno < prc.lineno and not path_conditions(c)]
        fresh = [s_ for s_ in fe.node.body if isinstance(s_, ast.Assign) and isinstance(s_.targets[0], ast.Name) and s_.targets[0].id == hub
                 and isinstance(s_.value, ast.Call) and src(s_.value.func) == "Sequence" and not s_.value.args and not s_.value.keywords]
        okm = len(merges) == 1 and bool(fresh) and fresh[-1].lineno < merges[0].lineno
    ctx.check(okm, "INPUT", "tokenise: the events are read from a fresh sequence into which all inputs were merged", function=fe.qualname,
              construct="tokenise does not merge all input sequences into the sequence it reads events from",
              message="without the merge no event (or only one track) reaches the token stream", file=fe.file, node=prc or fe.node)
    setch = [c for c in ast.walk(fe.node) if isinstance(c, ast.Call) and call_method(c)[1] == "set_channel"]
    oksc = False
    for c in setch:
        lp_ = next((a for a in ancestors(c) if isinstance(a, ast.For)), None)
        if lp_ is not None and isinstance(lp_.iter, ast.Call) and src(lp_.iter.func) == "enumerate" and src(lp_.iter.args[0]) == inp \
                and isinstance(lp_.target, ast.Tuple) and src(call_method(c)[0]) == src(lp_.target.elts[1]) and c.args and src(c.args[0]) == src(lp_.target.elts[0]) \
                and not path_conditions(c, lp_) and prc is not None and c.lineno < prc.lineno:
            oksc = True
    ctx.check(oksc, "INPUT", "tokenise: input k is labelled with channel k before the merge", function=fe.qualname,
              construct="inputs are not labelled with their track index before merging", message=f"{[short(c) for c in setch]}", file=fe.file,
              node=setch[0] if setch else fe.node)



def rest_sum_rule(ctx: Ctx, fe, sites, eroles) -> None:
    """RESTSUM: the rest closure emits step-size rests that add up to the requested rest and never cross a bar line:
    a local buffer starts at the requested amount, every round emits one rest of value V, subtracts exactly V from the buffer,
    V is bounded by min(buffer, remaining bar capacity), and the loop runs while the buffer is positive."""
    p = ctx.p
    closure = next((n for n in fe.node.body if isinstance(n, ast.FunctionDef)), None)
    rest_sites = sites.get("REST", [])
    if closure is None or not rest_sites:
        ctx.undetermined("RESTSUM", "tokenise: rest decomposition", "rest closure not found: not judged")
        return
    c0, js0 = rest_sites[0]
    f = fields_of(js0)
    if not f or not isinstance(f[0], ast.Name):
        return
    V = f[0].id
    param = closure.args.args[0].arg if closure.args.args else None
    loop = next((n for n in closure.body if isinstance(n, ast.While)), None)
    if loop is None or param is None:
        ctx.undetermined("RESTSUM", "tokenise: rest decomposition", "no while loop in the rest closure: not judged")
        return
    nz = Normaliser()
    from ..linear import relation, same_relation
    r = relation(loop.test, nz)
    buf = None
    if r is not None and len(r[0].atoms()) == 1:
        buf = next(iter(r[0].atoms()))
    ctx.check(buf is not None and same_relation(r, Sym.atom(buf), ">"), "RESTSUM", f"tokenise: rests are emitted while the rest buffer is positive (`{short(loop.test)}`)",
              function=fe.qualname, construct="rest decomposition loop does not run while the buffer is > 0", message=short(loop.test), file=fe.file, node=loop)
    if buf is None:
        return
    init = [s_ for s_ in closure.body if isinstance(s_, ast.Assign) and isinstance(s_.targets[0], ast.Name) and s_.targets[0].id == buf and s_.lineno < loop.lineno]
    ctx.check(len(init) == 1 and isinstance(init[0].value, ast.Name) and init[0].value.id == param, "RESTSUM", "tokenise: the buffer starts at the requested rest",
              function=fe.qualname, construct="rest buffer not initialised with the requested rest", message=f"{[short(i) for i in init]}", file=fe.file, node=closure)
    decs = [s_ for s_ in ast.walk(loop) if isinstance(s_, ast.AugAssign) and isinstance(s_.target, ast.Name) and s_.target.id == buf]
    ctx.check(len(decs) == 1 and isinstance(decs[0].op, ast.Sub) and isinstance(decs[0].value, ast.Name) and decs[0].value.id == V, "RESTSUM",
              f"tokenise: each round subtracts exactly the emitted rest `{V}` from the buffer", function=fe.qualname,
              construct="rest buffer not reduced by exactly the emitted rest value", message=f"{[short(d) for d in decs]}", file=fe.file, node=loop)
    # the bound: nxt = min(buffer, remaining capacity), recomputed every round
    rem = eroles["cur_bar_capacity_remaining"]
    bounds = [s_ for s_ in ast.walk(closure) if isinstance(s_, ast.Assign) and isinstance(s_.value, ast.Call) and isinstance(s_.value.func, ast.Name)
              and s_.value.func.id == "min" and {src(a) for a in s_.value.args} == {buf, rem}]
    def _is_min(e):
        return isinstance(e, ast.Call) and isinstance(e.func, ast.Name) and e.func.id == "min" and {src(a) for a in e.args} == {buf, rem}
    # ... or taken on the spot, as the argument the round's rest is chosen from: `v = choose(min(buffer, remaining))` at the top of every round
    inline_bound = [s_ for s_ in loop.body if isinstance(s_, ast.Assign) and isinstance(s_.targets[0], ast.Name) and s_.targets[0].id == V
                    and isinstance(s_.value, ast.Call) and len(s_.value.args) == 1 and _is_min(s_.value.args[0])]
    ctx.check((len(bounds) >= 2 and any(b in list(ast.walk(loop)) for b in bounds)) or (not bounds and len(inline_bound) == 1 and loop.body[0] is inline_bound[0]),
              "RESTSUM", "tokenise: a rest never exceeds min(buffer, remaining bar capacity), recomputed every round",
              function=fe.qualname, construct="next rest is not bounded by min(rest buffer, remaining bar capacity) in every round",
              message=f"{[short(b) for b in bounds]}: a rest token could cross a bar line", file=fe.file, node=closure)
    if bounds or inline_bound:
        nxt = bounds[0].targets[0].id if bounds else "min(buffer, remaining)"
        # temporaries introduced by a refactoring are substituted; the role variables stay symbolic
        for s_ in ast.walk(loop):
            if isinstance(s_, ast.Assign) and len(s_.targets) == 1 and isinstance(s_.targets[0], ast.Name) and s_.targets[0].id not in (buf, V, nxt, rem):
                nz.assign(s_.targets[0], s_.value)
        # V is chosen from the step sizes, never larger than nxt
        defs = [s_ for s_ in ast.walk(loop) if isinstance(s_, ast.Assign) and isinstance(s_.targets[0], ast.Name) and s_.targets[0].id == V]
        ok = bool(defs)
        for d in defs:
            g = next((a for a in ancestors(d) if isinstance(a, ast.If)), None)
            top_ = nz.norm(ast.parse("self.step_sizes[-1]", mode="eval").body)
            try:
                is_top = isinstance(d.value, (ast.Subscript, ast.Name)) and nz.norm(d.value) == top_
            except Exception:
                is_top = False
            if is_top:
                rr = relation(g.test, nz) if g is not None else None
                inside = g is not None and d in g.body
                okd = rr is not None and inside and same_relation(rr, Sym.atom(nxt) - Sym.atom("self.step_sizes[-1]"), ">")
            elif isinstance(d.value, ast.Call) and isinstance(d.value.func, ast.Name) and d.value.func.id == "next" and isinstance(d.value.args[0], ast.GeneratorExp):
                ge = d.value.args[0]
                conds = ge.generators[0].ifs
                tv = ge.generators[0].target.id if isinstance(ge.generators[0].target, ast.Name) else None
                rr = relation(conds[0], nz) if len(conds) == 1 else None
                okd = tv is not None and rr is not None and same_relation(rr, Sym.atom(nxt) - Sym.atom(tv), ">=") and "reversed" in src(ge.generators[0].iter)
            elif isinstance(d.value, ast.Call) and isinstance(d.value.func, ast.Attribute) and isinstance(d.value.func.value, ast.Name) \
                    and d.value.func.value.id in ("self", fe.cls) and p.lookup_method(fe.cls, d.value.func.attr) is not None \
                    and len(d.value.args) == 1 and not d.value.keywords and ((isinstance(d.value.args[0], ast.Name) and d.value.args[0].id == nxt)
                                                                              or (not bounds and _is_min(d.value.args[0]))):
                # the choice lives in a helper that is handed `nxt`: its returns are judged the same way, with the parameter as `nxt`
                h = p.lookup_method(fe.cls, d.value.func.attr)
                ctx.analysed(h)
                hp = [a_ for a_ in h.params if a_ not in ("self", "cls")][0]
                hz = Normaliser()
                hz.run_block([s_ for s_ in h.node.body if isinstance(s_, ast.Assign)])
                rets = [r_ for r_ in walk_local(h.node) if isinstance(r_, ast.Return)]
                okd = bool(rets)
                kinds_ = set()
                from ..astutil import guarded_conditions
                for r_ in rets:
                    v_ = r_.value
                    lp_ = next((a for a in ancestors(r_) if isinstance(a, ast.For)), None)
                    pcs_ = guarded_conditions(r_, lp_) if lp_ is not None else guarded_conditions(r_)
                    if lp_ is None and v_ is not None and hz.norm(v_) == hz.norm(ast.parse("self.step_sizes[-1]", mode="eval").body):
                        rel_ = [relation(t_, hz) for t_, h_ in pcs_ if h_]
                        okd = okd and len(pcs_) == 1 and rel_ and rel_[0] is not None and same_relation(rel_[0], Sym.atom(hp) - hz.norm(v_), ">")
                        kinds_.add("top")
                    elif lp_ is not None and isinstance(lp_.target, ast.Name) and isinstance(v_, ast.Name) and v_.id == lp_.target.id \
                            and src(lp_.iter) == "reversed(self.step_sizes)":
                        rel_ = [relation(t_, hz) for t_, h_ in pcs_ if h_]
                        okd = okd and len(pcs_) == 1 and rel_ and rel_[0] is not None and same_relation(rel_[0], Sym.atom(hp) - Sym.atom(v_.id), ">=")
                        kinds_.add("scan")
                    else:
                        okd = False
                okd = bool(okd) and "scan" in kinds_
            else:
                okd = False
            ok = ok and okd
        ctx.check(ok, "RESTSUM", f"tokenise: the emitted rest is the largest step size not exceeding `{nxt}`", function=fe.qualname,
                  construct="emitted rest value is not the largest step size that fits", message=f"{[short(d, 80) for d in defs]}", file=fe.file, node=loop)


def _st2(ctx):
    """A single call starts from the state defaults: they must be detokenise's initial clock (rule ST2 of C03)."""
    from . import c03
    sub = Ctx(ctx.p, ctx.prop, ctx.tier)
    c03._main_check(sub)
    for o in sub.obligations:
        if o.rule == "ST2":
            ctx.obligations.append(o)
    for f in sub.findings:
        if f.rule == "ST2":
            ctx.findings.append(f)


def _extra(ctx):
    _st2(ctx)
    # the Sequence-level operations tokenise / detokenise go through keep both views coherent (labelling the tracks with
    # set_channel before merging reads the absolute view)
    from .common import view_deps
    view_deps(ctx)
    from ..engines import keykind as _kk
    _kk.check_function(ctx, "AbsoluteSequence.get_message_pairings", "KEY", expect_min=2)
    from ..engines.pairing import check_pairings
    ctx.floor("pairing-table cases decided", check_pairings(ctx), 16)
    from ..engines.structure import interleave_rule
    interleave_rule(ctx)
