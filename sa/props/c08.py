"""C08 -- splitting a sequence conserves duration, sound and events with exact capacities (structural clauses)."""
from __future__ import annotations

import ast

from ..astutil import attr_chain, call_method, short, src, enum_member, kwarg, ancestors
from ..linear import Normaliser, Sym
from ..model import walk_local, AnalysisError
from ..report import Ctx
from ..engines import keykind, queue
from ..engines.effects import Effects
from ..engines.typecase import TypeCase, events_matching

FN = "RelativeSequence.split"


def msg_ctor_calls(node: ast.AST):
    for c in ast.walk(node):
        if isinstance(c, ast.Call) and isinstance(c.func, ast.Name) and c.func.id == "Message":
            yield c, enum_member(kwarg(c, "message_type"), "MessageType") if kwarg(c, "message_type") is not None else None


def check(ctx: Ctx) -> None:
    _check(ctx)
    from ..engines.typestate import check_wrappers
    check_wrappers(ctx, ['split'])


def _check(ctx: Ctx) -> None:
    split_rules(ctx, {"KEY", "PURE", "Q1", "CUT", "RESTRIKE", "COUNT", "PLACE"}, explain=True)


def split_rules(ctx: Ctx, include: set, explain: bool = False) -> None:
    """The rules on RelativeSequence.split; C09 (bar splitting is built on split) re-uses KEY, CUT and RESTRIKE."""
    p = ctx.p
    fi = p.func(FN)
    ctx.analysed(fi)
    if explain:
      ctx.explanation = (
        "Structural necessary conditions of C08 on RelativeSequence.split: KEY2 the open-note dictionary is keyed by channel "
        "and pitch; Q1 the list of events deferred to the next piece is consumed on every path before it is re-initialised "
        "or the function returns (must-consume dataflow; the `while remaining >= 0` exit is pruned by the proved invariant "
        "remaining >= 0); CUT when a wait straddles the boundary the emitted part plus the carried part is the original wait "
        "and the emitted part is the remaining capacity (symbolic linear identity); RESTRIKE every note closed at a boundary "
        "is closed with the open note's channel and pitch and re-opened with its channel, pitch and velocity; PURE the source "
        "object is not written (effect analysis); COUNT at most one piece is appended per capacity plus one remainder; PLACE every "
        "message taken from the work list is placed exactly once, in the current piece or on the deferred queue and nowhere else. "
        "Not decided: exact piece durations, piano-roll equality of the concatenation.")
    if explain:
        ctx.assumptions += ["capacities are positive integers", "the relative sequence is well-formed (note-offs follow their note-ons)"]

    if "KEY" in include:
        keykind.check_function(ctx, FN, "KEY", expect_min=1)

    if "PURE" in include:
        _pure(ctx, fi)
    if "Q1" in include:
        _q1(ctx, fi)
    if "CUT" in include:
        _cut(ctx, fi)
    if "RESTRIKE" in include:
        _restrike(ctx, fi)
    if "COUNT" in include:
        _count(ctx, fi)
    if "PLACE" in include:
        _place(ctx, fi)


def _place(ctx, fi):
    """PLACE: every message taken from the work list goes, exactly once, either into the current piece or onto the deferred
    queue (from where it is re-processed and registered in the next round) -- nowhere else, and never twice."""
    p = ctx.p
    qs = queue.find_queues(fi.node)
    result = next((r.value.id for r in walk_local(fi.node) if isinstance(r, ast.Return) and isinstance(r.value, ast.Name)), None)
    cur = None
    for c in ast.walk(fi.node):
        if isinstance(c, ast.Call) and call_method(c)[1] == "append" and isinstance(call_method(c)[0], ast.Name) and call_method(c)[0].id == result \
                and c.args and isinstance(c.args[0], ast.Name):
            cur = c.args[0].id
    loop = next((n for n in ast.walk(fi.node) if isinstance(n, ast.While)), None)
    popped = None
    if loop is not None:
        for s_ in loop.body:
            if isinstance(s_, ast.Assign) and isinstance(s_.targets[0], ast.Name) and isinstance(s_.value, ast.Call) and call_method(s_.value)[1] == "pop":
                popped = s_
    if not qs or cur is None or loop is None or popped is None:
        ctx.undetermined("PLACE", f"{FN}: placement of each message", "work-list loop / current piece / queue not recognised: not judged")
        return
    m = popped.targets[0].id
    body = [s_ for s_ in loop.body if s_.lineno > popped.lineno]
    allowed = {cur, qs[0]}
    class _TC(TypeCase):
        # both legitimate destinations count as one event, so that "exactly one of them" is an interval (1,1)
        def event_for_call(self, c, st):
            ev = super().event_for_call(c, st)
            if ev is not None and ev[0] == "append" and ev[1] in allowed:
                self.seen_dest.add(ev[1])
                return ("append", "$place", ev[2])
            return ev

    for T in p.enum_order("MessageType"):
        tc = _TC(p, fi, {m}, T)
        tc.seen_dest = set()
        exits = tc.run_body(body)
        where = {}
        for k, st in exits:
            for e, v in st.counts.items():
                if e[0] == "append" and e[2] in ("msg", "maybe-msg") and v[1] > 0:
                    where.setdefault(e[1], []).append(v)
        stray = sorted(set(where) - {"$place"})
        total = events_matching(exits, lambda e: e[0] == "append" and e[2] in ("msg", "maybe-msg") and e[1] == "$place", kinds=("end", "continue", "break"))
        inst = f"{FN}: {T}: the message is placed {total} time(s) in {sorted(tc.seen_dest)}"
        ctx.check(not stray, "PLACE", inst + " -- only the current piece or the deferred queue", function=FN,
                  construct=f"a {T} message taken from the work list is put somewhere other than the current piece or the deferred queue",
                  message=f"appended to {stray}: it bypasses the re-processing of deferred events (a note would not be registered as open, "
                          f"so it is neither closed nor re-struck at the next boundary)", file=fi.file, node=loop)
        if T == "WAIT":
            ok = total is not None and total[1] <= 1
        else:
            ok = total == (1, 1)
        ctx.check(ok, "PLACE", inst + " -- exactly once", function=FN,
                  construct=f"a {T} message is not placed exactly once", message=f"{total}", file=fi.file, node=loop)


def _pure(ctx, fi):
    p = ctx.p
    eff = Effects(p)
    ws = eff.writes("RelativeSequence", "split")
    ctx.check(not ws, "PURE", f"{FN}: no write to the source's event list or its messages", function=FN,
              construct="split writes to its source", message=f"{[(w.kind, w.attr, getattr(w.node, 'lineno', 0)) for w in ws][:4]}", file=fi.file,
              node=ws[0].node if ws else fi.node)
    ss = p.func("Sequence.split")
    ctx.analysed(ss)
    has_inval = any(isinstance(c, ast.Call) and call_method(c)[1] in ("invalidate_abs", "invalidate_rel") for c in walk_local(ss.node))
    ctx.ok("PURE", "Sequence.split: wrapper performs no mutation", f"invalidate calls: {has_inval}")



def _q1(ctx, fi):
    p = ctx.p
    qs = queue.find_queues(fi.node)
    ctx.floor("deferred-event queues in split", len(qs), 1)
    for q in qs:
        qi = queue.QueueInterp(q)
        drops = qi.run(fi.node)
        ctx.counters[f"queue {q}: add sites"] = qi.adds
        ctx.counters[f"queue {q}: consume sites"] = qi.consumes
        ctx.counters[f"queue {q}: loop exits pruned by invariant"] = qi.pruned
        if qi.adds == 0:
            raise AnalysisError(f"{FN}: queue `{q}` has no add site: idiom not recognised")
        if not drops:
            ctx.ok("Q1", f"{FN}: deferred-event list consumed on every path", f"{qi.adds} add sites, {qi.consumes} consume sites")
        for node, why, lab in drops:
            kind = "at return" if "return" in why or "falls off" in why else "at re-initialisation"
            inst = f"{FN}: deferred {lab} {kind}"
            if qi.unproved_loops:
                ctx.undetermined("Q1", inst, "a loop exit could not be pruned; not judged")
                continue
            ctx.violation("Q1", inst, function=FN,
                          construct=f"deferred {lab} may be dropped {kind}",
                          message=f"a {lab} put aside for the next piece is lost: the list {why} "
                                  f"(the end-of-input `break` leaves the loop without splicing it back)", file=fi.file, node=node)



def _cut(ctx, fi):
    p = ctx.p
    cut_checked = 0
    for n in walk_local(fi.node):
        if isinstance(n, ast.If) and isinstance(n.test, ast.Compare) and len(n.test.ops) == 1 and isinstance(n.test.ops[0], (ast.LtE, ast.Lt)) \
                and isinstance(n.test.left, ast.Attribute) and n.test.left.attr == "time" and n.orelse:
            msgtime = src(n.test.left)
            cap = src(n.test.comparators[0])
            nz = Normaliser()
            nz.run_block([s for s in n.orelse if isinstance(s, (ast.Assign, ast.AugAssign))])
            waits = [(c, nz.norm(kwarg(c, "time"))) for c, t in msg_ctor_calls(ast.Module(body=n.orelse, type_ignores=[])) if t == "WAIT" and kwarg(c, "time") is not None]
            if not waits:
                continue
            cut_checked += 1
            total = Sym()
            for _, s in waits:
                total = total + s
            want = nz.norm(n.test.left)
            inst = f"{FN}: wait cut at the boundary: parts {[s.canon() for _, s in waits]}"
            ctx.check(total == want, "CUT", inst + f" sum to {want.canon()}", function=FN,
                      construct="parts of a wait cut at the boundary do not add up to the original wait",
                      message=f"emitted + carried = `{total.canon()}`, original = `{want.canon()}`: time is lost or invented at the boundary",
                      file=fi.file, node=n)
            capsym = nz.norm(n.test.comparators[0])
            ctx.check(any(s == capsym for _, s in waits), "CUT", f"{FN}: the emitted part is the remaining capacity `{capsym.canon()}`", function=FN,
                      construct="the part of a cut wait that stays in the piece is not the remaining capacity",
                      message=f"parts {[s.canon() for _, s in waits]}", file=fi.file, node=n)
            # whole wait: capacity decreases by exactly the wait
            dec = [s for s in n.body if isinstance(s, ast.AugAssign) and isinstance(s.op, ast.Sub) and src(s.target) == cap]
            ctx.check(len(dec) == 1 and src(dec[0].value) == msgtime, "CUT", f"{FN}: taking a whole wait reduces the capacity by it", function=FN,
                      construct="capacity not reduced by exactly the wait taken", message=f"{[short(d) for d in dec]}", file=fi.file, node=n)
    ctx.floor("boundary wait-cut sites", cut_checked, 1)



def _restrike(ctx, fi):
    p = ctx.p
    restrike = 0
    for lp in [n for n in walk_local(fi.node) if isinstance(n, ast.For)]:
        calls = [(c, t) for c, t in msg_ctor_calls(ast.Module(body=lp.body, type_ignores=[]))
                 if next((a for a in ancestors(c) if isinstance(a, (ast.For, ast.While))), None) is lp]
        ons = [c for c, t in calls if t == "NOTE_ON"]
        offs = [c for c, t in calls if t == "NOTE_OFF"]
        if not ons and not offs:
            continue
        # the loop variable holding the open note
        it = lp.iter
        vnames = [x.id for x in ast.walk(lp.target) if isinstance(x, ast.Name)]
        restrike += 1
        ctx.check(bool(ons) and bool(offs), "RESTRIKE", f"{FN}: boundary loop closes and re-opens each sounding note", function=FN,
                  construct="boundary loop does not both close and re-open sounding notes",
                  message=f"{len(offs)} NOTE_OFF / {len(ons)} NOTE_ON constructions", file=fi.file, node=lp)
        for c, need in [(x, ("channel", "note", "velocity")) for x in ons] + [(x, ("channel", "note")) for x in offs]:
            kinds = "NOTE_ON" if c in ons else "NOTE_OFF"
            srcs = set()
            good = True
            for a in need:
                v = kwarg(c, a)
                if not (isinstance(v, ast.Attribute) and v.attr == a and isinstance(v.value, ast.Name) and v.value.id in vnames):
                    good = False
                else:
                    srcs.add(v.value.id)
            ctx.check(good and len(srcs) == 1, "RESTRIKE", f"{FN}: boundary {kinds} copies {'/'.join(need)} of the open note", function=FN,
                      construct=f"boundary {kinds} does not copy {'/'.join(need)} from the open note",
                      message=f"`{short(c, 100)}`", file=fi.file, node=c)
    ctx.floor("boundary re-strike loops", restrike, 1)



def _count(ctx, fi):
    p = ctx.p
    result = None
    for r in walk_local(fi.node):
        if isinstance(r, ast.Return) and isinstance(r.value, ast.Name):
            result = r.value.id
    outer = next((n for n in fi.node.body if isinstance(n, ast.For)), None)
    if result is None or outer is None:
        raise AnalysisError(f"{FN}: result list / capacity loop not found")
    tc = TypeCase(p, fi, set(), None)
    exits = tc.run_body(outer.body)
    rng = events_matching(exits, lambda e: e[0] == "append" and e[1] == result, kinds=("end", "continue", "break"))
    ctx.check(rng is not None and rng[1] <= 1, "COUNT", f"{FN}: at most one piece appended per capacity {rng}", function=FN,
              construct="more than one piece can be appended for a single capacity", message=f"{rng}", file=fi.file, node=outer)
    after = [s for s in fi.node.body if getattr(s, "lineno", 0) > outer.lineno]
    tc2 = TypeCase(p, fi, set(), None)
    exits2 = tc2.run_body(after)
    rng2 = events_matching(exits2, lambda e: e[0] == "append" and e[1] == result, kinds=("end", "return"))
    ctx.check(rng2 is not None and rng2[1] <= 1, "COUNT", f"{FN}: at most one remainder piece {rng2}", function=FN,
              construct="more than one remainder piece can be appended", message=f"{rng2}", file=fi.file, node=outer)
