"""C08 -- splitting a sequence conserves duration, sound and events with exact capacities (structural clauses)."""
from __future__ import annotations

import ast

from ..astutil import attr_chain, call_method, short, src, enum_member, kwarg, ancestors
from ..linear import Normaliser, Sym
from ..model import walk_local, AnalysisError
from ..report import Ctx
from ..absint import AbsInt
from ..engines import keykind, queue
from ..engines.effects import Effects
from ..engines.typecase import TypeCase, events_matching

FN = "RelativeSequence.split"


def msg_ctor_calls(node: ast.AST):
    for c in ast.walk(node):
        if isinstance(c, ast.Call) and isinstance(c.func, ast.Name) and c.func.id == "Message":
            yield c, enum_member(kwarg(c, "message_type"), "MessageType") if kwarg(c, "message_type") is not None else None


def check(ctx: Ctx) -> None:
    _check(ctx)
    from ..engines.typestate import check_wrappers
    check_wrappers(ctx, ['split'])


def _check(ctx: Ctx) -> None:
    split_rules(ctx, {"KEY", "PURE", "Q1", "CUT", "RESTRIKE", "COUNT", "PLACE", "DEST", "PIECE", "FLOW"}, explain=True)


def split_rules(ctx: Ctx, include: set, explain: bool = False) -> None:
    """The rules on RelativeSequence.split; C09 (bar splitting is built on split) re-uses KEY, CUT and RESTRIKE."""
    p = ctx.p
    fi = p.func(FN)
    ctx.analysed(fi)
    if explain:
      ctx.explanation = (
        "Structural necessary conditions of C08 on RelativeSequence.split: KEY2 the open-note dictionary is keyed by channel "
        "and pitch; Q1 the list of events deferred to the next piece is consumed on every path before it is re-initialised "
        "or the function returns (must-consume dataflow; the `while remaining >= 0` exit is pruned by the proved invariant "
        "remaining >= 0); CUT when a wait straddles the boundary the emitted part plus the carried part is the original wait "
        "and the emitted part is the remaining capacity (symbolic linear identity); RESTRIKE every note closed at a boundary "
        "is closed with the open note's channel and pitch and re-opened with its channel, pitch and velocity; PURE the source "
        "object is not written (effect analysis); COUNT at most one piece is appended per capacity plus one remainder; PLACE every "
        "message taken from the work list is placed exactly once, in the current piece or on the deferred queue and nowhere else. "
        "Not decided: exact piece durations, piano-roll equality of the concatenation.")
    if explain:
        ctx.assumptions += ["capacities are positive integers", "the relative sequence is well-formed (note-offs follow their note-ons)"]

    if "KEY" in include:
        keykind.check_function(ctx, FN, "KEY", expect_min=1)

    if "PURE" in include:
        _pure(ctx, fi)
    if "Q1" in include:
        _q1(ctx, fi)
    if "CUT" in include:
        _cut(ctx, fi)
    if "RESTRIKE" in include:
        _restrike(ctx, fi)
    if "COUNT" in include:
        _count(ctx, fi)
    if "PLACE" in include:
        _place(ctx, fi)
    if "DEST" in include:
        _dest(ctx, fi)
    if "PIECE" in include:
        _piece(ctx, fi)
    if "FLOW" in include:
        _flow(ctx, fi)
    if "TAIL" in include:
        _tail(ctx, fi)


def _place(ctx, fi):
    """PLACE: every message taken from the work list goes, exactly once, either into the current piece or onto the deferred
    queue (from where it is re-processed and registered in the next round) -- nowhere else, and never twice."""
    p = ctx.p
    qs = queue.find_queues(fi.node)
    result = next((r.value.id for r in walk_local(fi.node) if isinstance(r, ast.Return) and isinstance(r.value, ast.Name)), None)
    cur = None
    for c in ast.walk(fi.node):
        if isinstance(c, ast.Call) and call_method(c)[1] == "append" and isinstance(call_method(c)[0], ast.Name) and call_method(c)[0].id == result \
                and c.args and isinstance(c.args[0], ast.Name):
            cur = c.args[0].id
    loop = next((n for n in ast.walk(fi.node) if isinstance(n, ast.While)), None)
    popped = None
    if loop is not None:
        for s_ in loop.body:
            if isinstance(s_, ast.Assign) and isinstance(s_.targets[0], ast.Name) and isinstance(s_.value, ast.Call) and call_method(s_.value)[1] == "pop":
                popped = s_
    if not qs or cur is None or loop is None or popped is None:
        ctx.undetermined("PLACE", f"{FN}: placement of each message", "work-list loop / current piece / queue not recognised: not judged")
        return
    m = popped.targets[0].id
    body = [s_ for s_ in loop.body if s_.lineno > popped.lineno]
    allowed = {cur, qs[0]}
    class _TC(TypeCase):
        # both legitimate destinations count as one event, so that "exactly one of them" is an interval (1,1)
        def event_for_call(self, c, st):
            ev = super().event_for_call(c, st)
            if ev is not None and ev[0] == "append" and ev[1] in allowed:
                self.seen_dest.add(ev[1])
                return ("append", "$place", ev[2])
            return ev

    for T in p.enum_order("MessageType"):
        tc = _TC(p, fi, {m}, T)
        tc.seen_dest = set()
        exits = tc.run_body(body)
        where = {}
        for k, st in exits:
            for e, v in st.counts.items():
                if e[0] == "append" and e[2] in ("msg", "maybe-msg") and v[1] > 0:
                    where.setdefault(e[1], []).append(v)
        stray = sorted(set(where) - {"$place"})
        total = events_matching(exits, lambda e: e[0] == "append" and e[2] in ("msg", "maybe-msg") and e[1] == "$place", kinds=("end", "continue", "break"))
        inst = f"{FN}: {T}: the message is placed {total} time(s) in {sorted(tc.seen_dest)}"
        ctx.check(not stray, "PLACE", inst + " -- only the current piece or the deferred queue", function=FN,
                  construct=f"a {T} message taken from the work list is put somewhere other than the current piece or the deferred queue",
                  message=f"appended to {stray}: it bypasses the re-processing of deferred events (a note would not be registered as open, "
                          f"so it is neither closed nor re-struck at the next boundary)", file=fi.file, node=loop)
        if T == "WAIT":
            ok = total is not None and total[1] <= 1
        else:
            ok = total == (1, 1)
        ctx.check(ok, "PLACE", inst + " -- exactly once", function=FN,
                  construct=f"a {T} message is not placed exactly once", message=f"{total}", file=fi.file, node=loop)


def _pure(ctx, fi):
    p = ctx.p
    eff = Effects(p)
    ws = eff.writes("RelativeSequence", "split")
    ctx.check(not ws, "PURE", f"{FN}: no write to the source's event list or its messages", function=FN,
              construct="split writes to its source", message=f"{[(w.kind, w.attr, getattr(w.node, 'lineno', 0)) for w in ws][:4]}", file=fi.file,
              node=ws[0].node if ws else fi.node)
    ss = p.func("Sequence.split")
    ctx.analysed(ss)
    has_inval = any(isinstance(c, ast.Call) and call_method(c)[1] in ("invalidate_abs", "invalidate_rel") for c in walk_local(ss.node))
    ctx.ok("PURE", "Sequence.split: wrapper performs no mutation", f"invalidate calls: {has_inval}")



def _q1(ctx, fi):
    p = ctx.p
    qs = queue.find_queues(fi.node)
    ctx.floor("deferred-event queues in split", len(qs), 1)
    for q in qs:
        qi = queue.QueueInterp(q)
        drops = qi.run(fi.node)
        ctx.counters[f"queue {q}: add sites"] = qi.adds
        ctx.counters[f"queue {q}: consume sites"] = qi.consumes
        ctx.counters[f"queue {q}: loop exits pruned by invariant"] = qi.pruned
        if qi.adds == 0:
            raise AnalysisError(f"{FN}: queue `{q}` has no add site: idiom not recognised")
        if not drops:
            ctx.ok("Q1", f"{FN}: deferred-event list consumed on every path", f"{qi.adds} add sites, {qi.consumes} consume sites")
        for node, why, lab in drops:
            kind = "at return" if "return" in why or "falls off" in why else "at re-initialisation"
            inst = f"{FN}: deferred {lab} {kind}"
            if qi.unproved_loops:
                ctx.undetermined("Q1", inst, "a loop exit could not be pruned; not judged")
                continue
            ctx.violation("Q1", inst, function=FN,
                          construct=f"deferred {lab} may be dropped {kind}",
                          message=f"a {lab} put aside for the next piece is lost: the list {why} "
                                  f"(the end-of-input `break` leaves the loop without splicing it back)", file=fi.file, node=node)



def _cut(ctx, fi):
    p = ctx.p
    cut_checked = 0
    for n in walk_local(fi.node):
        if isinstance(n, ast.If) and isinstance(n.test, ast.Compare) and len(n.test.ops) == 1 and isinstance(n.test.ops[0], (ast.LtE, ast.Lt)) \
                and isinstance(n.test.left, ast.Attribute) and n.test.left.attr == "time" and n.orelse:
            msgtime = src(n.test.left)
            cap = src(n.test.comparators[0])
            nz = Normaliser()
            nz.run_block([s for s in n.orelse if isinstance(s, (ast.Assign, ast.AugAssign))])
            waits = [(c, nz.norm(kwarg(c, "time"))) for c, t in msg_ctor_calls(ast.Module(body=n.orelse, type_ignores=[])) if t == "WAIT" and kwarg(c, "time") is not None]
            if not waits:
                continue
            cut_checked += 1
            total = Sym()
            for _, s in waits:
                total = total + s
            want = nz.norm(n.test.left)
            inst = f"{FN}: wait cut at the boundary: parts {[s.canon() for _, s in waits]}"
            ctx.check(total == want, "CUT", inst + f" sum to {want.canon()}", function=FN,
                      construct="parts of a wait cut at the boundary do not add up to the original wait",
                      message=f"emitted + carried = `{total.canon()}`, original = `{want.canon()}`: time is lost or invented at the boundary",
                      file=fi.file, node=n)
            capsym = nz.norm(n.test.comparators[0])
            ctx.check(any(s == capsym for _, s in waits), "CUT", f"{FN}: the emitted part is the remaining capacity `{capsym.canon()}`", function=FN,
                      construct="the part of a cut wait that stays in the piece is not the remaining capacity",
                      message=f"parts {[s.canon() for _, s in waits]}", file=fi.file, node=n)
            # whole wait: capacity decreases by exactly the wait
            dec = [s for s in n.body if isinstance(s, ast.AugAssign) and isinstance(s.op, ast.Sub) and src(s.target) == cap]
            ctx.check(len(dec) == 1 and src(dec[0].value) == msgtime, "CUT", f"{FN}: taking a whole wait reduces the capacity by it", function=FN,
                      construct="capacity not reduced by exactly the wait taken", message=f"{[short(d) for d in dec]}", file=fi.file, node=n)
    ctx.floor("boundary wait-cut sites", cut_checked, 1)



def _restrike(ctx, fi):
    p = ctx.p
    restrike = 0
    for lp in [n for n in walk_local(fi.node) if isinstance(n, ast.For)]:
        calls = [(c, t) for c, t in msg_ctor_calls(ast.Module(body=lp.body, type_ignores=[]))
                 if next((a for a in ancestors(c) if isinstance(a, (ast.For, ast.While))), None) is lp]
        ons = [c for c, t in calls if t == "NOTE_ON"]
        offs = [c for c, t in calls if t == "NOTE_OFF"]
        if not ons and not offs:
            continue
        # the loop variable holding the open note
        it = lp.iter
        vnames = [x.id for x in ast.walk(lp.target) if isinstance(x, ast.Name)]
        restrike += 1
        ctx.check(bool(ons) and bool(offs), "RESTRIKE", f"{FN}: boundary loop closes and re-opens each sounding note", function=FN,
                  construct="boundary loop does not both close and re-open sounding notes",
                  message=f"{len(offs)} NOTE_OFF / {len(ons)} NOTE_ON constructions", file=fi.file, node=lp)
        for c, need in [(x, ("channel", "note", "velocity")) for x in ons] + [(x, ("channel", "note")) for x in offs]:
            kinds = "NOTE_ON" if c in ons else "NOTE_OFF"
            srcs = set()
            good = True
            for a in need:
                v = kwarg(c, a)
                if not (isinstance(v, ast.Attribute) and v.attr == a and isinstance(v.value, ast.Name) and v.value.id in vnames):
                    good = False
                else:
                    srcs.add(v.value.id)
            ctx.check(good and len(srcs) == 1, "RESTRIKE", f"{FN}: boundary {kinds} copies {'/'.join(need)} of the open note", function=FN,
                      construct=f"boundary {kinds} does not copy {'/'.join(need)} from the open note",
                      message=f"`{short(c, 100)}`", file=fi.file, node=c)
        # where the two messages go: the NOTE_OFF into the piece being closed; the NOTE_ON either onto the deferred queue (it is
        # re-processed and registered as open in the next round) or straight into the next piece -- the latter only if the
        # open-note table survives from one piece to the next
        qs_, result_, cur_, wloop_, popped_ = _roles(fi)
        cap_loop = next((a for a in ancestors(lp) if isinstance(a, ast.For) and a is not lp), None)
        opens_defs = [s_ for s_ in ast.walk(fi.node) if isinstance(s_, ast.Assign) and isinstance(s_.targets[0], ast.Name) and src(s_.targets[0]) == src(it).split(".")[0]
                      and ((isinstance(s_.value, ast.Call) and src(s_.value.func) == "dict") or isinstance(s_.value, ast.Dict))]
        table_per_piece = any(cap_loop is not None and cap_loop in list(ancestors(d_)) for d_ in opens_defs)
        for c in offs + ons:
            call = next((a for a in ancestors(c) if isinstance(a, ast.Call) and call_method(a)[1] in ("add_message", "append", "_add_message_unsorted")), None)
            dest = src(call_method(call)[0]).split(".")[0] if call is not None else None
            if c in offs:
                ctx.check(dest == cur_, "RESTRIKE", f"{FN}: the boundary NOTE_OFF closes the note in the piece that ends (`{dest}`)", function=FN,
                          construct="boundary NOTE_OFF is not added to the piece that ends", message=f"destination `{dest}`, current piece `{cur_}`",
                          file=fi.file, node=c)
            else:
                queued = bool(qs_) and dest == qs_[0]
                ctx.check(queued or (dest is not None and dest != cur_ and not table_per_piece), "RESTRIKE",
                          f"{FN}: the re-struck NOTE_ON reaches the next piece as a registered open note (`{dest}`)", function=FN,
                          construct="re-struck note is not registered as open in the next piece",
                          message=f"the NOTE_ON goes to `{dest}` {'(not the deferred queue) ' if not queued else ''}while the open-note table is "
                                  f"{'re-created for every piece' if table_per_piece else 'kept across pieces'}: a note sounding across two boundaries is neither "
                                  f"closed nor re-struck at the second one", file=fi.file, node=c)
    ctx.floor("boundary re-strike loops", restrike, 1)



def _count(ctx, fi):
    p = ctx.p
    result = None
    for r in walk_local(fi.node):
        if isinstance(r, ast.Return) and isinstance(r.value, ast.Name):
            result = r.value.id
    # the capacity loop: the top-level loop that contains the work-list loop (role, not position)
    outer = next((n for n in fi.node.body if isinstance(n, ast.For) and any(isinstance(x, ast.While) for x in ast.walk(n))), None) \
        or next((n for n in fi.node.body if isinstance(n, ast.For) and src(n.iter) == fi.params[1]), None)
    if result is None or outer is None:
        raise AnalysisError(f"{FN}: result list / capacity loop not found")
    tc = TypeCase(p, fi, set(), None)
    exits = tc.run_body(outer.body)
    rng = events_matching(exits, lambda e: e[0] == "append" and e[1] == result, kinds=("end", "continue", "break"))
    ctx.check(rng is not None and rng[1] <= 1, "COUNT", f"{FN}: at most one piece appended per capacity {rng}", function=FN,
              construct="more than one piece can be appended for a single capacity", message=f"{rng}", file=fi.file, node=outer)
    after = [s for s in fi.node.body if getattr(s, "lineno", 0) > outer.end_lineno]
    tc2 = TypeCase(p, fi, set(), None)
    exits2 = tc2.run_body(after)
    rng2 = events_matching(exits2, lambda e: e[0] == "append" and e[1] == result, kinds=("end", "return"))
    ctx.check(rng2 is not None and rng2[1] <= 1, "COUNT", f"{FN}: at most one remainder piece {rng2}", function=FN,
              construct="more than one remainder piece can be appended", message=f"{rng2}", file=fi.file, node=outer)


# ------------------------------------------------------------------------------------------------ DEST / PIECE
def _roles(fi):
    qs = queue.find_queues(fi.node)
    result = next((r.value.id for r in walk_local(fi.node) if isinstance(r, ast.Return) and isinstance(r.value, ast.Name)), None)
    cur = None
    for c in ast.walk(fi.node):
        if isinstance(c, ast.Call) and call_method(c)[1] == "append" and isinstance(call_method(c)[0], ast.Name) and call_method(c)[0].id == result \
                and c.args and isinstance(c.args[0], ast.Name):
            cur = c.args[0].id
    loop = next((n for n in ast.walk(fi.node) if isinstance(n, ast.While)), None)
    popped = None
    if loop is not None:
        for s_ in loop.body:
            if isinstance(s_, ast.Assign) and isinstance(s_.targets[0], ast.Name) and isinstance(s_.value, ast.Call) and call_method(s_.value)[1] == "pop":
                popped = s_
    return qs, result, cur, loop, popped


def _dest(ctx, fi):
    """DEST: where each message goes, decided per (kind, capacity left > 0?, wait fits?) by interpreting the body of the
    work-list loop with those two tests fixed by the case:

        NOTE_ON / other kinds   capacity left      -> current piece (a NOTE_ON is also registered as open)
                                at the boundary    -> deferred queue (not registered yet)
        NOTE_OFF                always             -> current piece, its registration removed
        WAIT that fits          -> current piece, the capacity reduced by its time, the round goes on
        WAIT that does not fit  -> not placed itself: the head (iff capacity is left) closes the piece, the carried rest is
                                   queued, the round ends

    and the round keeps consuming events while the capacity is >= 0 (zero-time events at the boundary still belong to
    the piece)."""
    from ..linear import Normaliser, Sym, relation, same_relation
    p = ctx.p
    qs, result, cur, loop, popped = _roles(fi)
    if not qs or cur is None or loop is None or popped is None:
        ctx.undetermined("DEST", f"{FN}: destination of each message", "work-list loop / current piece / queue not recognised: not judged")
        return
    m = popped.targets[0].id
    qn = qs[0]
    body = [s_ for s_ in loop.body if s_.lineno > popped.lineno]
    # the capacity variable: the name compared in the while test
    rem = loop.test.left.id if isinstance(loop.test, ast.Compare) and isinstance(loop.test.left, ast.Name) else None
    nz = Normaliser()
    r = relation(loop.test, nz)
    ctx.check(rem is not None and same_relation(r, Sym.atom(rem), ">="), "DEST", f"{FN}: a round runs while `{rem} >= 0`", function=FN,
              construct="the round of a piece does not continue while the remaining capacity is >= 0",
              message=f"`{short(loop.test)}`: with a strict test the zero-time events sitting exactly on the boundary (note-offs ending there) are "
                      f"pushed into the next piece", file=fi.file, node=loop)
    if rem is None:
        return
    tables = sorted({s.targets[0].id for s in ast.walk(fi.node) if isinstance(s, ast.Assign) and isinstance(s.targets[0], ast.Name)
                     and ((isinstance(s.value, ast.Call) and isinstance(s.value.func, ast.Name) and s.value.func.id == "dict") or isinstance(s.value, ast.Dict))})
    opens = tables[0] if len(tables) == 1 else None

    def decide_factory(cap_left, fits):
        def decide(test, st, tc):
            if isinstance(test, ast.Compare) and len(test.ops) == 1:
                rr = relation(test, nz)
                if rr is not None:
                    if same_relation(rr, Sym.atom(rem), ">"):
                        return cap_left
                    if same_relation(rr, Sym.atom(rem), "<=") or same_relation(rr, Sym.atom(rem), "=="):
                        return not cap_left
                    d = Sym.atom(f"{m}.time") - Sym.atom(rem)
                    if same_relation(rr, d, "<="):
                        return fits
                    if same_relation(rr, d, ">"):
                        return not fits
            return None
        return decide

    class _TC(TypeCase):
        def event_for_call(self, c, st):
            recv, name = call_method(c)
            if opens is not None and recv is not None and name == "pop" and isinstance(recv, ast.Name) and recv.id == opens:
                return ("open-pop",)
            return super().event_for_call(c, st)

        def stmt(self, s, st):
            if opens is not None and isinstance(s, ast.Assign) and isinstance(s.targets[0], ast.Subscript) and isinstance(s.targets[0].value, ast.Name) \
                    and s.targets[0].value.id == opens:
                st.bump(("open-store", "msg" if self.is_msg(s.value, st) else "other"))
                return st
            return super().stmt(s, st)

    Z, ONE = (0, 0), (1, 1)
    cases = [
        ("NOTE_ON", True, None, "a note-on while capacity is left", dict(cur_msg=ONE, q_msg=Z, reg=ONE, unreg=Z), {"end"}),
        ("NOTE_ON", False, None, "a note-on exactly on the boundary", dict(cur_msg=Z, q_msg=ONE, reg=Z, unreg=Z), {"end"}),
        ("NOTE_OFF", True, None, "a note-off while capacity is left", dict(cur_msg=ONE, q_msg=Z, reg=Z, unreg=ONE), {"end"}),
        ("NOTE_OFF", False, None, "a note-off exactly on the boundary", dict(cur_msg=ONE, q_msg=Z, reg=Z, unreg=ONE), {"end"}),
        ("CONTROL_CHANGE", True, None, "another event while capacity is left", dict(cur_msg=ONE, q_msg=Z, reg=Z, unreg=Z), {"end"}),
        ("CONTROL_CHANGE", False, None, "another event exactly on the boundary", dict(cur_msg=Z, q_msg=ONE, reg=Z, unreg=Z), {"end"}),
        ("WAIT", True, True, "a wait that fits into the piece", dict(cur_msg=ONE, q_msg=Z, cur_new_wait=Z, q_new_wait=Z, cap_reduced=ONE, reg=Z, unreg=Z), {"end"}),
        ("WAIT", True, False, "a wait longer than the capacity left (> 0)", dict(cur_msg=Z, q_msg=Z, cur_new_wait=ONE, q_new_wait=ONE, cap_reduced=Z), {"break"}),
        ("WAIT", False, False, "a wait arriving when no capacity is left", dict(cur_msg=Z, q_msg=Z, cur_new_wait=Z, q_new_wait=ONE, cap_reduced=Z), {"break"}),
    ]
    words = {"cur_msg": "times the message itself goes into the current piece", "q_msg": "times the message itself goes onto the deferred queue",
             "reg": "registrations of the message as an open note", "unreg": "removals of the key from the open-note table",
             "cur_new_wait": "new WAITs added to the current piece", "q_new_wait": "new WAITs put on the deferred queue",
             "cap_reduced": "reductions of the remaining capacity by the wait's time"}
    n = 0
    for T, cap_left, fits, what, want, want_exits in cases:
        tc = _TC(p, fi, {m}, T, decide=decide_factory(cap_left, fits))
        exits = tc.run_body(body)

        def ev(pred):
            r_ = events_matching(exits, pred, kinds=("end", "continue", "break"))
            return r_ if r_ is not None else (0, 0)
        got = {
            "cur_msg": ev(lambda e: e[0] == "append" and e[1] == cur and e[2] == "msg"),
            "q_msg": ev(lambda e: e[0] == "append" and e[1] == qn and e[2] == "msg"),
            "reg": ev(lambda e: e == ("open-store", "msg")),
            "unreg": ev(lambda e: e == ("open-pop",)),
            "cur_new_wait": ev(lambda e: e[0] == "append" and e[1] == cur and e[2] == "new:WAIT"),
            "q_new_wait": ev(lambda e: e[0] == "append" and e[1] == qn and e[2] == "new:WAIT"),
            "cap_reduced": ev(lambda e: e[0] == "aug" and e[1] == rem and e[2] == "Sub" and e[3] == "msg.time"),
        }
        kinds = {k for k, _ in exits}
        bad = {k: (got[k], v) for k, v in want.items() if got[k] != v}
        n += 1
        ctx.check(not bad and kinds == want_exits, "DEST", f"{FN}: {what}: " + ", ".join(f"{k}={got[k]}" for k in want) + f", round {'ends' if 'break' in kinds else 'goes on'}",
                  function=FN, construct=f"split: {what} is not handled as required ({', '.join(sorted(bad)) or 'round control'})" if (bad or kinds != want_exits) else "ok",
                  message="; ".join(f"{words[k]}: [min,max]={g}, required {w}" for k, (g, w) in bad.items())
                          + (f"; the round {sorted(kinds)} where {sorted(want_exits)} is required" if kinds != want_exits else ""),
                  file=fi.file, node=loop)
    ctx.floor("destination cases of split decided", n, 9)


class _Piece(AbsInt):
    """May the current piece already have been handed to the result when something is added to it?"""

    def __init__(self, cur: str, result: str):
        super().__init__()
        self.cur, self.result = cur, result
        self.bad: list[ast.AST] = []

    def join(self, a, b):
        return a or b

    def stmt(self, s, st):
        for c in ast.walk(s):
            if isinstance(c, ast.Call):
                recv, name = call_method(c)
                if recv is None:
                    continue
                rs = src(recv)
                if rs == self.result and name == "append" and c.args and src(c.args[0]) == self.cur:
                    if st and c not in self.bad:
                        self.bad.append(c)          # handed over twice
                    st = True
                elif (rs == self.cur or rs.startswith(self.cur + ".")) and name in ("add_message", "append", "extend", "insert", "_add_message_unsorted"):
                    if st and c not in self.bad:
                        self.bad.append(c)
        if isinstance(s, ast.Assign) and any(isinstance(t, ast.Name) and t.id == self.cur for t in s.targets):
            st = False
        return st


def _piece(ctx, fi):
    """PIECE: once a piece has been appended to the result nothing more is added to it -- the current piece is rebound to a
    fresh one first (otherwise consecutive pieces run into each other)."""
    qs, result, cur, loop, popped = _roles(fi)
    if cur is None or result is None:
        ctx.undetermined("PIECE", f"{FN}: hand-over of finished pieces", "current piece / result list not recognised: not judged")
        return
    it = _Piece(cur, result)
    it.run_function(fi.node, False)
    ctx.check(not it.bad, "PIECE", f"{FN}: nothing is added to a piece after it was appended to the result", function=FN,
              construct="a piece already handed to the result keeps receiving messages (or is handed over twice)",
              message=f"`{short(it.bad[0], 80) if it.bad else ''}` can run after `{result}.append({cur})` without `{cur}` having been rebound to a fresh piece",
              file=fi.file, node=it.bad[0] if it.bad else fi.node)
    # the fresh piece: created once per capacity, before the round
    fresh = [s for s in ast.walk(fi.node) if isinstance(s, ast.Assign) and isinstance(s.targets[0], ast.Name) and s.targets[0].id == cur
             and isinstance(s.value, ast.Name)]
    for s in fresh:
        src_var = s.value.id
        defs = [d for d in ast.walk(fi.node) if isinstance(d, ast.Assign) and isinstance(d.targets[0], ast.Name) and d.targets[0].id == src_var]
        okf = len(defs) == 1 and isinstance(defs[0].value, ast.Call) and not defs[0].value.args and not defs[0].value.keywords \
            and isinstance(getattr(defs[0], "_parent", None), ast.For)
        ctx.check(okf, "PIECE", f"{FN}: `{short(s)}` continues with a piece created empty for this capacity", function=FN,
                  construct="the next piece is not a fresh empty sequence created per capacity", message=f"{[short(d) for d in defs]}", file=fi.file, node=s)


_ADDERS = ("add_message", "append", "extend", "insert", "_add_message_unsorted")


class _Tail(AbsInt):
    """Inside the end-of-input exit: may the current piece already be the fresh one when something is added to it?"""

    def __init__(self, cur: str, fresh: set):
        super().__init__()
        self.cur, self.fresh = cur, fresh
        self.bad: list[ast.AST] = []

    def join(self, a, b):
        return a or b

    def stmt(self, s, st):
        for c in ast.walk(s):
            if isinstance(c, ast.Call):
                recv, name = call_method(c)
                if recv is None or name not in _ADDERS:
                    continue
                root = src(recv).split(".")[0]
                if (root in self.fresh or (root == self.cur and st)) and c not in self.bad:
                    self.bad.append(c)
        if isinstance(s, ast.Assign) and any(isinstance(t, ast.Name) and t.id == self.cur for t in s.targets):
            st = isinstance(s.value, ast.Name) and s.value.id in self.fresh
        return st


def _tail(ctx, fi):
    """TAIL (a rule of the bar splitter, which asks `did this track leave a remainder?` by counting the pieces): when the input
    runs out inside a capacity the piece that follows stays empty -- nothing is put into the fresh piece on the end-of-input
    exit, and after the rounds the last piece only receives what is left of the work list.  Otherwise a track that ends
    exactly on a bar line comes back with a second, zero-length piece and every track gets one bar too many."""
    qs, result, cur, loop, popped = _roles(fi)
    if cur is None or loop is None or popped is None or result is None:
        ctx.undetermined("TAIL", f"{FN}: end-of-input exit", "roles not recognised: not judged")
        return
    wm = src(call_method(popped.value)[0])
    guards = [s_ for s_ in loop.body if isinstance(s_, ast.If) and s_.lineno < popped.lineno and any(isinstance(x, ast.Break) for x in ast.walk(s_))
              and _nonempty(s_.test, wm) is False]
    fresh = {s_.value.id for s_ in ast.walk(fi.node) if isinstance(s_, ast.Assign) and isinstance(s_.targets[0], ast.Name) and s_.targets[0].id == cur
             and isinstance(s_.value, ast.Name)}
    if len(guards) != 1 or not fresh:
        ctx.undetermined("TAIL", f"{FN}: end-of-input exit", "the `work list empty` exit / the fresh piece was not recognised: not judged")
        return
    it = _Tail(cur, fresh)
    it.block(guards[0].body, False)
    ctx.check(not it.bad, "TAIL", f"{FN}: when the input runs out the piece that follows stays empty", function=FN,
              construct="split puts events into the fresh piece when the input is exhausted",
              message=f"`{short(it.bad[0], 80) if it.bad else ''}` can fill the piece created for the next capacity although no time is left: a track ending "
                      f"exactly on a bar line comes back with a second, zero-length piece, the bar splitter takes it for more music and every track gets one bar too many",
              file=fi.file, node=it.bad[0] if it.bad else guards[0])
    # after the rounds: the last piece only receives the rest of the work list (empty when the input ran out)
    outer = next((a for a in ancestors(loop) if isinstance(a, ast.For)), loop)
    after = [s_ for s_ in fi.node.body if s_.lineno > outer.end_lineno]
    late = []
    for s_ in after:
        for c in ast.walk(s_):
            if isinstance(c, ast.Call):
                recv, name = call_method(c)
                if recv is None or name not in _ADDERS:
                    continue
                root = src(recv).split(".")[0]
                if root == cur or root in fresh:
                    names = {n.id for a in c.args for n in ast.walk(a) if isinstance(n, ast.Name)}
                    if wm.split(".")[0] not in names:
                        late.append(c)
    ctx.check(not late, "TAIL", f"{FN}: after the rounds the last piece only receives the rest of the work list", function=FN,
              construct="split fills the last piece from something other than the rest of the work list",
              message=f"`{short(late[0], 80) if late else ''}`: with the input exhausted the last piece is the fresh one and must stay empty",
              file=fi.file, node=late[0] if late else fi.node)


def _nonempty(t: ast.AST, what: str):
    """True if `t` holds exactly when the list expression `what` is non-empty, False if exactly when it is empty, else None."""
    neg = False
    while isinstance(t, ast.UnaryOp) and isinstance(t.op, ast.Not):
        neg, t = not neg, t.operand
    res = None
    if isinstance(t, ast.Compare) and len(t.ops) == 1 and isinstance(t.left, ast.Call) and isinstance(t.left.func, ast.Name) and t.left.func.id == "len" \
            and t.left.args and src(t.left.args[0]) == what and isinstance(t.comparators[0], ast.Constant):
        c0, op = t.comparators[0].value, type(t.ops[0])
        if (op is ast.Gt and c0 == 0) or (op is ast.GtE and c0 == 1) or (op is ast.NotEq and c0 == 0):
            res = True
        elif (op is ast.Eq and c0 == 0) or (op is ast.Lt and c0 == 1) or (op is ast.LtE and c0 == 0):
            res = False
    elif src(t) == what:
        res = True
    if res is None:
        return None
    return res != neg


def _flow(ctx, fi):
    """FLOW: the plumbing around the per-message dispatch -- events are taken from the front of the work list while it is
    non-empty; deferred events are put back at its front; every non-empty piece is handed to the result before the current
    piece is rebound and once more at the end; what is left of the work list goes into the last piece."""
    from ..astutil import path_conditions
    qs, result, cur, loop, popped = _roles(fi)
    if not qs or cur is None or loop is None or popped is None or result is None:
        ctx.undetermined("FLOW", f"{FN}: work-list plumbing", "roles not recognised: not judged")
        return
    wm = src(call_method(popped.value)[0])
    qn = qs[0]
    # (1) front of the list
    a = popped.value.args
    ctx.check(len(a) == 1 and isinstance(a[0], ast.Constant) and a[0].value == 0, "FLOW", f"{FN}: the next event is taken from the front (`{short(popped.value)}`)",
              function=FN, construct="events are not taken from the front of the work list", message=short(popped), file=fi.file, node=popped)
    # (2) the end-of-input exit precedes the pop and fires iff the list is empty
    guards = [s_ for s_ in loop.body if isinstance(s_, ast.If) and s_.lineno < popped.lineno and any(isinstance(x, ast.Break) for x in ast.walk(s_))]
    okg = len(guards) == 1 and _nonempty(guards[0].test, wm) is False and isinstance(guards[0].body[-1], ast.Break) and not guards[0].orelse
    ctx.check(okg, "FLOW", f"{FN}: the round stops early iff the work list is empty", function=FN,
              construct="end-of-input exit of a round is missing or does not test `work list empty`",
              message=f"{[short(g.test) for g in guards]}: with the test inverted every round ends at once and the whole input lands in the last piece",
              file=fi.file, node=guards[0] if guards else loop)
    # (3) deferred events go back to the front of the work list
    spl = [s_ for s_ in ast.walk(fi.node) if isinstance(s_, ast.Assign) and isinstance(s_.targets[0], ast.Subscript) and isinstance(s_.targets[0].slice, ast.Slice)
           and src(s_.targets[0].value) == wm]
    okq = False
    for s_ in spl:
        sl = s_.targets[0].slice
        z = lambda e: e is None or (isinstance(e, ast.Constant) and e.value == 0)
        okq = okq or (z(sl.lower) and isinstance(sl.upper, ast.Constant) and sl.upper.value == 0 and sl.step is None and src(s_.value) == qn)
    reb = [s_ for s_ in ast.walk(fi.node) if isinstance(s_, ast.Assign) and src(s_.targets[0]) == wm and isinstance(s_.value, ast.BinOp)
           and isinstance(s_.value.op, ast.Add) and src(s_.value.left) == qn and src(s_.value.right) == wm]
    ctx.check(okq or bool(reb), "FLOW", f"{FN}: deferred events are re-inserted at the front of the work list", function=FN,
              construct="deferred events are not put back at the very front of the work list (or replace part of it)",
              message=f"{[short(s_) for s_ in spl + reb]}: `{wm}[0:0] = {qn}` is the only slice that inserts without replacing", file=fi.file,
              node=spl[0] if spl else loop)
    # (4) hand-over sites
    hand = [c for c in ast.walk(fi.node) if isinstance(c, ast.Call) and call_method(c)[1] == "append" and src(call_method(c)[0]) == result
            and c.args and src(c.args[0]) == cur]
    cur_list = None
    for c in hand:
        conds = path_conditions(c)
        inner = conds[0] if conds else None
        lst = None
        if inner is not None:
            t = inner[0]
            while isinstance(t, ast.UnaryOp):
                t = t.operand
            if isinstance(t, ast.Compare) and isinstance(t.left, ast.Call) and t.left.args:
                lst = src(t.left.args[0])
            elif isinstance(t, (ast.Attribute, ast.Name)):
                lst = src(t)
        okh = inner is not None and inner[1] and lst is not None and lst.startswith(cur) and _nonempty(inner[0], lst) is True
        cur_list = cur_list or lst
        ctx.check(okh, "FLOW", f"{FN}: line {c.lineno}: the piece is handed over iff it holds something", function=FN,
                  construct="a finished piece is handed to the result under a test other than `the piece is non-empty`",
                  message=f"{short(inner[0]) if inner else 'unguarded'}: empty pieces would be emitted or filled ones lost", file=fi.file, node=c)
    rebinds = [s_ for s_ in ast.walk(loop) if isinstance(s_, ast.Assign) and isinstance(s_.targets[0], ast.Name) and s_.targets[0].id == cur]
    for rb in rebinds:
        blk = next((getattr(rb._parent, f) for f in ("body", "orelse") if rb in getattr(rb._parent, f, [])), [])
        before = blk[:blk.index(rb)] if rb in blk else []
        covered = any(h in list(ast.walk(s_)) for s_ in before for h in hand)
        ctx.check(covered, "FLOW", f"{FN}: line {rb.lineno}: the old piece is handed over before `{short(rb)}`", function=FN,
                  construct="the current piece is replaced without having been handed to the result",
                  message="the messages collected for this capacity are lost", file=fi.file, node=rb)
    outer_for = next((a_ for a_ in ancestors(loop) if isinstance(a_, ast.For)), None)
    final = [h for h in hand if outer_for is not None and outer_for not in list(ancestors(h))]
    ctx.check(len(final) == 1, "FLOW", f"{FN}: the last piece is handed over after all capacities are used", function=FN,
              construct="the piece still being filled when the capacities run out is not handed to the result",
              message=f"{len(final)} hand-over(s) after the capacity loop", file=fi.file, node=fi.node)
    ctx.floor("hand-over sites of split", len(hand), 3)
    # (5) the unread rest of the input goes into the last piece, before it is handed over
    ext = [c for c in ast.walk(fi.node) if isinstance(c, ast.Call) and call_method(c)[1] in ("extend",) and src(call_method(c)[0]).startswith(cur)
           and outer_for is not None and outer_for not in list(ancestors(c)) and any(isinstance(x, ast.Name) and x.id == wm for x in ast.walk(c))]
    okr = False
    if len(ext) == 1:
        conds = path_conditions(ext[0])
        okr = (not conds or (len(conds) == 1 and conds[0][1] and _nonempty(conds[0][0], wm) is True)) and bool(final) and ext[0].lineno < final[0].lineno
        arg = ext[0].args[0]
        if isinstance(arg, ast.ListComp):
            okr = okr and not arg.generators[0].ifs and src(arg.generators[0].iter) == wm and src(arg.elt) == src(arg.generators[0].target)
        else:
            okr = okr and src(arg) == wm
    ctx.check(okr, "FLOW", f"{FN}: what is left of the input after the last capacity goes into the last piece", function=FN,
              construct="the unread rest of the input is not appended (whole, unfiltered) to the last piece",
              message=f"{[short(c, 80) for c in ext]}", file=fi.file, node=ext[0] if ext else fi.node)
