"""C03 -- stateful bar-by-bar tokenisation is equivalent to tokenising the whole piece (state-dictionary sufficiency)."""
from __future__ import annotations

import ast

from ..astutil import clone, attr_chain, call_method, enum_member, short, src, ancestors
from ..linear import Normaliser, Sym
from ..model import walk_local, AnalysisError
from ..report import Ctx
from ..engines import tokeniser as T
from ..engines.templates import TOK


def _main_check(ctx: Ctx) -> None:
    p = ctx.p
    fe = p.func(f"{TOK}.tokenise")
    fd = p.func(f"{TOK}.detokenise")
    ctx.analysed(fe)
    ctx.analysed(fd)
    ctx.explanation = (
        "State-dictionary sufficiency for MultiTrack...Tokeniser.tokenise: ST1 every local that is initialised before the event "
        "loop, read inside the loop or the `_apply_rest` closure and written there (a variable whose value crosses the call "
        "boundary) is either restored from the state dictionary with `.get(key, default)` and saved back under the same key on "
        "the single normal exit, or recomputed from restored variables by the common capacity formula; the shift added to "
        "bar-relative times reads the carried clock's key; ST2 the defaults equal detokenise's initial clock (time 0, bar time 0, "
        "default signature, full capacity) so an empty state means 'start of piece'; ST3 the state is written after the "
        "end-of-call bar closing (statement order), once, unconditionally; a missing dictionary is replaced by a fresh one. "
        "CLOSE (abstract interpretation over bar time = 0 / > 0 x a note was emitted in the current bar x boolean locals): at the "
        "end-of-call closing test no state with a note in the bar makes the guard false, i.e. a bar whose notes all start at bar "
        "time 0 is still closed. Not decided: equality of the detokenised results over all partitions of the bars (value level).")
    ctx.assumptions += ["callers thread the same dictionary object through consecutive calls", "each call receives whole bars (hypothesis of the property)"]
    params = fe.params
    sd = next((a for a in params if "state" in a), None)
    if sd is None:
        raise AnalysisError("tokenise: state dictionary parameter not found")
    loop = next((n for n in fe.node.body if isinstance(n, ast.For) and "pairing" in src(n.iter)), None)
    closure = next((n for n in fe.node.body if isinstance(n, ast.FunctionDef)), None)
    if loop is None:
        raise AnalysisError("tokenise: event loop not found")

    close_rule(ctx, "CLOSE")
    # restored variables
    restored: dict[str, tuple[str, ast.expr, ast.stmt]] = {}
    derived: dict[str, ast.stmt] = {}
    pre_assign: dict[str, ast.stmt] = {}
    def get_call(e):
        """`sd.get("key", default)` -> (key, default) else None"""
        if isinstance(e, ast.Call) and call_method(e)[1] == "get" and isinstance(call_method(e)[0], ast.Name) and call_method(e)[0].id == sd \
                and e.args and isinstance(e.args[0], ast.Constant):
            return e.args[0].value, (e.args[1] if len(e.args) > 1 else None)
        return None

    for s in fe.node.body:
        if s is loop:
            break
        if isinstance(s, ast.Assign) and len(s.targets) == 1 and isinstance(s.targets[0], ast.Name):
            v = s.targets[0].id
            pre_assign[v] = s
            g = get_call(s.value)
            if g is not None:
                restored[v] = (g[0], g[1], s)
            elif isinstance(s.value, ast.Name) and s.value.id in restored and pre_assign.get(s.value.id) is restored[s.value.id][2]:
                # a copy of a restored variable taken before anything ran: the same value read from the same key
                restored[v] = (restored[s.value.id][0], restored[s.value.id][1], s)
            else:
                derived[v] = s
        elif isinstance(s, ast.Assign) and len(s.targets) == 1 and isinstance(s.targets[0], ast.Tuple) and all(isinstance(x, ast.Name) for x in s.targets[0].elts):
            names = [x.id for x in s.targets[0].elts]
            pairs = None
            if isinstance(s.value, ast.Tuple) and len(s.value.elts) == len(names) and all(get_call(x) is not None for x in s.value.elts):
                pairs = [get_call(x) for x in s.value.elts]
            elif isinstance(s.value, (ast.GeneratorExp, ast.ListComp)) and len(s.value.generators) == 1 and not s.value.generators[0].ifs \
                    and isinstance(s.value.generators[0].iter, (ast.Tuple, ast.List)) and all(isinstance(x, ast.Constant) for x in s.value.generators[0].iter.elts) \
                    and isinstance(s.value.generators[0].target, ast.Name) and isinstance(s.value.elt, ast.Call) and call_method(s.value.elt)[1] == "get" \
                    and isinstance(call_method(s.value.elt)[0], ast.Name) and call_method(s.value.elt)[0].id == sd and s.value.elt.args \
                    and isinstance(s.value.elt.args[0], ast.Name) and s.value.elt.args[0].id == s.value.generators[0].target.id:
                keys = [x.value for x in s.value.generators[0].iter.elts]
                dflt = s.value.elt.args[1] if len(s.value.elt.args) > 1 else None
                if len(keys) == len(names):
                    pairs = [(k, dflt) for k in keys]
            for i, v in enumerate(names):
                pre_assign[v] = s
                if pairs is not None:
                    restored[v] = (pairs[i][0], pairs[i][1], s)
                else:
                    derived[v] = s
    saved: dict[str, tuple[ast.expr, ast.stmt]] = {}
    for s in fe.node.body:
        if isinstance(s, ast.Assign) and len(s.targets) == 1 and isinstance(s.targets[0], ast.Subscript) and isinstance(s.targets[0].value, ast.Name) \
                and s.targets[0].value.id == sd and isinstance(s.targets[0].slice, ast.Constant):
            saved[s.targets[0].slice.value] = (s.value, s)
        elif isinstance(s, ast.Expr) and isinstance(s.value, ast.Call) and call_method(s.value)[1] == "update" and isinstance(call_method(s.value)[0], ast.Name) \
                and call_method(s.value)[0].id == sd:
            for kw in s.value.keywords:
                if kw.arg is not None:
                    saved[kw.arg] = (kw.value, s)
            for a in s.value.args:
                if isinstance(a, ast.Dict):
                    for k, v in zip(a.keys, a.values):
                        if isinstance(k, ast.Constant):
                            saved[k.value] = (v, s)
    ctx.floor("state keys restored", len(restored), 8)
    ctx.floor("state keys saved", len(saved), 8)

    # variables crossing the call boundary
    region = [loop] + ([closure] if closure is not None else [])
    tail = [s for s in fe.node.body if s.lineno > loop.end_lineno]
    written, read = set(), set()
    for r in region + tail:
        for n in ast.walk(r):
            if isinstance(n, ast.Name):
                if isinstance(n.ctx, ast.Store):
                    written.add(n.id)
                elif isinstance(n.ctx, ast.Load):
                    read.add(n.id)
    nonlocals = {x for n in ast.walk(fe.node) if isinstance(n, ast.Nonlocal) for x in n.names}
    if closure is not None:
        closure_locals = {a.arg for a in closure.args.args} | {n.id for n in ast.walk(closure) if isinstance(n, ast.Name) and isinstance(n.ctx, ast.Store)} - nonlocals
    else:
        closure_locals = set()
    result = next((n.value.id for n in walk_local(fe.node) if isinstance(n, ast.Return) and isinstance(n.value, ast.Name)), None)
    carried = sorted(v for v in pre_assign if v in written and v in read and v != result and v not in (closure_locals - set(pre_assign)))
    ctx.floor("call-crossing variables", len(carried), 7)
    nz = Normaliser(atom_hook=T.field_hook({}))
    for v in carried:
        inst = f"tokenise: call-crossing variable `{v}`"
        if v in restored:
            key, default, st = restored[v]
            sv = saved.get(key)
            ok = sv is not None and isinstance(sv[0], ast.Name) and sv[0].id == v
            ctx.check(ok, "ST1", inst + f" restored from and saved to key {key!r}", function=fe.qualname,
                      construct=f"carried variable `{v}` is not saved back under the key it is restored from",
                      message=f"restored from {key!r}; saved entries with that key: `{short(sv[0]) if sv else None}` -- the next call would resume "
                              f"with a stale or default value", file=fe.file, node=st)
        elif v in derived and isinstance(derived[v].value, ast.Constant) and not any(isinstance(sv[0], ast.Name) and sv[0].id == v for sv in saved.values()):
            # initialised from a constant on every call and never written to the state: it cannot carry anything across calls
            ctx.ok("ST1", inst + " is a per-call temporary (constant initial value, never saved)")
        elif v in derived:
            names = {n.id for n in ast.walk(derived[v].value) if isinstance(n, ast.Name)}
            deps = names & set(pre_assign)
            okd = bool(deps) and all(d in restored or d in derived for d in deps) and not (names & {sd})
            canon = T.rename_sig(nz.norm(derived[v].value).canon())
            ctx.check(okd and ("capacity" not in v or canon == "4*D^-1*N*self.ppqn"), "ST1", inst + f" recomputed from restored variables ({canon})",
                      function=fe.qualname, construct=f"carried variable `{v}` is neither restored nor recomputed from restored state",
                      message=f"`{short(derived[v])}`", file=fe.file, node=derived[v])
        else:
            ctx.violation("ST1", inst, function=fe.qualname, construct=f"carried variable `{v}` has no state entry", message="", file=fe.file, node=fe.node)
        ctx.sample({"variable": v, "restored_from": restored.get(v, (None,))[0], "derived": v in derived})
    # every saved key is restored (no dead / misspelt keys) and vice versa
    rkeys = {k for k, _, _ in restored.values()}
    ctx.check(set(saved) == rkeys, "ST1", f"saved keys = restored keys ({sorted(saved)})", function=fe.qualname,
              construct="the sets of saved and restored state keys differ",
              message=f"saved only: {sorted(set(saved) - rkeys)}; restored only: {sorted(rkeys - set(saved))}", file=fe.file, node=fe.node)
    # shift
    shift = [v for v, (k, d, s) in restored.items() if v not in written and any(isinstance(n, ast.Name) and n.id == v for n in ast.walk(loop))]
    # the carried clock: the restored variable that the rest bookkeeping advances (state key "cur_time" by the API's naming)
    clock_key = "cur_time" if any(k == "cur_time" for k, _, _ in restored.values()) else None
    ctx.check(len(shift) == 1 and restored[shift[0]][0] == clock_key and clock_key is not None, "ST1",
              f"the shift of bar-relative times reads the carried clock's key ({shift})", function=fe.qualname,
              construct="the shift applied to event times is not the carried clock", message=f"{[(v, restored[v][0]) for v in shift]}", file=fe.file,
              node=restored[shift[0]][2] if shift else fe.node)
    if shift:
        use = [n for n in ast.walk(loop) if isinstance(n, ast.BinOp) and isinstance(n.op, ast.Add) and shift[0] in src(n) and ".time" in src(n)]
        ctx.check(bool(use), "ST1", "event times are shifted by adding the carried clock", function=fe.qualname, construct="shift not added to event times",
                  message="", file=fe.file, node=loop)

    # ---- SNAP: apart from the time origin (the shift), nothing the event loop does depends on a *snapshot* of the running state
    # taken when the call started -- a local computed before the loop from the state dictionary (or from restored variables)
    # and never updated in the loop.  Such a value differs with the place where the piece was cut into calls, so a decision
    # taken from it makes bar-by-bar tokenisation differ from the whole piece.
    state_derived = set(restored)
    order = [s_ for s_ in fe.node.body if s_.lineno < loop.lineno]
    changed = True
    while changed:
        changed = False
        for s_ in order:
            if isinstance(s_, ast.Assign):
                names = {n.id for t in s_.targets for n in ast.walk(t) if isinstance(n, ast.Name)}
                reads = {n.id for n in ast.walk(s_.value) if isinstance(n, ast.Name)}
                if (reads & (state_derived | {sd})) and not names <= state_derived:
                    state_derived |= names
                    changed = True
    snaps = sorted(v for v in state_derived if v not in written and v not in shift and v != sd)
    n_snap_reads = 0
    for v in snaps:
        uses = []
        for r in region:
            for n in ast.walk(r):
                if isinstance(n, ast.Name) and n.id == v and isinstance(n.ctx, ast.Load):
                    if any(isinstance(a, ast.Call) and "LOGGER" in src(a.func).upper() for a in ancestors(n)):
                        continue
                    uses.append(n)
        n_snap_reads += len(uses)
        ctx.check(not uses, "SNAP", f"tokenise: `{v}` (the running state as it was when the call started) is not read by the event loop", function=fe.qualname,
                  construct="the event loop reads a call-start snapshot of the running state",
                  message=f"`{v}` is computed before the loop from the carried state and never updated, yet read at line(s) {sorted({u.lineno for u in uses})[:4]}: "
                          f"what the loop does then depends on where the piece was cut into calls", file=fe.file, node=uses[0] if uses else fe.node)
    ctx.ok("SNAP", f"tokenise: call-start snapshots of the running state: {snaps or 'none'}; only the time origin `{shift[0] if shift else '?'}` is read in the loop")

    # ---- ST2 defaults vs detokenise's initial clock
    dinit = {}
    for s in fd.node.body:
        if isinstance(s, ast.For):
            break
        if isinstance(s, ast.Assign) and isinstance(s.targets[0], ast.Name):
            dinit[s.targets[0].id] = s.value
    by_key = {k: (var, d, st_) for var, (k, d, st_) in restored.items()}
    ren = {var: k for k, (var, _, _) in by_key.items()}      # local name -> state key (the keys are named after detokenise's variables)
    for dv, dvar in list(pre_assign.items()):
        pass
    for v in ("cur_time", "cur_time_bar", "cur_time_signature_numerator", "cur_time_signature_denominator", "cur_bar_capacity_remaining"):
        if v not in by_key:
            ctx.violation("ST2", f"state key `{v}` restored with a default", function=fe.qualname, construct=f"`{v}` is not restored from the state dictionary", message="",
                          file=fe.file, node=fe.node)
            continue
        d = by_key[v][1]
        dd = dinit.get(v)
        if dd is None:
            ctx.undetermined("ST2", f"default of `{v}`", "detokenise has no variable of that name: not judged")
            continue

        def neutral(e):
            # names of tokenise's locals replaced by the state keys they carry; capacity formula by its normal form
            class R(ast.NodeTransformer):
                def visit_Name(self, n):
                    return ast.copy_location(ast.Name(id=ren.get(n.id, n.id), ctx=n.ctx), n)
            import copy as _c
            return src(R().visit(clone(e)))
        dtxt = neutral(d) if d is not None else None
        if d is not None and isinstance(d, ast.Name) and d.id in derived:
            dtxt = T.neutral_capacity(derived[d.id].value, fe.node, nz)
            ddtxt = T.neutral_capacity(dinit[dd.id], fd.node) if isinstance(dd, ast.Name) and dd.id in dinit else src(dd)
        else:
            ddtxt = src(dd)
        ok = d is not None and dtxt == ddtxt
        ctx.check(ok, "ST2", f"default of `{v}` = detokenise's initial value ({short(d)})", function=fe.qualname,
                  construct=f"default of `{v}` differs from detokenise's initial clock",
                  message=f"tokenise starts `{v}` at `{short(d)}`, detokenise at `{short(dd)}`", file=fe.file, node=by_key[v][2])

    # ---- ST3 ordering and unconditionality
    first_save = min((s.lineno for _, s in saved.values()), default=0)
    closing = [s for s in tail if isinstance(s, ast.If) and any(isinstance(c, ast.Call) and isinstance(c.func, ast.Name) and closure is not None and
                                                                c.func.id == closure.name for c in ast.walk(s))]
    ctx.check(bool(closing) and all(s.lineno < first_save for s in closing), "ST3", "the last bar is closed before the state is written", function=fe.qualname,
              construct="state written before the end-of-call bar closing", message="the saved clock would miss the closing rests", file=fe.file, node=fe.node)
    ctx.check(all(s in fe.node.body for _, s in saved.values()), "ST3", "state writes are unconditional top-level statements", function=fe.qualname,
              construct="a state write is conditional", message="", file=fe.file, node=fe.node)
    ctx.check(all(s.lineno > loop.end_lineno for _, s in saved.values()), "ST3", "state written after the event loop", function=fe.qualname,
              construct="state written before the events are processed", message="", file=fe.file, node=fe.node)
    fresh = [s for s in fe.node.body if isinstance(s, ast.If) and isinstance(s.test, ast.Compare) and src(s.test) == f"{sd} is None"]
    ctx.check(len(fresh) == 1 and any(isinstance(x, ast.Assign) and src(x.targets[0]) == sd for x in fresh[0].body), "ST3",
              "a missing state dictionary is replaced by a fresh one", function=fe.qualname, construct="None state not replaced by a fresh dictionary",
              message="", file=fe.file, node=fe.node)
    dflt = next((d for a, d in zip(reversed(fe.node.args.args), reversed(fe.node.args.defaults)) if a.arg == sd), None)
    ctx.check(isinstance(dflt, ast.Constant) and dflt.value is None, "ST3", "the state parameter defaults to None (no shared mutable default)", function=fe.qualname,
              construct="state dictionary parameter has a mutable default", message="calls without state would share one dictionary", file=fe.file, node=fe.node)


# ------------------------------------------------------------------------------------------------ CLOSE
from ..absint import AbsInt, _Frame          # noqa: E402


class _CloseInterp(AbsInt):
    """Worlds (bar_time in {Z,P}, note_in_bar, boolean locals) over tokenise: does the end-of-call closing fire for a bar
    that received a note although nothing advanced the bar time (all its notes start at bar time 0)?"""

    def __init__(self, fn, bar_time: str, result: str, closure, remaining: str | None = None, total: str | None = None):
        super().__init__()
        self.fn = fn
        self.rem = remaining
        self.total = total
        self.bt = bar_time
        self.res = result
        self.closure = closure
        self.closing_states: dict[int, set] = {}
        self.depth = 0
        # variables that hold a note token: built (assigned or extended) from a piece that carries the PITCH prefix
        self.note_vars = {t.id for n in ast.walk(fn) if isinstance(n, (ast.Assign, ast.AugAssign))
                          for t in (n.targets if isinstance(n, ast.Assign) else [n.target])
                          if isinstance(t, ast.Name) and "PITCH" in src(n.value)}
        # ... or a local list of parts that receives such a piece (`parts.append(f"{PITCH}...")`, joined when the token is emitted)
        self.note_vars |= {call_method(c)[0].id for c in ast.walk(fn) if isinstance(c, ast.Call) and call_method(c)[1] == "append"
                           and isinstance(call_method(c)[0], ast.Name) and c.args and "PITCH" in src(c.args[0]) and call_method(c)[0].id != result}

    def join(self, a, b):
        return a | b

    def copy(self, s):
        return s

    def _bools(self, w):
        return dict(w[2])

    def _set(self, w, bt=None, note=None, **bools):
        b = self._bools(w)
        b.update(bools)
        return (bt if bt is not None else w[0], note if note is not None else w[1], tuple(sorted(b.items())))

    def stmt(self, s, st):
        out = set()
        for w in st:
            ws = [w]
            if isinstance(s, ast.Assign) and len(s.targets) == 1 and isinstance(s.targets[0], ast.Name):
                n = s.targets[0].id
                if n == self.rem:
                    ws = [self._set(w, **{"$rem0": False})]      # refilled from the (positive) total capacity
                elif n == self.bt:
                    if isinstance(s.value, ast.Constant) and s.value.value == 0:
                        ws = [self._set(w, bt="Z", note=False)]
                    else:
                        ws = [self._set(w, bt="Z"), self._set(w, bt="P")]
                elif isinstance(s.value, ast.Constant) and isinstance(s.value.value, bool):
                    ws = [self._set(w, **{n: s.value.value})]
                elif n in self._bools(w):
                    ws = [self._set(w, **{n: True}), self._set(w, **{n: False})]
            elif isinstance(s, ast.AugAssign) and isinstance(s.target, ast.Name) and s.target.id == self.bt:
                ws = [self._set(w, bt="P")]
            elif isinstance(s, ast.AugAssign) and isinstance(s.target, ast.Name) and s.target.id == self.rem and isinstance(s.op, ast.Sub):
                # the remaining capacity is counted down by a rest that fits: it stays >= 0 (ghost boolean `$rem0` = it is 0)
                ws = [self._set(w, **{"$rem0": True}), self._set(w, **{"$rem0": False})]
            elif isinstance(s, ast.Expr) and isinstance(s.value, ast.Call):
                c = s.value
                recv, name = call_method(c)
                if recv is None and self.closure is not None and name == self.closure.name and self.depth == 0:
                    self.depth += 1
                    fr = _Frame()
                    self._frames.append(fr)
                    end = self.block(self.closure.body, frozenset([w]))
                    self._frames.pop()
                    self.depth -= 1
                    res = set(end or ())
                    for _, x in fr.returns:
                        res |= set(x)
                    ws = list(res)
                elif isinstance(recv, ast.Name) and recv.id == self.res and name == "append" and c.args:
                    txt = src(c.args[0])
                    if "PITCH" in txt or any(isinstance(x, ast.Name) and x.id in self.note_vars for x in ast.walk(c.args[0])):
                        ws = [self._set(w, note=True)]
            out.update(ws)
        return frozenset(out) or None

    def truth(self, test, w):
        if isinstance(test, ast.BoolOp):
            vals = [self.truth(v, w) for v in test.values]
            if isinstance(test.op, ast.And):
                return False if any(v is False for v in vals) else (True if all(v is True for v in vals) else None)
            return True if any(v is True for v in vals) else (False if all(v is False for v in vals) else None)
        if isinstance(test, ast.UnaryOp) and isinstance(test.op, ast.Not):
            v = self.truth(test.operand, w)
            return None if v is None else not v
        if isinstance(test, ast.Compare) and len(test.ops) > 1:
            # a chained comparison is the conjunction of its links
            operands = [test.left] + list(test.comparators)
            vals = [self.truth(ast.Compare(left=operands[i], ops=[test.ops[i]], comparators=[operands[i + 1]]), w) for i in range(len(test.ops))]
            return False if any(v is False for v in vals) else (True if all(v is True for v in vals) else None)
        if isinstance(test, ast.Compare) and len(test.ops) == 1 and self.total is not None and self.rem is not None \
                and {getattr(test.left, "id", None), getattr(test.comparators[0], "id", None)} == {self.rem, self.total}:
            # remaining vs total capacity: the remaining capacity is counted down exactly when the bar time is counted up, so
            # remaining == total  <=>  bar time == 0 (and remaining <= total always)
            z = w[0] == "Z"
            op = type(test.ops[0])
            if test.left.id == self.total:
                op = {ast.Lt: ast.Gt, ast.Gt: ast.Lt, ast.LtE: ast.GtE, ast.GtE: ast.LtE}.get(op, op)
            return {ast.Lt: not z, ast.Eq: z, ast.NotEq: not z, ast.LtE: True, ast.GtE: z, ast.Gt: False}.get(op)
        if isinstance(test, ast.Compare) and len(test.ops) == 1 and isinstance(test.left, ast.Constant) and test.left.value == 0 \
                and isinstance(test.comparators[0], ast.Name) and test.comparators[0].id in (self.bt, self.rem):
            flipped = {ast.Lt: ast.Gt, ast.Gt: ast.Lt, ast.LtE: ast.GtE, ast.GtE: ast.LtE}.get(type(test.ops[0]), type(test.ops[0]))
            return self.truth(ast.Compare(left=test.comparators[0], ops=[flipped()], comparators=[test.left]), w)
        if isinstance(test, ast.Compare) and len(test.ops) == 1 and isinstance(test.left, ast.Name) and test.left.id == self.bt \
                and isinstance(test.comparators[0], ast.Constant) and test.comparators[0].value == 0:
            z = w[0] == "Z"
            return {ast.Gt: not z, ast.Eq: z, ast.NotEq: not z, ast.GtE: True, ast.LtE: z}.get(type(test.ops[0]))
        if isinstance(test, ast.Name) and test.id in self._bools(w):
            return self._bools(w)[test.id]
        if isinstance(test, ast.Compare) and len(test.ops) == 1 and isinstance(test.left, ast.Name) and test.left.id == self.rem \
                and isinstance(test.comparators[0], ast.Constant) and test.comparators[0].value == 0 and "$rem0" in self._bools(w):
            z = self._bools(w)["$rem0"]
            return {ast.Gt: not z, ast.Eq: z, ast.NotEq: not z, ast.GtE: True, ast.LtE: z}.get(type(test.ops[0]))
        return None

    def cond(self, test, st):
        par = getattr(test, "_parent", None)
        if isinstance(par, ast.If) and par in self.fn.body and self.closure is not None and \
                any(isinstance(c, ast.Call) and isinstance(c.func, ast.Name) and c.func.id == self.closure.name for c in ast.walk(par)):
            self.closing_states.setdefault(id(par), set()).update((w, self.truth(test, w)) for w in st)
            self.closing_node = par
        t, f = set(), set()
        for w in st:
            v = self.truth(test, w)
            if v in (True, None):
                t.add(w)
            if v in (False, None):
                f.add(w)
        return (frozenset(t) or None), (frozenset(f) or None)


def close_rule(ctx: Ctx, rule: str = "CLOSE") -> None:
    p = ctx.p
    fe = p.func(f"{TOK}.tokenise")
    closure = next((n for n in fe.node.body if isinstance(n, ast.FunctionDef)), None)
    from .c01 import emission_sites, fields_of, block_of, stmt_of
    sites = emission_sites(fe.node)
    rest_sites, bar_sites = sites.get("REST", []), sites.get("BAR", [])
    if not rest_sites or not bar_sites or closure is None:
        ctx.undetermined(rule, "tokenise: end-of-call bar closing", "REST/BAR emission sites or the rest closure not found: not judged")
        return
    c0, js0 = rest_sites[0]
    flds0 = fields_of(js0)
    rest_env = T.branch_effect([s_ for s_ in block_of(stmt_of(c0)) if isinstance(s_, (ast.Assign, ast.AugAssign))], p.settings)
    bar_if = None
    for a in ancestors(bar_sites[0][0]):
        if isinstance(a, ast.If) and isinstance(a.test, ast.Compare) and isinstance(a.test.comparators[0], ast.Constant) and a.test.comparators[0].value == 0 \
                and isinstance(a.test.left, ast.Name):
            bar_if = a
    bar_env = T.branch_effect([s_ for s_ in bar_if.body if isinstance(s_, (ast.Assign, ast.AugAssign))], p.settings) if bar_if is not None else {}
    roles = T.roles_from_effects(rest_env, bar_env, Sym.atom(flds0[0].id)) if flds0 and isinstance(flds0[0], ast.Name) else None
    if roles is None:
        ctx.undetermined(rule, "tokenise: end-of-call bar closing", "clock variables not identified: not judged")
        return
    it = _CloseInterp(fe.node, roles["cur_time_bar"], T.result_list_name(fe.node), closure, remaining=roles["cur_bar_capacity_remaining"],
                      total=roles.get("cur_bar_capacity_total"))
    bools = {"$rem0": False}
    for s in fe.node.body:
        if isinstance(s, ast.Assign) and isinstance(s.targets[0], ast.Name) and isinstance(s.value, ast.Constant) and isinstance(s.value.value, bool):
            bools[s.targets[0].id] = s.value.value
    entry = frozenset([("Z", False, tuple(sorted(bools.items()))), ("P", False, tuple(sorted(bools.items())))])
    it.closing_node = None
    end, rets, _ = it.run_function(fe.node, entry)
    exit_worlds = set(end or ())
    for _, stt in rets:
        exit_worlds |= set(stt)
    ctx.extra["c03_exit_bools"] = {n: sorted({dict(w[2]).get(n) for w in exit_worlds}, key=str) for n in bools if not n.startswith("$")}
    ctx.extra["c03_init_bools"] = {n: v for n, v in bools.items() if not n.startswith("$")}
    if it.closing_node is None:
        ctx.violation(rule, "tokenise: end-of-call bar closing", function=fe.qualname, construct="no end-of-call bar closing found",
                      message="a call that ends inside a bar must close it with rests", file=fe.file, node=fe.node)
        return
    states = it.closing_states.get(id(it.closing_node), set())
    bad = sorted({(w[0], w[1]) for w, v in states if w[1] and v is False})
    some_true = any(v in (True, None) for w, v in states)
    unsure = sorted({(w[0], w[1]) for w, v in states if w[1] and v is None})
    if unsure and not bad:
        ctx.undetermined(rule, "tokenise: a bar that received a note is closed at the end of the call",
                         f"closing guard `{short(it.closing_node.test, 80)}` contains a condition the state model does not decide in {unsure}: not judged")
    ctx.check(not bad and some_true, rule, f"tokenise: a bar that received a note is closed at the end of the call ({len(states)} abstract states at the closing test)",
              function=fe.qualname, construct="end-of-call bar closing does not fire for a bar whose notes all start at bar time 0",
              message=f"closing guard `{short(it.closing_node.test, 90)}` is false in the state (bar time = 0, a note was emitted in the bar): the clock is "
                      f"not advanced to the end of that bar, so the next call's events are placed one bar early (and a piece ending with such a bar is "
                      f"not padded to the bar line)", file=fe.file, node=it.closing_node)
    # converse: a bar that is still untouched (bar time 0, nothing emitted in it) must not be "closed" -- that would append a
    # whole bar of rests and shift everything the following calls emit by one bar
    spurious = sorted({(w[0], w[1], tuple(k for k, v_ in w[2] if v_ is True and not k.startswith("$"))) for w, v in states
                       if w[0] == "Z" and not w[1] and v is not False})
    ctx.check(not spurious, rule, "tokenise: an untouched bar (bar time 0, no note emitted in it) is not closed at the end of the call",
              function=fe.qualname, construct="end-of-call bar closing fires for a bar that holds nothing",
              message=f"closing guard `{short(it.closing_node.test, 90)}` can hold in the state (bar time = 0, no note emitted in the current bar) with "
                      f"{[list(x[2]) for x in spurious]} still set: an extra bar of rests is appended and every later call is decoded one bar late",
              file=fe.file, node=it.closing_node)


def check(ctx: Ctx) -> None:
    _main_check(ctx)
    # every call reads its events (they carry the bar's signature): the merge of the inputs and the pairing are unconditional
    from .c01 import input_rule
    input_rule(ctx, ctx.p.func(f"{T.TOK}.tokenise") if hasattr(T, "TOK") else ctx.p.func("MultiTrackLargeVocabularyNotelikeTokeniser.tokenise"))
    from ..engines.structure import concat_rule      # the bars of a chunk are re-joined through these three functions
    ctx.floor("concatenation levels decided", concat_rule(ctx), 3)
    from .common import view_deps
    view_deps(ctx)
