"""C03 -- stateful bar-by-bar tokenisation is equivalent to tokenising the whole piece (state-dictionary sufficiency)."""
from __future__ import annotations

import ast

from ..astutil import attr_chain, call_method, enum_member, short, src, ancestors
from ..linear import Normaliser, Sym
from ..model import walk_local, AnalysisError
from ..report import Ctx
from ..engines import tokeniser as T
from ..engines.templates import TOK


def check(ctx: Ctx) -> None:
    p = ctx.p
    fe = p.func(f"{TOK}.tokenise")
    fd = p.func(f"{TOK}.detokenise")
    ctx.analysed(fe)
    ctx.analysed(fd)
    ctx.explanation = (
        "State-dictionary sufficiency for MultiTrack...Tokeniser.tokenise: ST1 every local that is initialised before the event "
        "loop, read inside the loop or the `_apply_rest` closure and written there (a variable whose value crosses the call "
        "boundary) is either restored from the state dictionary with `.get(key, default)` and saved back under the same key on "
        "the single normal exit, or recomputed from restored variables by the common capacity formula; the shift added to "
        "bar-relative times reads the carried clock's key; ST2 the defaults equal detokenise's initial clock (time 0, bar time 0, "
        "default signature, full capacity) so an empty state means 'start of piece'; ST3 the state is written after the "
        "end-of-call bar closing (statement order), once, unconditionally; a missing dictionary is replaced by a fresh one. "
        "Not decided: equality of the detokenised results over all partitions of the bars (value level).")
    ctx.assumptions += ["callers thread the same dictionary object through consecutive calls", "each call receives whole bars (hypothesis of the property)"]
    params = fe.params
    sd = next((a for a in params if "state" in a), None)
    if sd is None:
        raise AnalysisError("tokenise: state dictionary parameter not found")
    loop = next((n for n in fe.node.body if isinstance(n, ast.For) and "pairing" in src(n.iter)), None)
    closure = next((n for n in fe.node.body if isinstance(n, ast.FunctionDef)), None)
    if loop is None:
        raise AnalysisError("tokenise: event loop not found")

    # restored variables
    restored: dict[str, tuple[str, ast.expr, ast.stmt]] = {}
    derived: dict[str, ast.stmt] = {}
    pre_assign: dict[str, ast.stmt] = {}
    for s in fe.node.body:
        if s is loop:
            break
        if isinstance(s, ast.Assign) and len(s.targets) == 1 and isinstance(s.targets[0], ast.Name):
            v = s.targets[0].id
            pre_assign[v] = s
            if isinstance(s.value, ast.Call) and call_method(s.value)[1] == "get" and isinstance(call_method(s.value)[0], ast.Name) \
                    and call_method(s.value)[0].id == sd and s.value.args and isinstance(s.value.args[0], ast.Constant):
                restored[v] = (s.value.args[0].value, s.value.args[1] if len(s.value.args) > 1 else None, s)
            else:
                derived[v] = s
    saved: dict[str, tuple[ast.expr, ast.stmt]] = {}
    for s in fe.node.body:
        if isinstance(s, ast.Assign) and len(s.targets) == 1 and isinstance(s.targets[0], ast.Subscript) and isinstance(s.targets[0].value, ast.Name) \
                and s.targets[0].value.id == sd and isinstance(s.targets[0].slice, ast.Constant):
            saved[s.targets[0].slice.value] = (s.value, s)
    ctx.floor("state keys restored", len(restored), 8)
    ctx.floor("state keys saved", len(saved), 8)

    # variables crossing the call boundary
    region = [loop] + ([closure] if closure is not None else [])
    tail = [s for s in fe.node.body if s.lineno > loop.end_lineno]
    written, read = set(), set()
    for r in region + tail:
        for n in ast.walk(r):
            if isinstance(n, ast.Name):
                if isinstance(n.ctx, ast.Store):
                    written.add(n.id)
                elif isinstance(n.ctx, ast.Load):
                    read.add(n.id)
    nonlocals = {x for n in ast.walk(fe.node) if isinstance(n, ast.Nonlocal) for x in n.names}
    if closure is not None:
        closure_locals = {a.arg for a in closure.args.args} | {n.id for n in ast.walk(closure) if isinstance(n, ast.Name) and isinstance(n.ctx, ast.Store)} - nonlocals
    else:
        closure_locals = set()
    result = next((n.value.id for n in walk_local(fe.node) if isinstance(n, ast.Return) and isinstance(n.value, ast.Name)), None)
    carried = sorted(v for v in pre_assign if v in written and v in read and v != result and v not in (closure_locals - set(pre_assign)))
    ctx.floor("call-crossing variables", len(carried), 7)
    nz = Normaliser(atom_hook=T.field_hook({}))
    for v in carried:
        inst = f"tokenise: call-crossing variable `{v}`"
        if v in restored:
            key, default, st = restored[v]
            sv = saved.get(key)
            ok = sv is not None and isinstance(sv[0], ast.Name) and sv[0].id == v
            ctx.check(ok, "ST1", inst + f" restored from and saved to key {key!r}", function=fe.qualname,
                      construct=f"carried variable `{v}` is not saved back under the key it is restored from",
                      message=f"restored from {key!r}; saved entries with that key: `{short(sv[0]) if sv else None}` -- the next call would resume "
                              f"with a stale or default value", file=fe.file, node=st)
        elif v in derived:
            names = {n.id for n in ast.walk(derived[v].value) if isinstance(n, ast.Name)}
            deps = names & set(pre_assign)
            okd = bool(deps) and all(d in restored or d in derived for d in deps) and not (names & {sd})
            canon = T.rename_sig(nz.norm(derived[v].value).canon())
            ctx.check(okd and ("capacity" not in v or canon == "4*D^-1*N*self.ppqn"), "ST1", inst + f" recomputed from restored variables ({canon})",
                      function=fe.qualname, construct=f"carried variable `{v}` is neither restored nor recomputed from restored state",
                      message=f"`{short(derived[v])}`", file=fe.file, node=derived[v])
        else:
            ctx.violation("ST1", inst, function=fe.qualname, construct=f"carried variable `{v}` has no state entry", message="", file=fe.file, node=fe.node)
        ctx.sample({"variable": v, "restored_from": restored.get(v, (None,))[0], "derived": v in derived})
    # every saved key is restored (no dead / misspelt keys) and vice versa
    rkeys = {k for k, _, _ in restored.values()}
    ctx.check(set(saved) == rkeys, "ST1", f"saved keys = restored keys ({sorted(saved)})", function=fe.qualname,
              construct="the sets of saved and restored state keys differ",
              message=f"saved only: {sorted(set(saved) - rkeys)}; restored only: {sorted(rkeys - set(saved))}", file=fe.file, node=fe.node)
    # shift
    shift = [v for v, (k, d, s) in restored.items() if v not in written and any(isinstance(n, ast.Name) and n.id == v for n in ast.walk(loop))]
    # the carried clock: the restored variable that the rest bookkeeping advances (state key "cur_time" by the API's naming)
    clock_key = "cur_time" if any(k == "cur_time" for k, _, _ in restored.values()) else None
    ctx.check(len(shift) == 1 and restored[shift[0]][0] == clock_key and clock_key is not None, "ST1",
              f"the shift of bar-relative times reads the carried clock's key ({shift})", function=fe.qualname,
              construct="the shift applied to event times is not the carried clock", message=f"{[(v, restored[v][0]) for v in shift]}", file=fe.file,
              node=restored[shift[0]][2] if shift else fe.node)
    if shift:
        use = [n for n in ast.walk(loop) if isinstance(n, ast.BinOp) and isinstance(n.op, ast.Add) and shift[0] in src(n) and ".time" in src(n)]
        ctx.check(bool(use), "ST1", "event times are shifted by adding the carried clock", function=fe.qualname, construct="shift not added to event times",
                  message="", file=fe.file, node=loop)

    # ---- ST2 defaults vs detokenise's initial clock
    dinit = {}
    for s in fd.node.body:
        if isinstance(s, ast.For):
            break
        if isinstance(s, ast.Assign) and isinstance(s.targets[0], ast.Name):
            dinit[s.targets[0].id] = s.value
    by_key = {k: (var, d, st_) for var, (k, d, st_) in restored.items()}
    ren = {var: k for k, (var, _, _) in by_key.items()}      # local name -> state key (the keys are named after detokenise's variables)
    for dv, dvar in list(pre_assign.items()):
        pass
    for v in ("cur_time", "cur_time_bar", "cur_time_signature_numerator", "cur_time_signature_denominator", "cur_bar_capacity_remaining"):
        if v not in by_key:
            ctx.violation("ST2", f"state key `{v}` restored with a default", function=fe.qualname, construct=f"`{v}` is not restored from the state dictionary", message="",
                          file=fe.file, node=fe.node)
            continue
        d = by_key[v][1]
        dd = dinit.get(v)
        if dd is None:
            ctx.undetermined("ST2", f"default of `{v}`", "detokenise has no variable of that name: not judged")
            continue

        def neutral(e):
            # names of tokenise's locals replaced by the state keys they carry; capacity formula by its normal form
            class R(ast.NodeTransformer):
                def visit_Name(self, n):
                    return ast.copy_location(ast.Name(id=ren.get(n.id, n.id), ctx=n.ctx), n)
            import copy as _c
            return src(R().visit(_c.deepcopy(e)))
        dtxt = neutral(d) if d is not None else None
        if d is not None and isinstance(d, ast.Name) and d.id in derived:
            dtxt = T.rename_sig(nz.norm(derived[d.id].value).canon())
            ddtxt = T.rename_sig(Normaliser(atom_hook=T.field_hook({})).norm(dinit[dd.id]).canon()) if isinstance(dd, ast.Name) and dd.id in dinit else src(dd)
        else:
            ddtxt = src(dd)
        ok = d is not None and dtxt == ddtxt
        ctx.check(ok, "ST2", f"default of `{v}` = detokenise's initial value ({short(d)})", function=fe.qualname,
                  construct=f"default of `{v}` differs from detokenise's initial clock",
                  message=f"tokenise starts `{v}` at `{short(d)}`, detokenise at `{short(dd)}`", file=fe.file, node=by_key[v][2])

    # ---- ST3 ordering and unconditionality
    first_save = min((s.lineno for _, s in saved.values()), default=0)
    closing = [s for s in tail if isinstance(s, ast.If) and any(isinstance(c, ast.Call) and isinstance(c.func, ast.Name) and closure is not None and
                                                                c.func.id == closure.name for c in ast.walk(s))]
    ctx.check(bool(closing) and all(s.lineno < first_save for s in closing), "ST3", "the last bar is closed before the state is written", function=fe.qualname,
              construct="state written before the end-of-call bar closing", message="the saved clock would miss the closing rests", file=fe.file, node=fe.node)
    ctx.check(all(s in fe.node.body for _, s in saved.values()), "ST3", "state writes are unconditional top-level statements", function=fe.qualname,
              construct="a state write is conditional", message="", file=fe.file, node=fe.node)
    ctx.check(all(s.lineno > loop.end_lineno for _, s in saved.values()), "ST3", "state written after the event loop", function=fe.qualname,
              construct="state written before the events are processed", message="", file=fe.file, node=fe.node)
    fresh = [s for s in fe.node.body if isinstance(s, ast.If) and isinstance(s.test, ast.Compare) and src(s.test) == f"{sd} is None"]
    ctx.check(len(fresh) == 1 and any(isinstance(x, ast.Assign) and src(x.targets[0]) == sd for x in fresh[0].body), "ST3",
              "a missing state dictionary is replaced by a fresh one", function=fe.qualname, construct="None state not replaced by a fresh dictionary",
              message="", file=fe.file, node=fe.node)
    dflt = next((d for a, d in zip(reversed(fe.node.args.args), reversed(fe.node.args.defaults)) if a.arg == sd), None)
    ctx.check(isinstance(dflt, ast.Constant) and dflt.value is None, "ST3", "the state parameter defaults to None (no shared mutable default)", function=fe.qualname,
              construct="state dictionary parameter has a mutable default", message="calls without state would share one dictionary", file=fe.file, node=fe.node)
