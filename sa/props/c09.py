"""C09 -- bar splitting follows the time signatures and conserves the music (structural clauses)."""
from __future__ import annotations

import ast

from ..astutil import attr_chain, call_method, short, src, enum_member, kwarg, ancestors
from ..linear import Normaliser, Sym
from ..model import walk_local, AnalysisError
from ..report import Ctx
from ..engines.effects import Effects
from ..engines.typecase import TypeCase, events_matching
from ..engines.typestate import TypestateEngine, PRE_STATES
from ..engines.units import UnitAnalysis, show, TICK

FN = "Sequence.sequences_split_bars"


def mutating_sequence_methods(p) -> dict[str, bool]:
    """Sequence method name -> may it change the content of the sequence (via the typestate engine's classified calls)."""
    eng = TypestateEngine(p, "Sequence")
    out = {}
    for m, fi in eng.ci.methods.items():
        if fi.is_static:
            continue
        eng.call_sites_classified.clear()
        mut = False
        for pre in PRE_STATES.values():
            try:
                exits, problems, it = eng.analyse_method(m, pre)
            except Exception:
                mut = True
                break
        for (fn, line, callee, kind) in eng.call_sites_classified:
            if kind == "MUTATE":
                mut = True
        # overwrite_* replace a view
        for n in walk_local(fi.node):
            if isinstance(n, ast.Assign) and any(attr_chain(t) in (["self", "_abs"], ["self", "_rel"]) for t in n.targets) and m not in ("abs", "rel", "refresh", "__init__"):
                mut = True
        out[m] = mut
    # closure over self-calls
    changed = True
    while changed:
        changed = False
        for m, fi in eng.ci.methods.items():
            if fi.is_static or out.get(m):
                continue
            for c in walk_local(fi.node):
                if isinstance(c, ast.Call) and isinstance(c.func, ast.Attribute) and isinstance(c.func.value, ast.Name) and c.func.value.id == "self" \
                        and out.get(c.func.attr):
                    out[m] = True
                    changed = True
    return out


def _main_check(ctx: Ctx) -> None:
    p = ctx.p
    fi = p.func(FN)
    ctx.analysed(fi)
    ctx.explanation = (
        "Structural necessary conditions of C09 on Sequence.sequences_split_bars: ONE every round appends exactly one Bar to "
        "every track's list on every path (equal bar counts); SIG the Bar receives exactly the numerator/denominator variables "
        "that sized the bar (no reassignment in between) and the key in force; LEN the bar length is symbolically "
        "PPQN*4*numerator/denominator, in ticks, wrapped in int(); CLOCK the signature/key look-up reads the clock before the "
        "round advances it and compares `timing <= clock`; SAME every track is split by that one length; PLACEHOLDER an exhausted "
        "track continues with a fresh empty sequence and an empty piece is supplied when split returns nothing; SHORTEN the "
        "optional re-quantisation runs with do_not_extend=True on the piece only; DEFAULT 4/4 before any signature; "
        "PURE the inputs are only read (fresh working list; only non-mutating methods are called on input sequences); "
        "SPLIT the boundary handling of RelativeSequence.split that the bars inherit: channel-and-pitch keyed open notes (KEY2), a cut "
        "wait conserves time (CUT), notes cut at a bar line are closed and re-struck with the open note's channel, pitch and velocity "
        "(RESTRIKE) -- the same rules as C08; BAR the constructor every bar goes through compares and pads in consistent units to "
        "numerator*4/denominator and rewrites the single leading signature (rules UNIT1/CAP/UNIT2/SIG of C10). "
        "Not decided: bar durations as numbers, coverage bound, sound conservation.")
    ctx.assumptions += ["RelativeSequence.split is pure and returns fresh pieces (C08, C16)", "signature changes lie on bar boundaries (hypothesis of the property)"]
    # bar splitting is built on RelativeSequence.split: its boundary handling decides whether the bars reproduce the music
    from .c08 import split_rules
    split_rules(ctx, {"KEY", "CUT", "RESTRIKE", "PLACE", "DEST", "PIECE", "FLOW", "TAIL"})
    # ... and every bar is made by Bar.__init__: capacity test, padding and the single leading signature (rules of C10)
    from .c10 import bar_rules
    bar_rules(ctx)
    params = fi.params
    inp = params[0]
    loop = next((n for n in fi.node.body if isinstance(n, ast.While)), None)
    if loop is None:
        raise AnalysisError(f"{FN}: main loop not found")
    track_loop = next((n for n in loop.body if isinstance(n, ast.For)), None)
    if track_loop is None:
        raise AnalysisError(f"{FN}: per-track loop not found")

    # --- working list
    wl = None
    for s in fi.node.body:
        if isinstance(s, ast.Assign) and isinstance(s.value, (ast.ListComp, ast.Call)) and inp in {n.id for n in ast.walk(s.value) if isinstance(n, ast.Name)} \
                and isinstance(s.targets[0], ast.Name):
            wl = s.targets[0].id
            fresh = isinstance(s.value, ast.ListComp) or (isinstance(s.value, ast.Call) and isinstance(s.value.func, ast.Name) and s.value.func.id in ("list",)) \
                or (isinstance(s.value, ast.Call) and attr_chain(s.value.func) in (["copy", "copy"],))
            ctx.check(fresh, "PURE", f"{FN}: works on a fresh list of the inputs", function=FN, construct="working list aliases the caller's list",
                      message=short(s), file=fi.file, node=s)
            break
    if wl is None:
        # the same list built by an explicit loop: `wl = []` then `for s in inputs: wl.append(s)`
        for s in fi.node.body:
            if isinstance(s, ast.For) and src(s.iter) == inp and isinstance(s.target, ast.Name) and s.lineno < loop.lineno:
                apps_ = [c for c in ast.walk(s) if isinstance(c, ast.Call) and call_method(c)[1] == "append" and isinstance(call_method(c)[0], ast.Name)
                         and c.args and src(c.args[0]) == s.target.id]
                if len(apps_) == 1 and not any(isinstance(x, (ast.If, ast.Break, ast.Continue)) for x in ast.walk(s)):
                    cand_ = call_method(apps_[0])[0].id
                    init_ = [a for a in fi.node.body if isinstance(a, ast.Assign) and src(a.targets[0]) == cand_ and isinstance(a.value, ast.List) and not a.value.elts
                             and a.lineno < s.lineno]
                    if init_:
                        wl = cand_
                        ctx.ok("PURE", f"{FN}: works on a fresh list of the inputs (built by a loop)")
    if wl is None:
        ctx.violation("PURE", f"{FN}: working list", function=FN, construct="no fresh working list of the input sequences",
                      message="the caller's list would be overwritten with remainders", file=fi.file, node=fi.node)
        wl = inp
    stores_inp = [n for n in walk_local(fi.node) if isinstance(n, (ast.Assign, ast.AugAssign)) and any(
        isinstance(t, ast.Subscript) and isinstance(t.value, ast.Name) and t.value.id == inp for t in (n.targets if isinstance(n, ast.Assign) else [n.target]))]
    ctx.check(not stores_inp, "PURE", f"{FN}: the caller's list is not written", function=FN, construct="input list element overwritten",
              message=f"{[short(s) for s in stores_inp]}", file=fi.file, node=stores_inp[0] if stores_inp else fi.node)
    muts = mutating_sequence_methods(p)
    tv = track_loop.target.elts[1].id if isinstance(track_loop.target, ast.Tuple) else (track_loop.target.id if isinstance(track_loop.target, ast.Name) else None)
    # `for seq, bars in zip(working list, result lists)`: the track and its own bar list walked in parallel instead of by index
    zip_bars = None
    if isinstance(track_loop.iter, ast.Call) and src(track_loop.iter.func) == "zip" and isinstance(track_loop.target, ast.Tuple) \
            and len(track_loop.target.elts) == len(track_loop.iter.args) == 2 and all(isinstance(x, ast.Name) for x in list(track_loop.target.elts) + list(track_loop.iter.args)):
        pairs_ = {a.id: t.id for t, a in zip(track_loop.target.elts, track_loop.iter.args)}
        if wl in pairs_:
            tv = pairs_[wl]
            zip_bars = next((t for a, t in pairs_.items() if a != wl), None), next((a for a in pairs_ if a != wl), None)
    input_vars = {tv}
    for s in fi.node.body:
        if isinstance(s, ast.Assign) and isinstance(s.value, ast.Subscript) and isinstance(s.value.value, ast.Name) and s.value.value.id in (wl, inp) \
                and isinstance(s.targets[0], ast.Name):
            input_vars.add(s.targets[0].id)
    n_calls = 0
    for c in walk_local(fi.node):
        if isinstance(c, ast.Call):
            recv, name = call_method(c)
            if isinstance(recv, ast.Name) and recv.id in input_vars and name in muts:
                n_calls += 1
                ctx.check(not muts[name], "PURE", f"{FN}: `{short(c, 60)}` does not change an input sequence", function=FN,
                          construct=f"content-changing method `{name}` called on an input sequence",
                          message=f"`{short(c, 60)}` mutates one of the caller's sequences", file=fi.file, node=c)
    ctx.floor("method calls on input sequences", n_calls, 2)
    # Bar(...) normalises, pads and rewrites the sequence it is given: no bar may hold (an alias of) an input sequence
    from ..engines import ownership
    ownership.check_routes(ctx, "PURE", routes=[FN])

    # --- DEFAULT
    nz0 = Normaliser()
    consts = {}
    for s in fi.node.body:
        if s is loop:
            break
        if isinstance(s, ast.Assign) and isinstance(s.targets[0], ast.Name) and isinstance(s.value, ast.Constant):
            consts[s.targets[0].id] = s.value.value

    # --- LEN / SIG
    length = None
    for s in loop.body:
        if isinstance(s, ast.Assign) and isinstance(s.targets[0], ast.Name) and "PPQN" in {n.id for n in ast.walk(s.value) if isinstance(n, ast.Name)}:
            length = s
    if length is None:
        raise AnalysisError(f"{FN}: bar length computation not found")
    lname = length.targets[0].id
    names = [n.id for n in ast.walk(length.value) if isinstance(n, ast.Name) and n.id not in ("PPQN", "int", "round")]
    num = next((n for n in names if "numerator" in n), None)
    den = next((n for n in names if "denominator" in n), None)
    if num is None or den is None:
        raise AnalysisError(f"{FN}: numerator/denominator variables of the bar length not found")
    ctx.check(consts.get(num) == 4 and consts.get(den) == 4, "DEFAULT", f"{FN}: 4/4 in force before any signature", function=FN,
              construct="default signature is not 4/4", message=f"{num}={consts.get(num)} {den}={consts.get(den)}", file=fi.file, node=fi.node)
    nz = Normaliser()
    inner = length.value
    def _is_int_expr(e):
        if isinstance(e, ast.Call) and isinstance(e.func, ast.Name) and e.func.id in ("int", "round") and len(e.args) == 1:
            return True
        if isinstance(e, ast.Constant) and isinstance(e.value, int):
            return True
        if isinstance(e, ast.BinOp) and isinstance(e.op, (ast.Mult, ast.Add, ast.Sub, ast.FloorDiv)):
            return _is_int_expr(e.left) and _is_int_expr(e.right)
        return False
    wrapped = isinstance(inner, ast.Call) and isinstance(inner.func, ast.Name) and inner.func.id == "int"
    if not wrapped and _is_int_expr(inner):
        wrapped = None          # an integer expression of another shape: LEN's formula rule judges it
    ctx.check(wrapped is not False, "LEN", f"{FN}: bar length is an integer expression", function=FN, construct="bar length is not converted to int",
              message=short(length), file=fi.file, node=length)
    core = inner.args[0] if wrapped and inner.args else inner
    want = nz.norm(ast.parse(f"PPQN * 4 * {num} / {den}", mode="eval").body)
    got = nz.norm(core)
    ctx.check(got == want, "LEN", f"{FN}: bar length = PPQN*4*{num}/{den}", function=FN,
              construct="bar length formula is not PPQN*4*numerator/denominator", message=f"`{got.canon()}` vs `{want.canon()}`", file=fi.file, node=length)
    ua = UnitAnalysis(p, fi)
    u = ua.unit(core)
    ctx.check(u == TICK, "LEN", f"{FN}: bar length is measured in ticks ({show(u)})", function=FN, construct=f"bar length has unit {show(u)}",
              message="", file=fi.file, node=length)
    # numerator/denominator assigned only before the length computation within a round
    for v in (num, den):
        late = [s for s in ast.walk(loop) if isinstance(s, ast.Assign) and any(isinstance(t, ast.Name) and t.id == v for t in s.targets) and s.lineno > length.lineno]
        ctx.check(not late, "SIG", f"{FN}: `{v}` is not changed between sizing the bar and building it", function=FN,
                  construct="signature variable reassigned after the bar length was computed", message=f"{[short(s) for s in late]}", file=fi.file,
                  node=late[0] if late else length)
    bars = [c for c in ast.walk(track_loop) if isinstance(c, ast.Call) and isinstance(c.func, ast.Name) and c.func.id == "Bar"]
    ctx.floor("Bar constructions per track round", len(bars), 1)
    keyvar = None
    for c in bars:
        a = list(c.args)
        ok = len(a) >= 3 and isinstance(a[1], ast.Name) and a[1].id == num and isinstance(a[2], ast.Name) and a[2].id == den
        ctx.check(ok, "SIG", f"{FN}: Bar built from the variables that sized it", function=FN,
                  construct="Bar receives a different numerator/denominator than the bar length was computed from",
                  message=short(c, 100), file=fi.file, node=c)
        k = a[3] if len(a) > 3 else kwarg(c, "key")
        kn = {n.id for n in ast.walk(k) if isinstance(n, ast.Name)} if k is not None else set()
        keyvars = [n for n in kn if "key" in n.lower() and n != "Key"]
        ctx.check(bool(keyvars), "SIG", f"{FN}: Bar receives the key in force", function=FN, construct="Bar built without the key in force",
                  message=short(c, 100), file=fi.file, node=c)
        keyvar = keyvars[0] if keyvars else None

    # --- CLOCK
    clock = None
    for s in loop.body:
        if isinstance(s, ast.AugAssign) and isinstance(s.target, ast.Name) and isinstance(s.value, ast.Name) and s.value.id == lname and isinstance(s.op, ast.Add):
            clock = s
    ctx.check(clock is not None, "CLOCK", f"{FN}: the clock advances by the bar length once per round", function=FN,
              construct="clock not advanced by the bar length", message="", file=fi.file, node=loop)
    if clock is not None:
        cv = clock.target.id
        n_adv = len([s for s in ast.walk(loop) if isinstance(s, (ast.AugAssign, ast.Assign)) and any(
            isinstance(t, ast.Name) and t.id == cv for t in ([s.target] if isinstance(s, ast.AugAssign) else s.targets))])
        ctx.check(n_adv == 1, "CLOCK", f"{FN}: single clock update per round", function=FN, construct="clock updated more than once per round",
                  message=f"{n_adv}", file=fi.file, node=clock)
        lookups = [s for s in loop.body if isinstance(s, ast.Assign) and isinstance(s.value, ast.Call) and isinstance(s.value.func, ast.Name)
                   and s.value.func.id == "next" and cv in {n.id for n in ast.walk(s.value) if isinstance(n, ast.Name)}]
        # look-ups done by a private helper that was not put in place (a search loop with a `return` inside): not judged rather than missing
        helper_lookups = [s for s in loop.body if isinstance(s, ast.Assign) and isinstance(s.value, ast.Call) and (call_method(s.value)[1] or "").startswith("_")
                          and cv in {n.id for a_ in s.value.args for n in ast.walk(a_) if isinstance(n, ast.Name)}]
        if len(lookups) < 2 and len(lookups) + len(helper_lookups) >= 2:
            ctx.undetermined("CONSUME", f"{FN}: signature / key look-ups", f"done by {sorted({call_method(s.value)[1] for s in helper_lookups})} (not inlinable): "
                                                                           f"look-up and consumption not judged")
        else:
            ctx.floor("signature/key look-ups", len(lookups), 2)
        for lk in lookups:
            ctx.check(lk.lineno < clock.lineno, "CLOCK", f"{FN}: `{short(lk.targets[0])}` look-up reads the clock before it is advanced", function=FN,
                      construct="signature look-up happens after the clock was advanced", message="the bar would get the next bar's signature",
                      file=fi.file, node=lk)
            cmpn = next((c for c in ast.walk(lk.value) if isinstance(c, ast.Compare)), None)
            ok = cmpn is not None and isinstance(cmpn.ops[0], ast.LtE) and isinstance(cmpn.comparators[0], ast.Name) and cmpn.comparators[0].id == cv
            ok = ok or (cmpn is not None and isinstance(cmpn.ops[0], ast.GtE) and isinstance(cmpn.left, ast.Name) and cmpn.left.id == cv)
            ctx.check(ok, "CLOCK", f"{FN}: look-up takes events at or before the clock (`{short(cmpn)}`)", function=FN,
                      construct="signature look-up does not compare `event time <= clock`", message=short(cmpn), file=fi.file, node=lk)
        ctx.check(length.lineno < clock.lineno, "CLOCK", f"{FN}: bar length computed before the clock advances", function=FN,
                  construct="clock advanced before the bar length is known", message="", file=fi.file, node=clock)
        # signature variables are updated from the looked-up event before the length is computed
        for v in (num, den):
            ups = [s for s in ast.walk(loop) if isinstance(s, ast.Assign) and any(isinstance(t, ast.Name) and t.id == v for t in s.targets)]
            ok = bool(ups) and all(s.lineno < length.lineno and isinstance(s.value, ast.Attribute) and s.value.attr in v for s in ups)
            ctx.check(ok, "SIG", f"{FN}: `{v}` taken from the signature event before sizing", function=FN,
                      construct="signature variable not updated from the looked-up event before the bar is sized",
                      message=f"{[short(s) for s in ups]}", file=fi.file, node=ups[0] if ups else loop)

    # --- SAME
    splits = [c for c in ast.walk(track_loop) if isinstance(c, ast.Call) and call_method(c)[1] == "split"]
    ctx.floor("split calls per track round", len(splits), 1)
    for c in splits:
        a = c.args[0] if c.args else None
        ok = isinstance(a, ast.List) and len(a.elts) == 1 and isinstance(a.elts[0], ast.Name) and a.elts[0].id == lname \
            and isinstance(call_method(c)[0], ast.Name) and call_method(c)[0].id == tv
        ctx.check(ok, "SAME", f"{FN}: every track is split by the one bar length", function=FN,
                  construct="a track is split by something other than [bar length]", message=short(c), file=fi.file, node=c)

    # the result of the split is used as it is: bound directly from the call, on every path of the track round
    from ..astutil import path_conditions
    for c in splits:
        st_ = c
        while not isinstance(st_, ast.stmt):
            st_ = st_._parent
        direct = isinstance(st_, ast.Assign) and st_.value is c and not path_conditions(st_, track_loop)
        ctx.check(direct, "SAME", f"{FN}: every track is split in every round (`{short(st_, 70)}`)", function=FN,
                  construct="the per-track split is skipped or replaced under some condition",
                  message=f"`{short(st_, 90)}`: a track that is not split in a round contributes no bar content for it (trailing rests, late signatures "
                          f"or padding of a track without further notes would be dropped)", file=fi.file, node=st_)

    # --- ONE
    res = None
    for r in walk_local(fi.node):
        if isinstance(r, ast.Return) and isinstance(r.value, ast.Name):
            res = r.value.id
    tc = TypeCase(p, fi, set(), None)
    exits = tc.run_body(track_loop.body)
    kinds = {k for k, _ in exits}
    rng = events_matching(exits, lambda e: e[0] == "append" and (e[1].startswith(f"{res}[") or (zip_bars is not None and zip_bars[1] == res and e[1] == zip_bars[0])),
                          kinds=("end", "continue", "break"))
    ctx.check(rng == (1, 1) and kinds == {"end"}, "ONE", f"{FN}: exactly one bar appended per track per round {rng}", function=FN,
              construct="a round does not append exactly one bar to every track on every path",
              message=f"appends {rng}, exits {sorted(kinds)}: tracks would end up with different bar counts", file=fi.file, node=track_loop)
    app = [c for c in ast.walk(track_loop) if isinstance(c, ast.Call) and call_method(c)[1] == "append" and src(call_method(c)[0]).startswith(f"{res}[")]
    idx = track_loop.target.elts[0].id if isinstance(track_loop.target, ast.Tuple) else None
    zapp = [c for c in ast.walk(track_loop) if zip_bars is not None and zip_bars[1] == res and isinstance(c, ast.Call) and call_method(c)[1] == "append"
            and src(call_method(c)[0]) == zip_bars[0]]
    ctx.check((all(src(call_method(c)[0]) == f"{res}[{idx}]" for c in app) and bool(app)) or (not app and bool(zapp)), "ONE", f"{FN}: the bar goes to its own track's list",
              function=FN, construct="bar appended to another track's list", message=f"{[short(c, 40) for c in app]}", file=fi.file, node=track_loop)
    ctx.check((isinstance(track_loop.iter, ast.Call) and isinstance(track_loop.iter.func, ast.Name) and track_loop.iter.func.id == "enumerate"
               and isinstance(track_loop.iter.args[0], ast.Name) and track_loop.iter.args[0].id == wl) or (zip_bars is not None and zip_bars[1] == res),
              "ONE", f"{FN}: the round visits every track",
              function=FN, construct="per-round loop does not enumerate all tracks", message=short(track_loop.iter), file=fi.file, node=track_loop)

    # --- PLACEHOLDER
    cont = [s for s in ast.walk(track_loop) if isinstance(s, ast.Assign) and any(isinstance(t, ast.Subscript) and isinstance(t.value, ast.Name)
            and t.value.id == wl for t in s.targets)]
    rem = [s for s in cont if isinstance(s.value, ast.Subscript)]
    fresh = [s for s in cont if isinstance(s.value, ast.Call) and isinstance(s.value.func, ast.Name) and s.value.func.id == "Sequence" and not s.value.args and not s.value.keywords]
    # decided case by case (split returned nothing / one piece / piece and remainder) when the body can be interpreted; by shape otherwise
    cases = _round_cases(fi, loop, track_loop, wl)
    semantic = cases is not None and all("undecided" not in cases[L] for L in (0, 1, 2))
    if semantic:
        want = {2: ("piece1", "piece0"), 1: ("fresh", "piece0"), 0: ("fresh", "fresh")}
        names = {0: "no piece", 1: "one piece", 2: "a piece and a remainder"}
        for L in (2, 1, 0):
            c_ = cases[L]
            ctx.check(c_["cont"] == [want[L][0]], "PLACEHOLDER", f"{FN}: split returned {names[L]} -> the track continues with {c_['cont']}", function=FN,
                      construct=("track does not continue with the remainder piece" if L == 2 else "exhausted track is not replaced by an empty placeholder"),
                      message=f"when split returns {names[L]} the track's next sequence is {c_['cont']}, required [{want[L][0]!r}] (piece1 = the remainder, fresh = a new empty "
                              f"Sequence)", file=fi.file, node=track_loop)
            ctx.check(c_["bar"] == [want[L][1]], "SPLITCASE", f"{FN}: split returned {names[L]} -> the bar is built from {c_['bar']}", function=FN,
                      construct=("the bar is not built from the first piece of the split" if L else "the empty piece for an exhausted track is missing or supplied under another condition"),
                      message=f"when split returns {names[L]} the bar is built from {c_['bar']}, required [{want[L][1]!r}]", file=fi.file, node=track_loop)
        asked = cases[2]["flags"] - cases[1]["flags"] - cases[0]["flags"]
        ctx.check(bool(asked), "SPLITCASE", f"{FN}: another round is requested exactly when a remainder exists ({sorted(asked)})", function=FN,
                  construct="another round is requested under a condition other than `split returned more than one piece`",
                  message=f"flags set with a remainder {sorted(cases[2]['flags'])}, without {sorted(cases[1]['flags'] | cases[0]['flags'])}", file=fi.file, node=track_loop)
    else:
        ctx.check(len(rem) == 1 and isinstance(rem[0].value.slice, ast.Constant) and rem[0].value.slice.value == 1, "PLACEHOLDER",
                  f"{FN}: the remainder (piece [1]) continues the track", function=FN, construct="track does not continue with the remainder piece",
                  message=f"{[short(s) for s in rem]}", file=fi.file, node=track_loop)
        ctx.check(len(fresh) >= 1, "PLACEHOLDER", f"{FN}: an exhausted track continues with an empty sequence", function=FN,
                  construct="exhausted track is not replaced by an empty placeholder", message="", file=fi.file, node=track_loop)
    # the flag that decides about another round: named in the loop test, or in an `if <flag>: break` at the top level of the loop body
    flag_names = {n.id for n in ast.walk(loop.test) if isinstance(n, ast.Name)}
    for b_ in loop.body:
        if isinstance(b_, ast.If) and any(isinstance(x, ast.Break) for x in b_.body):
            flag_names |= {n.id for n in ast.walk(b_.test) if isinstance(n, ast.Name)}
    sync = [s for s in ast.walk(loop) if isinstance(s, ast.Assign) and isinstance(s.value, ast.Constant) and isinstance(s.value.value, bool)
            and isinstance(s.targets[0], ast.Name) and s.targets[0].id in flag_names]
    setf = [s for s in sync if s.value.value is False]
    def _two_or_more(t):
        """does the test hold exactly when a list has two or more elements?  (`len(x) > 1`, `len(x) >= 2`, `1 < len(x)` ...)"""
        if isinstance(t, ast.Compare) and len(t.ops) == 1:
            l, r, op = t.left, t.comparators[0], type(t.ops[0])
            if isinstance(r, ast.Call) and getattr(r.func, "id", None) == "len" and isinstance(l, ast.Constant):
                l, r, op = r, l, {ast.Lt: ast.Gt, ast.LtE: ast.GtE, ast.Gt: ast.Lt, ast.GtE: ast.LtE}.get(op, op)
            if isinstance(l, ast.Call) and getattr(l.func, "id", None) == "len" and isinstance(r, ast.Constant) and isinstance(r.value, int):
                return (op is ast.Gt and r.value == 1) or (op is ast.GtE and r.value == 2) or (op is ast.NotEq and False)
        return False
    ok = bool(setf) and all(any(isinstance(a, ast.If) and _two_or_more(a.test) and any(s is x for y in a.body for x in ast.walk(y)) for a in ancestors(s)) for s in setf)
    if semantic:
        pass                 # decided above: a flag is set exactly in the case "piece and remainder"
    elif not flag_names or not sync:
        ctx.undetermined("PLACEHOLDER", f"{FN}: another round runs iff some track still has a remainder", "no boolean round flag recognised: not judged")
    else:
        ctx.check(ok, "PLACEHOLDER", f"{FN}: another round runs iff some track still has a remainder", function=FN,
                  construct="loop continuation flag is not tied to `a remainder exists`", message="", file=fi.file, node=loop)

    # --- LOOPCTL: the flag that ends the rounds
    flagn = None
    t_ = loop.test
    nots_ = 0
    while isinstance(t_, ast.UnaryOp) and isinstance(t_.op, ast.Not):
        nots_, t_ = nots_ + 1, t_.operand
    if isinstance(t_, ast.Name) and nots_ >= 1:
        flagn = t_.id
        ctx.check(nots_ % 2 == 1, "LOOPCTL", f"{FN}: rounds continue while `{flagn}` is false", function=FN,
                  construct="the round loop continues while the tracks ARE synchronised", message=short(loop.test), file=fi.file, node=loop)
    if flagn is None:
        ctx.undetermined("LOOPCTL", f"{FN}: round control", f"`while {short(loop.test)}` is not `while not <flag>`: idiom not judged")
    else:
        inits = [s_ for s_ in fi.node.body if s_.lineno < loop.lineno and isinstance(s_, ast.Assign) and isinstance(s_.targets[0], ast.Name) and s_.targets[0].id == flagn]
        ctx.check(len(inits) == 1 and isinstance(inits[0].value, ast.Constant) and inits[0].value.value is False, "LOOPCTL",
                  f"{FN}: `{flagn}` starts False, so the first round always runs", function=FN, construct="round flag does not start False",
                  message=f"{[short(x) for x in inits]}: no bar would be produced at all", file=fi.file, node=inits[0] if inits else loop)
        tops = [s_ for s_ in loop.body if isinstance(s_, ast.Assign) and isinstance(s_.targets[0], ast.Name) and s_.targets[0].id == flagn]
        ctx.check(len(tops) == 1 and isinstance(tops[0].value, ast.Constant) and tops[0].value.value is True and tops[0].lineno < track_loop.lineno, "LOOPCTL",
                  f"{FN}: each round first assumes it is the last (`{flagn} = True` before the tracks are visited)", function=FN,
                  construct="round flag is not set before the tracks are visited", message=f"{[short(x) for x in tops]}: the loop would never end, or end one round late",
                  file=fi.file, node=tops[0] if tops else loop)
        inner = [s_ for s_ in ast.walk(track_loop) if isinstance(s_, ast.Assign) and isinstance(s_.targets[0], ast.Name) and s_.targets[0].id == flagn]
        ctx.check(bool(inner) and all(isinstance(x.value, ast.Constant) and x.value.value is False for x in inner), "LOOPCTL",
                  f"{FN}: a track with a remainder asks for another round", function=FN, construct="no track can ask for another round",
                  message=f"{[short(x) for x in inner]}", file=fi.file, node=track_loop)

    # --- SPLITCASE: what one split call can return -- [] / [piece] / [piece, remainder]
    from ..astutil import path_conditions
    sv = None
    for s_ in track_loop.body:
        if isinstance(s_, ast.Assign) and isinstance(s_.targets[0], ast.Name) and isinstance(s_.value, ast.Call) and call_method(s_.value)[1] == "split":
            sv = s_.targets[0].id
    if sv is None:
        ctx.undetermined("SPLITCASE", f"{FN}: result of the per-track split", "not bound to a name: not judged")
    elif not semantic:
        def lencase(t):
            """-> set of list lengths (0, 1, 2 = two or more) for which `t` holds, or None."""
            neg = False
            while isinstance(t, ast.UnaryOp) and isinstance(t.op, ast.Not):
                neg, t = not neg, t.operand
            if isinstance(t, ast.Name) and t.id == sv:            # truthiness of the list: non-empty
                return {0} if neg else {1, 2}
            if not (isinstance(t, ast.Compare) and len(t.ops) == 1 and isinstance(t.left, ast.Call) and isinstance(t.left.func, ast.Name)
                    and t.left.func.id == "len" and t.left.args and src(t.left.args[0]) == sv and isinstance(t.comparators[0], ast.Constant)):
                return None
            c0 = t.comparators[0].value
            f = {ast.Gt: lambda n: n > c0, ast.GtE: lambda n: n >= c0, ast.Lt: lambda n: n < c0, ast.LtE: lambda n: n <= c0,
                 ast.Eq: lambda n: n == c0, ast.NotEq: lambda n: n != c0}.get(type(t.ops[0]))
            if f is None:
                return None
            holds = {n for n in (0, 1, 2) if f(n)}
            return ({0, 1, 2} - holds) if neg else holds

        def lens_at(node):
            cur_ = {0, 1, 2}
            for t, holds in path_conditions(node, track_loop):
                lc = lencase(t)
                if lc is None:
                    continue
                cur_ &= lc if holds else ({0, 1, 2} - lc)
            return cur_
        if rem:
            ctx.check(lens_at(rem[0]) == {2}, "SPLITCASE", f"{FN}: the remainder is taken exactly when split returned two pieces", function=FN,
                      construct="the remainder piece is read under a condition other than `split returned more than one piece`",
                      message=f"`{short(rem[0])}` runs for result lengths {sorted(lens_at(rem[0]))} (2 = two or more)", file=fi.file, node=rem[0])
        for s_ in inner if flagn is not None else []:
            ctx.check(lens_at(s_) == {2}, "SPLITCASE", f"{FN}: another round is requested exactly when a remainder exists", function=FN,
                      construct="another round is requested under a condition other than `split returned more than one piece`",
                      message=f"`{short(s_)}` runs for result lengths {sorted(lens_at(s_))}", file=fi.file, node=s_)
        for s_ in fresh:
            ctx.check(lens_at(s_) == {0, 1}, "SPLITCASE", f"{FN}: the empty placeholder replaces exactly the exhausted tracks", function=FN,
                      construct="the placeholder replaces a track under a condition other than `no remainder`",
                      message=f"`{short(s_)}` runs for result lengths {sorted(lens_at(s_))}", file=fi.file, node=s_)
        fills = [c for c in ast.walk(track_loop) if isinstance(c, ast.Call) and call_method(c)[1] == "append" and src(call_method(c)[0]) == sv]
        ctx.check(len(fills) == 1 and lens_at(fills[0]) == {0} and isinstance(fills[0].args[0], ast.Call) and src(fills[0].args[0].func) == "Sequence"
                  and not fills[0].args[0].args, "SPLITCASE", f"{FN}: an empty piece is supplied exactly when split returned nothing", function=FN,
                  construct="the empty piece for an exhausted track is missing or supplied under another condition",
                  message=f"{[(short(c), sorted(lens_at(c))) for c in fills]}: with nothing supplied piece [0] does not exist", file=fi.file,
                  node=fills[0] if fills else track_loop)
        firsts = [s_ for s_ in track_loop.body if isinstance(s_, ast.Assign) and isinstance(s_.value, ast.Subscript) and src(s_.value.value) == sv]
        # ... or the piece is read in place: Bar(<split result>[0], ...) unconditionally in the track loop
        bars_ = [c for c in ast.walk(track_loop) if isinstance(c, ast.Call) and src(c.func) == "Bar" and c.args]
        in_place = not firsts and len(bars_) == 1 and src(bars_[0].args[0]) == f"{sv}[0]" and not path_conditions(bars_[0], track_loop)
        ctx.check(in_place or (len(firsts) == 1 and isinstance(firsts[0].value.slice, ast.Constant) and firsts[0].value.slice.value == 0 and not path_conditions(firsts[0], track_loop)),
                  "SPLITCASE", f"{FN}: the bar is built from piece [0] on every path", function=FN,
                  construct="the bar is not built from the first piece of the split", message=f"{[short(x) for x in firsts]}", file=fi.file,
                  node=firsts[0] if firsts else track_loop)

    # --- CONSUME: a signature / key event that was applied is taken off the front of its list, under `found`
    if clock is not None:
        for lk in lookups:
            var = lk.targets[0].id
            gen = next((g for g in ast.walk(lk.value) if isinstance(g, ast.GeneratorExp)), None)
            lst = src(gen.generators[0].iter) if gen is not None else None
            dflt = lk.value.args[1] if len(lk.value.args) > 1 else None
            ctx.check(gen is not None and isinstance(dflt, ast.Constant) and dflt.value is None and src(gen.elt) == src(gen.generators[0].target), "CONSUME",
                      f"{FN}: `{var}` is the first pending event at or before the clock, or None", function=FN,
                      construct="signature look-up is not `first pending event at or before the clock, else None`", message=short(lk.value, 100), file=fi.file, node=lk)
            uses = [s_ for s_ in loop.body if isinstance(s_, ast.If) and var in {n.id for n in ast.walk(s_.test) if isinstance(n, ast.Name)}]
            oku = False
            if len(uses) == 1:
                t = uses[0].test
                is_none_cmp = isinstance(t, ast.Compare) and len(t.ops) == 1 and isinstance(t.comparators[0], ast.Constant) and t.comparators[0].value is None and src(t.left) == var
                found = is_none_cmp and isinstance(t.ops[0], ast.IsNot)
                # the branch taken when an event was found: the body of `is not None`, or the else of `is None`
                found_branch, other_branch = (uses[0].body, uses[0].orelse) if found else (uses[0].orelse, uses[0].body)
                mirrored = is_none_cmp and isinstance(t.ops[0], ast.Is) and bool(uses[0].orelse)
                pops = [c for x in found_branch for c in ast.walk(x) if isinstance(c, ast.Call) and call_method(c)[1] == "pop" and src(call_method(c)[0]) == lst]
                okpop = len(pops) == 1 and len(pops[0].args) == 1 and isinstance(pops[0].args[0], ast.Constant) and pops[0].args[0].value == 0
                reads = [a for x in found_branch for a in ast.walk(x) if isinstance(a, ast.Subscript) and src(a.value) == var]
                okread = bool(reads) and all(isinstance(a.slice, ast.Constant) and a.slice.value == 1 for a in reads)
                quiet_other = not any(isinstance(c, ast.Call) for x in other_branch for c in ast.walk(x))       # nothing consumed when nothing was found
                oku = (found or mirrored) and okpop and okread and quiet_other and uses[0].lineno < length.lineno
            ctx.check(oku, "CONSUME", f"{FN}: an applied `{var}` is removed from the front of `{lst}` and its event's fields are used", function=FN,
                      construct="an applied signature/key event is not consumed (or applied when none was found)",
                      message="without the removal the same event is found again in every later bar and later changes are never applied", file=fi.file,
                      node=uses[0] if uses else lk)
            # the time compared is the first component of the (time, message) entry
            cmpn = next((c for c in ast.walk(lk.value) if isinstance(c, ast.Compare)), None)
            tside = cmpn.left if cmpn is not None and isinstance(cmpn.left, ast.Subscript) else (cmpn.comparators[0] if cmpn is not None else None)
            ctx.check(isinstance(tside, ast.Subscript) and isinstance(tside.slice, ast.Constant) and tside.slice.value == 0, "CONSUME",
                      f"{FN}: the look-up compares the entry's time (component 0)", function=FN, construct="signature look-up does not compare the entry's time",
                      message=short(cmpn), file=fi.file, node=lk)
    # default signature list installed iff the meta track has none
    dl = [s_ for s_ in fi.node.body if isinstance(s_, ast.If) and s_.lineno < loop.lineno and any(isinstance(c, ast.Call) and src(c.func) == "Message" for c in ast.walk(s_))]
    if dl:
        t = dl[0].test
        tgt = dl[0].body[0].targets[0].id if isinstance(dl[0].body[0], ast.Assign) and isinstance(dl[0].body[0].targets[0], ast.Name) else None
        from .c08 import _nonempty
        entry = dl[0].body[0].value if tgt else None
        ok0 = tgt is not None and _nonempty(t, tgt) is False and isinstance(entry, ast.List) and len(entry.elts) == 1 and isinstance(entry.elts[0], ast.Tuple) \
            and isinstance(entry.elts[0].elts[0], ast.Constant) and entry.elts[0].elts[0].value == 0
        ctx.check(ok0, "DEFAULT", f"{FN}: the default signature (at tick 0) is installed iff the meta track has no time signature", function=FN,
                  construct="default signature entry is installed under another condition or not at tick 0", message=short(t), file=fi.file, node=dl[0])

    from ..engines.structure import times_of_type_rule
    ctx.floor("signature look-up helper obligations", times_of_type_rule(ctx), 4)
    # --- SHORTEN
    from .c06 import filter_rules        # "fragments may only shrink" rests on the do_not_extend filter of quantise_note_lengths
    filter_rules(ctx)
    qn = [c for c in ast.walk(track_loop) if isinstance(c, ast.Call) and call_method(c)[1] == "quantise_note_lengths"]
    for c in qn:
        d = kwarg(c, "do_not_extend")
        ctx.check(isinstance(d, ast.Constant) and d.value is True, "SHORTEN", f"{FN}: re-quantisation may only shorten", function=FN,
                  construct="bar re-quantisation may extend notes", message=short(c), file=fi.file, node=c)
        g = next((a for a in ancestors(c) if isinstance(a, ast.If)), None)
        flagp = params[2] if len(params) > 2 else None
        from ..astutil import extra_conditions
        more = extra_conditions(c, g.test if g is not None else None)
        ctx.check(g is not None and isinstance(g.test, ast.Name) and g.test.id == flagp and not more, "SHORTEN", f"{FN}: re-quantisation exactly when requested",
                  function=FN, construct="re-quantisation not controlled by its flag alone", message=f"further conditions: {more}", file=fi.file, node=c)
        recv = call_method(c)[0]
        piece = isinstance(recv, ast.Subscript) and isinstance(recv.value, ast.Name) and recv.value.id not in input_vars and isinstance(recv.slice, ast.Constant)
        ctx.check(piece or (isinstance(recv, ast.Name) and recv.id not in input_vars), "SHORTEN", f"{FN}: re-quantisation applies to the piece, not the input",
                  function=FN, construct="re-quantisation applied to an input sequence", message="", file=fi.file, node=c)


def _round_cases(fi, loop, track_loop, wl: str):
    """What one visit of a track does, decided for each possible result of the per-track split -- no piece, one piece, piece and
    remainder -- by interpreting the body of the track loop with the list modelled concretely.  -> {0|1|2: {"cont": value stored as the
    track's continuation, "bar": first argument of Bar(...), "flags": {(name, bool)}}} with values "piece0" / "piece1" / "fresh" (a new
    empty Sequence) / "none" / "other"; None when the body uses something the interpretation does not model."""
    sv = None
    for s_ in track_loop.body:
        if isinstance(s_, ast.Assign) and isinstance(s_.targets[0], ast.Name) and isinstance(s_.value, ast.Call) and call_method(s_.value)[1] == "split":
            sv = s_.targets[0].id
    if sv is None:
        return None
    # a list that collects the continuations and replaces the working list after the visit (`rest.append(x)` ... `wl = rest`)
    collectors = {a.value.id for a in ast.walk(loop) if isinstance(a, ast.Assign) and len(a.targets) == 1 and isinstance(a.targets[0], ast.Name)
                  and a.targets[0].id == wl and isinstance(a.value, ast.Name)}

    class Undecided(Exception):
        pass

    def run(L):
        pieces = ["piece0", "piece1"][:L]
        env = {}
        out = {"cont": [], "bar": [], "flags": set()}

        def ev(e):
            if isinstance(e, ast.Constant):
                return "none" if e.value is None else (e.value if isinstance(e.value, bool) else "other")
            if isinstance(e, ast.Name):
                return env.get(e.id, "other")
            if isinstance(e, ast.Subscript) and isinstance(e.value, ast.Name) and e.value.id == sv and isinstance(e.slice, ast.Constant) and isinstance(e.slice.value, int):
                if 0 <= e.slice.value < len(pieces):
                    return pieces[e.slice.value]
                raise Undecided(f"`{short(e)}` does not exist when split returns {L} piece(s)")
            if isinstance(e, ast.Call) and isinstance(e.func, ast.Name) and e.func.id == "Sequence" and not e.args and not e.keywords:
                return "fresh"
            if isinstance(e, ast.IfExp):
                t = truth(e.test)
                if t is None:
                    raise Undecided(f"`{short(e.test)}`")
                return ev(e.body if t else e.orelse)
            return "other"

        def truth(t):
            if isinstance(t, ast.UnaryOp) and isinstance(t.op, ast.Not):
                r = truth(t.operand)
                return None if r is None else not r
            if isinstance(t, ast.BoolOp):
                vs = [truth(v) for v in t.values]
                if isinstance(t.op, ast.And):
                    return False if any(v is False for v in vs) else (True if all(v is True for v in vs) else None)
                return True if any(v is True for v in vs) else (False if all(v is False for v in vs) else None)
            if isinstance(t, ast.Name) and t.id == sv:
                return len(pieces) > 0
            if isinstance(t, ast.Name) and isinstance(env.get(t.id), bool):
                return env[t.id]
            if isinstance(t, ast.Compare) and len(t.ops) == 1:
                l, r, op = t.left, t.comparators[0], type(t.ops[0])
                if isinstance(l, ast.Constant) and not isinstance(r, ast.Constant):
                    l, r, op = r, l, {ast.Lt: ast.Gt, ast.LtE: ast.GtE, ast.Gt: ast.Lt, ast.GtE: ast.LtE}.get(op, op)
                if isinstance(l, ast.Call) and getattr(l.func, "id", None) == "len" and l.args and src(l.args[0]) == sv and isinstance(r, ast.Constant) and isinstance(r.value, int):
                    n, c0 = len(pieces), r.value
                    return {ast.Gt: n > c0, ast.GtE: n >= c0, ast.Lt: n < c0, ast.LtE: n <= c0, ast.Eq: n == c0, ast.NotEq: n != c0}.get(op)
                if isinstance(r, ast.Constant) and r.value is None and op in (ast.Is, ast.Eq, ast.IsNot, ast.NotEq):
                    v = ev(l)
                    if v == "other":
                        return None
                    return (v == "none") == (op in (ast.Is, ast.Eq))
            return None

        def block(stmts):
            for s_ in stmts:
                if isinstance(s_, ast.If):
                    t = truth(s_.test)
                    if t is None:
                        # a test about something else (the quantisation flag, the key): both branches, neither may touch what is decided here
                        touched = [x for y in s_.body + s_.orelse for x in ast.walk(y)
                                   if (isinstance(x, ast.Name) and isinstance(x.ctx, ast.Store)) or (isinstance(x, ast.Call) and src(x.func) == "Bar")
                                   or (isinstance(x, ast.Subscript) and isinstance(x.ctx, ast.Store))]
                        if any((isinstance(x, ast.Name) and (x.id in env or x.id == sv)) or isinstance(x, (ast.Call, ast.Subscript)) for x in touched):
                            raise Undecided(f"`{short(s_.test, 50)}` governs the bookkeeping")
                        for x in touched:
                            if isinstance(x, ast.Name):
                                env[x.id] = "other"
                        continue
                    r_ = block(s_.body if t else s_.orelse)
                    if r_ is not None:
                        return r_
                elif isinstance(s_, (ast.Continue, ast.Break, ast.Return)):
                    return "left"
                elif isinstance(s_, ast.Assign) and len(s_.targets) == 1:
                    tg = s_.targets[0]
                    if isinstance(tg, ast.Name):
                        if tg.id == sv:
                            if not (isinstance(s_.value, ast.Call) and call_method(s_.value)[1] == "split"):
                                raise Undecided(f"`{short(s_)}` rebinds the split result")
                            continue
                        v = ev(s_.value)
                        env[tg.id] = v
                        if isinstance(v, bool):
                            out["flags"].add((tg.id, v))
                    elif isinstance(tg, ast.Subscript) and isinstance(tg.value, ast.Name) and tg.value.id == wl:
                        out["cont"].append(ev(s_.value))
                    elif isinstance(tg, ast.Tuple):
                        raise Undecided(f"`{short(s_)}`")
                elif isinstance(s_, ast.Expr) and isinstance(s_.value, ast.Call):
                    c = s_.value
                    recv, name = call_method(c)
                    if name == "append" and isinstance(recv, ast.Name) and recv.id == sv and c.args:
                        pieces.append(ev(c.args[0]))
                    elif name == "append" and isinstance(recv, ast.Name) and recv.id in collectors and c.args:
                        out["cont"].append(ev(c.args[0]))
                    elif name == "append" and c.args and isinstance(c.args[0], ast.Call) and src(c.args[0].func) == "Bar" and c.args[0].args:
                        out["bar"].append(ev(c.args[0].args[0]))
                elif isinstance(s_, (ast.For, ast.While, ast.Try, ast.With)):
                    raise Undecided(f"nested `{type(s_).__name__.lower()}` in the track loop")
            return None
        try:
            block(track_loop.body)
        except Undecided as e:
            return {"undecided": str(e)}
        return out
    return {L: run(L) for L in (0, 1, 2)}


def check(ctx: Ctx) -> None:
    _main_check(ctx)
    from .common import view_deps
    view_deps(ctx)
