"""C04 -- absolute and relative views never diverge (typestate of Sequence, inductive over histories)."""
from __future__ import annotations

import ast

from ..astutil import attr_chain, src, short
from ..model import walk_local, AnalysisError
from ..report import Ctx
from ..engines.typestate import TypestateEngine, PRE_STATES, World, NONE, F, S
from ..engines import ownership

PRIMITIVES = {"invalidate_abs", "invalidate_rel"}


def check(ctx: Ctx) -> None:
    p = ctx.p
    eng = TypestateEngine(p, "Sequence")
    ci = eng.ci
    file = ci.file
    ctx.explanation = (
        "Typestate analysis of scoda.sequences.sequence.Sequence: every instance method, property and generator is "
        "interpreted abstractly (sets of worlds over abs/rel freshness flags x content validity) from each of the 3 "
        "valid freshness states; obligations: the exit state is readable (not both stale), a view marked fresh holds "
        "the latest content, no view is read while both are stale, no stored view is used raw while out of date, "
        "generators invalidate the other view before every yield and on every exit (incl. generator close), external "
        "writers of the private flags keep the invariant, constructor calls hand only valid content to a new object. "
        "Induction over method calls extends this to every finite history of public operations. Decides the staleness "
        "discipline only; value-correctness of the two conversion functions is assumed (structure checked separately).")
    ctx.assumptions += [
        "to_relative_sequence/to_absolute_sequence are value-correct (only their structure is checked, rule CONV*)",
        "invalidate_abs/invalidate_rel are primitives whose misuse is the caller's responsibility (README contract)",
        "re-sorting equal-tick events (REORDER effects) does not change the timed events a view describes",
        "a view object read into a local is used before the next state change of the sequence",
    ]
    methods = [m for m, fi in ci.methods.items() if not fi.is_static]
    ctx.floor("Sequence instance methods", len(methods), 30)
    n_gen = 0
    for m in methods:
        fi = ci.methods[m]
        ctx.analysed(fi)
        if fi.is_generator:
            n_gen += 1
        if m == "__init__":
            params = fi.params[1:]
            if len(params) < 2:
                raise AnalysisError("Sequence.__init__: expected the two view parameters")
            for a in (NONE, ("content", True)):
                for r in (NONE, ("content", True)):
                    exits, problems, it = eng.analyse_method(m, World(S, S, False, False), (a, r))
                    label = f"__init__(abs={'None' if a == NONE else 'given'}, rel={'None' if r == NONE else 'given'})"
                    _judge(ctx, file, fi, label, exits, problems)
            continue
        for pname, pre in PRE_STATES.items():
            exits, problems, it = eng.analyse_method(m, pre)
            label = f"{m} from [{pname}]"
            if m in PRIMITIVES:
                # the five primitives of the protocol: their own contract (callers use the summaries derived from this very code)
                want = None
                if m in ("abs", "rel"):
                    want = {"fresh": m, "keep_other": True}
                elif m in ("invalidate_abs", "invalidate_rel"):
                    want = {"stale": m.split("_")[1], "keep_other": True}
                elif m == "refresh":
                    want = {"both_fresh": True}
                if want is None:
                    ctx.ok("TS0", label, "primitive: summary used by callers, exit state not judged")
                    continue
                bad = []
                if any(how == "raise" for _, _, how in exits):
                    bad.append("raises from a valid state")
                for node, w, how in exits:
                    if how == "raise":
                        continue
                    fl = {"abs": w.fa, "rel": w.fr}
                    vl = {"abs": w.va, "rel": w.vr}
                    pre_fl = {"abs": pre.fa, "rel": pre.fr}
                    if "fresh" in want:
                        v, o = want["fresh"], ("rel" if want["fresh"] == "abs" else "abs")
                        if fl[v] != F or not vl[v]:
                            bad.append(f"the {v} view is not fresh and valid afterwards")
                        if fl[o] != pre_fl[o]:
                            bad.append(f"the freshness of the {o} view changes")
                    if "stale" in want:
                        v, o = want["stale"], ("rel" if want["stale"] == "abs" else "abs")
                        if fl[v] != S:
                            bad.append(f"the {v} view is not marked stale afterwards")
                        if fl[o] != pre_fl[o]:
                            bad.append(f"the freshness of the {o} view changes")
                    if want.get("both_fresh") and not (fl["abs"] == F and fl["rel"] == F and vl["abs"] and vl["rel"]):
                        bad.append("not both views fresh and valid afterwards")
                if m in ("invalidate_abs", "invalidate_rel"):
                    bad = [b for b in bad if b != "raises from a valid state"] + (["raises"] if any(how == "raise" for _, _, how in exits) else [])
                ctx.check(not bad, "TS0", f"primitive {label}: contract of the protocol primitive", function=fi.qualname,
                          construct=f"protocol primitive `{m}` does not keep its contract", message=f"from [{pname}]: {sorted(set(bad))}", file=file,
                          node=fi.node)
                continue
            _judge(ctx, file, fi, label, exits, problems)
            if m in ("abs", "rel", "refresh"):
                # reading a view (or refreshing) from a valid state succeeds and yields what it promises
                bad = []
                if any(how == "raise" for _, _, how in exits):
                    bad.append("raises although one view is fresh")
                for node, w, how in exits:
                    if how == "raise":
                        continue
                    if m in ("abs", "refresh") and not (w.fa == F and w.va):
                        bad.append("the absolute view is not fresh and valid afterwards")
                    if m in ("rel", "refresh") and not (w.fr == F and w.vr):
                        bad.append("the relative view is not fresh and valid afterwards")
                    if m == "abs" and w.fr != pre.fr:
                        bad.append("reading the absolute view changes the freshness of the relative view")
                    if m == "rel" and w.fa != pre.fa:
                        bad.append("reading the relative view changes the freshness of the absolute view")
                ctx.check(not bad, "TS0", f"primitive {label}: succeeds and delivers a fresh, valid view", function=fi.qualname,
                          construct=f"protocol primitive `{m}` does not keep its contract", message=f"from [{pname}]: {sorted(set(bad))}", file=file, node=fi.node)
    ctx.floor("Sequence generators", n_gen, 2, now=False) if False else None
    # the two message accessors hand out live messages of one view: they must be generator functions, so that the view is read (and
    # refreshed) when the iteration starts and not when the iterator object is created
    for acc in ("messages_abs", "messages_rel"):
        afi = eng.ci.methods.get(acc)
        if afi is None:
            continue
        eager = [x for x in ast.walk(afi.node) if isinstance(x, ast.Attribute) and isinstance(x.value, ast.Name) and x.value.id == "self"
                 and x.attr in ("abs", "rel", "_abs", "_rel")]
        ctx.check(afi.is_generator, "TS6", f"Sequence.{acc} reads its view when the iteration starts (generator function)", function=afi.qualname,
                  construct="message accessor captures its view when the iterator is created",
                  message=f"`{short(eager[0]) if eager else acc}` is evaluated at call time: an operation between creating the iterator and consuming it is not seen, "
                          f"and the per-message invalidations then leave both views stale", file=afi.file, node=afi.node)
    if n_gen < 2 and not any(f.rule == "TS6" for f in ctx.findings):
        ctx.floor("Sequence generators", n_gen, 2)
    ctx.floor("view-method call sites classified", len({(a, b) for a, b, _, _ in eng.call_sites_classified}), 14)
    ctx.extra["view_call_sites"] = sorted({f"{a}:{b} {c} {d}" for a, b, c, d in eng.call_sites_classified})

    # TS7: everybody else who touches the private view state
    private = set(eng.flag_attr.values()) | set(eng.store_attr.values())
    ext = 0
    for fi in p.all_functions():
        if fi.cls == "Sequence" and not fi.is_static:
            continue
        chains = set()
        for n in walk_local(fi.node):
            if isinstance(n, ast.Attribute) and n.attr in private:
                ch = attr_chain(n.value)
                if ch is None:
                    ctx.violation("TS7", f"{fi.qualname}: {short(n)}", function=fi.qualname,
                                  construct=f"private view state `{n.attr}` accessed through a computed expression",
                                  message="private view state of a Sequence touched outside its class through an "
                                          "expression the analysis cannot track", file=fi.file, node=n)
                    continue
                if fi.cls in (eng.view_class.values()) and ch == ["self"]:
                    continue
                chains.add(tuple(ch))
        for ch in sorted(chains):
            ext += 1
            ctx.analysed(fi)
            for pname, pre in PRE_STATES.items():
                exits, problems, it = eng.analyse_client(fi, list(ch), pre)
                _judge(ctx, fi.file, fi, f"client {fi.qualname} on `{'.'.join(ch)}` from [{pname}]", exits, problems, rule_exit="TS7")
    # (no floor: a library in which nothing outside Sequence touches the private view state satisfies TS7 trivially -- the one
    # such write today, `Bar.__init__` re-marking the absolute view stale after `add_relative_message`, is redundant)
    ctx.ok("TS7", f"external writers/readers of private view state analysed: {ext}")

    conversions(ctx)
    ownership.check_no_internal_escape(ctx, "TS8")
    # the derivation routes (judged in full by C16) hand out Sequence objects: if one of them shares message objects with
    # its source, an in-place operation on the piece rewrites the source's view behind its freshness flags
    ownership.check_routes(ctx, "TS8", routes=["AbstractSequence.copy", "Sequence.copy", "RelativeSequence.split", "Sequence.split",
                                                "Sequence.sequences_split_bars"])
    from ..engines.mustflow import check_sorted_invariant
    nsi = check_sorted_invariant(ctx, "ABS-SORTED")
    ctx.floor("AbsoluteSequence methods that change times/order", nsi, 4)
    from ..engines.mustflow import check_sorted_construction
    check_sorted_construction(ctx, "ABS-SORTED")
    from ..engines.mustflow import check_overwrite_complete
    ctx.floor("overwrite operations decided", check_overwrite_complete(ctx), 2)
    from ..engines.structure import bisect_rule      # add_message keeps the list ordered only if the insertion point is right
    ctx.floor("pieces of the sorted insertion decided", bisect_rule(ctx, "ABS-SORTED"), 1)
    from ..engines.structure import message_type_order_rule
    message_type_order_rule(ctx, "ABS-SORTED")
    order_rule(ctx)


def _judge(ctx: Ctx, file, fi, label, exits, problems, rule_exit="TS1"):
    bad = False
    for pr in problems:
        bad = True
        ctx.violation(pr.rule, label, function=fi.qualname, construct=pr.construct, message=pr.msg, file=file, node=pr.node)
    n_ok = 0
    for node, w, how in exits:
        ok, why = w.inv_ok()
        if ok:
            n_ok += 1
            continue
        bad = True
        rule = rule_exit if "both views stale" in why else ("TS3" if rule_exit == "TS1" else rule_exit)
        where = f"{how} at line {getattr(node, 'lineno', fi.node.end_lineno)}" if node is not None else "end of function"
        ctx.violation(rule, label, function=fi.qualname,
                      construct=f"exit state violates the view invariant: {why}",
                      message=f"{label}: {why} on exit ({where}); state abs={'fresh' if w.fa == F else 'stale'} "
                              f"rel={'fresh' if w.fr == F else 'stale'}",
                      file=file, node=node if node is not None else fi.node)
    if not bad:
        ctx.ok(rule_exit, label, f"{len(exits)} exit world(s), all satisfy the invariant")
        ctx.sample({"method": fi.qualname, "case": label,
                    "post": sorted({f"abs={'fresh' if w.fa == F else 'stale'},rel={'fresh' if w.fr == F else 'stale'}" for _, w, _ in exits})})


def conversions(ctx: Ctx) -> None:
    """Structure of the two conversion functions (not their values): every non-structural message is copied
    exactly once and WAIT/INTERNAL are the only kinds not copied; the result is a new object."""
    p = ctx.p
    from ..engines.structure import conversion_structure
    conversion_structure(ctx)


def order_rule(ctx: Ctx) -> None:
    p = ctx.p
    eng = TypestateEngine(p, "Sequence")
    ci = eng.ci
    methods = [m for m, fi in ci.methods.items() if not fi.is_static]
    # ---- TS-ORDER: the other view is invalidated *after* the in-place change of a view, on every path.  Invalidating first gives the
    # same exit state on paper, but the changing routine may read the other view of the very same object while it runs (`scale` with the
    # sequence as its own `meta_sequence` splits into bars, which reads `.abs`): that read regenerates the other view from the not yet
    # changed one and marks it fresh, and nothing invalidates it afterwards.
    from ..engines.effects import Effects
    from ..engines.mustflow import MustFollow
    from ..astutil import call_method
    eff = Effects(p)
    view_cls = {"abs": "AbsoluteSequence", "rel": "RelativeSequence"}
    n_order = 0
    for m in methods:
        fi = ci.methods[m]
        if m in PRIMITIVES or m in ("abs", "rel", "refresh", "__init__") or fi.is_generator:
            continue
        alias = {}
        for a in ast.walk(fi.node):
            if isinstance(a, ast.Assign) and len(a.targets) == 1 and isinstance(a.targets[0], ast.Name) and attr_chain(a.value) in (["self", "abs"], ["self", "rel"]):
                alias[a.targets[0].id] = a.value.attr

        def changed_view(c):
            """'abs' / 'rel' when `c` is a call that changes that view of self in place, else None"""
            if not isinstance(c, ast.Call):
                return None
            recv, name = call_method(c)
            v = None
            if attr_chain(recv) in (["self", "abs"], ["self", "rel"]):
                v = recv.attr
            elif isinstance(recv, ast.Name) and recv.id in alias:
                v = alias[recv.id]
            if v is None or name is None:
                return None
            return v if eff.classify(view_cls[v], name) == "MUTATE" else None
        for v in ("abs", "rel"):
            o = "rel" if v == "abs" else "abs"

            def trigger(n, v=v, o=o):
                if not (isinstance(n, ast.stmt) and not isinstance(n, (ast.If, ast.For, ast.While, ast.Try, ast.With, ast.FunctionDef))
                        and any(changed_view(c) == v for c in ast.walk(n))):
                    return False
                # under `if self._<other>_stale:` the other view is stale already (and stays so: nothing here refreshes it)
                from ..astutil import path_conditions
                return not any(h and src(t) == f"self._{o}_stale" for t, h in path_conditions(n))

            def discharge(n, o=o):
                if isinstance(n, ast.Call):
                    recv, name = call_method(n)
                    if isinstance(recv, ast.Name) and recv.id == "self" and name == f"invalidate_{o}":
                        return True
                    # a method of the sequence that itself ends with the other view invalidated or rebuilt (normalise, quantise_and_normalise, ...)
                    if isinstance(recv, ast.Name) and recv.id == "self" and name in ci.methods and name not in ("abs", "rel") and name not in PRIMITIVES:
                        return any(isinstance(x, ast.Call) and call_method(x)[1] == f"invalidate_{o}" for x in ast.walk(ci.methods[name].node))
                if isinstance(n, ast.Assign) and any(attr_chain(t) == ["self", f"_{o}_stale"] for t in n.targets) and isinstance(n.value, ast.Constant) and n.value.value is True:
                    return True
                return False
            sites = [st for st in ast.walk(fi.node) if trigger(st)]
            if not sites:
                continue
            n_order += len(sites)
            pending = MustFollow(trigger, discharge).run(fi.node)
            ctx.check(not pending, "TS-ORDER", f"{m}: the {o} view is invalidated after the in-place change of the {v} view ({len(sites)} site(s))", function=fi.qualname,
                      construct=f"the {o} view is not invalidated after the {v} view was changed in place",
                      message=f"`{short(pending[0][1], 70) if pending else ''}` is not followed by `self.invalidate_{o}()` on some path: an invalidation placed before the change "
                              f"does not cover a read of the {o} view made while the change runs", file=fi.file, node=pending[0][1] if pending else fi.node)
    ctx.floor("in-place changes of a view in Sequence's mutators (TS-ORDER)", n_order, 10)


def thorough(ctx: Ctx) -> None:
    """Thorough tier: the abstract transition system of the freshness state.  Nodes = freshness states (abs/rel flag),
    edges = (method, pre-state) -> post-states as computed by the typestate engine; the set reachable from the
    constructor's exit states under all public operations is computed and every reachable state is checked against the
    invariant (the induction of the quick tier, made explicit as a closure computation)."""
    eng = TypestateEngine(ctx.p, "Sequence")
    ci = eng.ci
    methods = [m for m, fi in ci.methods.items() if not fi.is_static and m not in PRIMITIVES and m != "__init__"]
    init_states = set()
    for a in (NONE, ("content", True)):
        for r in (NONE, ("content", True)):
            exits, problems, _ = eng.analyse_method("__init__", World(S, S, False, False), (a, r))
            for _, w, how in exits:
                if how != "raise":
                    init_states.add(w.core())
    table = {}
    reach = set(init_states)
    frontier = list(init_states)
    edges = 0
    while frontier:
        core = frontier.pop()
        for m in methods:
            exits, problems, _ = eng.analyse_method(m, World(*core))
            posts = sorted({w.core() for _, w, how in exits if how != "raise"})
            table[(m, core)] = posts
            edges += len(posts)
            for pc in posts:
                if pc not in reach:
                    reach.add(pc)
                    frontier.append(pc)
    bad = [c for c in reach if not World(*c).inv_ok()[0]]

    def show(c):
        return f"abs={'fresh' if c[0] == F else 'stale'}{'' if c[2] else '(outdated)'},rel={'fresh' if c[1] == F else 'stale'}{'' if c[3] else '(outdated)'}"
    ctx.extra["transition_system"] = {
        "initial_states": sorted(show(c) for c in init_states), "reachable_states": sorted(show(c) for c in reach),
        "states": len(reach), "transitions": edges, "methods": len(methods), "invalid_reachable": sorted(show(c) for c in bad)}
    ctx.check(not bad, "TS-CLOSURE", f"all {len(reach)} freshness states reachable from the constructor under {len(methods)} operations satisfy the invariant",
              function="Sequence", construct="an invalid freshness state is reachable from a constructed Sequence",
              message=f"{[show(c) for c in bad]}", file=ci.file, node=ci.node)
