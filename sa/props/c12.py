"""C12 -- saving to MIDI and loading back returns the same music (writer/reader agreement, delta-buffer discipline)."""
from __future__ import annotations

import ast

from ..astutil import attr_chain, call_method, short, src, enum_member, kwarg, ancestors
from ..model import walk_local, AnalysisError
from ..report import Ctx
from ..engines import tables, midi
from ..engines.typecase import TypeCase, events_matching


def _main_check(ctx: Ctx) -> None:
    p = ctx.p
    ctx.explanation = (
        "Structural necessary conditions of C12: ACC2 in MidiTrack.to_mido_track every message adds its time to the delta "
        "buffer at most once and outside the type dispatch; for every message type a path emits a mido message iff it resets "
        "the buffer, the emitted message's time is int(buffer) and the reset follows the emission; WAIT emits nothing; "
        "KINDS every kind the writer emits (note_on, note_off, time_signature, key_signature, control_change) has a reader "
        "branch in parse_mido_message producing the same MessageType from the same fields (note, velocity, numerator, "
        "denominator, key, control/value); velocity defaulting applies only to None; TAB every Key.value is a key name mido "
        "accepts and KeyKeyMapping maps it back to the same Key; RES the file resolution is set from the library PPQN; "
        "ORDER tracks are written and read in list order without filtering; every message of a sequence becomes a MidiMessage "
        "(field-wise, all 10 fields); DEFAULT 4/4 at tick 0 is added only when no signature sits at tick 0. "
        "Not decided: equality of loaded and saved note content; signature-in-force semantics.")
    ctx.assumptions += ["mido writes and reads delta times and meta messages as documented", "velocities 1..127 (hypothesis of the property)"]

    fi, loop, m, wt = midi.writer_table(p)
    ctx.analysed(fi)
    # no branch at all: the writer does not dispatch with tests on `message_type` (a table of builders, ...) -- outside the model, not
    # "nothing is written"; the accumulation rule below is still judged (it does not depend on how the kinds are told apart)
    ctx.floor(f"{fi.qualname}: branches of the writer selected by a test on message_type", len(wt), 1)
    for T_ in (("NOTE_ON", "NOTE_OFF", "TIME_SIGNATURE", "KEY_SIGNATURE", "CONTROL_CHANGE") if wt else ()):
        ctx.require("KINDS", f"{fi.qualname}: a branch selected by `message_type == {T_}` writes a mido message", 1 if T_ in wt else 0, 1, function=fi.qualname,
                    construct=f"the writer has no branch that emits {T_} events", message=f"branches found for {sorted(str(k) for k in wt)}: {T_} events are not written to the file",
                    file=fi.file, node=loop)
    if 0 < len(wt) < 5:
        return
    # --- ACC2
    # the delta buffer by role: the variable the emitted mido messages take their `time=` from
    buf = aug = None
    names = []
    for c_ in ast.walk(loop):
        if isinstance(c_, ast.Call) and src(c_.func) in ("mido.Message", "mido.MetaMessage"):
            t_ = kwarg(c_, "time")
            names += [x.id for x in ast.walk(t_) if isinstance(x, ast.Name) and x.id not in ("int", "round", "float", "max", "min", "abs")] if t_ is not None else []
    if names:
        buf = max(set(names), key=names.count)
    # a local that holds the message's time: `t = msg.time` / `t = getattr(msg, "time", None)`
    time_locals = {a.targets[0].id for a in ast.walk(loop) if isinstance(a, ast.Assign) and len(a.targets) == 1 and isinstance(a.targets[0], ast.Name)
                   and (src(a.value) == f"{m}.time" or (isinstance(a.value, ast.Call) and src(a.value.func) == "getattr" and len(a.value.args) == 3
                                                       and src(a.value.args[0]) == m and isinstance(a.value.args[1], ast.Constant) and a.value.args[1].value == "time"
                                                       and isinstance(a.value.args[2], ast.Constant) and a.value.args[2].value is None))
                   and sum(1 for x in ast.walk(loop) if isinstance(x, ast.Name) and x.id == a.targets[0].id and isinstance(x.ctx, ast.Store)) == 1}

    def _is_msg_time(e):
        return (isinstance(e, ast.Attribute) and e.attr == "time" and isinstance(e.value, ast.Name) and e.value.id == m) or (isinstance(e, ast.Name) and e.id in time_locals)
    for n in loop.body:
        for x in ast.walk(n):
            if isinstance(x, ast.AugAssign) and isinstance(x.op, ast.Add) and isinstance(x.target, ast.Name) and _is_msg_time(x.value) \
                    and (buf is None or x.target.id == buf):
                buf = x.target.id
                aug = x
    if buf is None:
        # no constructor in sight (the messages are built elsewhere): the local that starts at 0 before the loop and is assigned from the
        # message's time in it
        zero = {t_.id for s_ in fi.node.body if s_.lineno < loop.lineno and isinstance(s_, ast.Assign) and isinstance(s_.value, ast.Constant) and s_.value.value == 0
                for t_ in s_.targets if isinstance(t_, ast.Name)}
        for x in ast.walk(loop):
            if isinstance(x, (ast.Assign, ast.AugAssign)):
                tg = x.targets[0] if isinstance(x, ast.Assign) else x.target
                if isinstance(tg, ast.Name) and tg.id in zero and any(_is_msg_time(y) for y in ast.walk(x.value)):
                    buf = tg.id
    if buf is None:
        raise AnalysisError("MidiTrack.to_mido_track: delta-time buffer not found")
    if aug is None:
        ctx.violation("ACC2", f"{fi.qualname}: every message adds its time to `{buf}`", function=fi.qualname,
                      construct="the time of a message is never added to the delta buffer",
                      message=f"no `{buf} += {m}.time` in the loop: every event is written with delta 0 and all rests are lost", file=fi.file, node=loop)
    else:
        in_dispatch = any(isinstance(a, ast.If) and "message_type" in src(a.test) for a in ancestors(aug))
        ctx.check(not in_dispatch, "ACC2", f"{fi.qualname}: `{buf} += {m}.time` runs for every message kind", function=fi.qualname,
                  construct="delta buffer accumulation depends on the message kind", message="", file=fi.file, node=aug)
    inits = [s_ for s_ in fi.node.body if s_.lineno < loop.lineno and isinstance(s_, ast.Assign) and any(isinstance(t_, ast.Name) and t_.id == buf for t_ in s_.targets)]
    ctx.check(len(inits) == 1 and isinstance(inits[0].value, ast.Constant) and inits[0].value.value == 0 and not isinstance(inits[0].value.value, bool), "ACC2",
              f"{fi.qualname}: `{buf}` starts at 0", function=fi.qualname, construct="delta buffer does not start at 0",
              message=f"{[short(x) for x in inits]}: the first event of the track is shifted", file=fi.file, node=inits[0] if inits else loop)
    g = next((a for a in ancestors(aug) if isinstance(a, ast.If)), None) if aug is not None else None
    if g is not None:
        from .c07 import _nnf
        leaves = list(_nnf(g.test))
        in_body = any(aug is x for y in g.body for x in ast.walk(y))
        okl = in_body and bool(leaves)
        for leaf, neg in leaves:
            has_time = isinstance(leaf, ast.Call) and isinstance(leaf.func, ast.Name) and leaf.func.id == "hasattr" and not neg
            not_none = isinstance(leaf, ast.Compare) and isinstance(leaf.comparators[0], ast.Constant) and leaf.comparators[0].value is None \
                and _is_msg_time(leaf.left) and (isinstance(leaf.ops[0], ast.IsNot) != neg)
            # `getattr(msg, "time", None) is not None`: both tests in one
            getattr_form = isinstance(leaf, ast.Compare) and isinstance(leaf.comparators[0], ast.Constant) and leaf.comparators[0].value is None \
                and isinstance(leaf.left, ast.Call) and src(leaf.left.func) == "getattr" and len(leaf.left.args) == 3 and src(leaf.left.args[0]) == m \
                and isinstance(leaf.left.args[1], ast.Constant) and leaf.left.args[1].value == "time" \
                and isinstance(leaf.left.args[2], ast.Constant) and leaf.left.args[2].value is None and (isinstance(leaf.ops[0], ast.IsNot) != neg)
            okl = okl and (has_time or not_none or getattr_form)
        ok = okl and not any(isinstance(x, ast.BoolOp) and isinstance(x.op, ast.Or) for x in ast.walk(g.test))
        ctx.check(ok, "ACC2", f"{fi.qualname}: accumulation skipped only for messages without a time", function=fi.qualname,
                  construct="delta buffer accumulation guarded by an unrelated condition", message=short(g.test), file=fi.file, node=g)
    if not wt:
        return                  # what is emitted per kind is not readable off this writer (floor above)
    for T in p.enum_order("MessageType"):
        tc = TypeCase(p, fi, {m}, T)
        exits = tc.run_body(loop.body)
        augs = events_matching(exits, lambda e: e[0] == "aug" and e[1] == buf)
        app = events_matching(exits, lambda e: e[0] == "append" and e[1] != buf)
        rst = events_matching(exits, lambda e: e[0] == "set" and e[1] == buf)
        inst = f"{fi.qualname}: {T}: emits {app}, resets {rst}, accumulates {augs}"
        ctx.check(augs is not None and augs[1] <= 1 and augs[1] >= 1, "ACC2", inst, function=fi.qualname,
                  construct=f"{T}: time added to the delta buffer {augs} times", message="", file=fi.file, node=loop)
        ctx.check(app == rst and app in ((0, 0), (1, 1)), "ACC2", f"{fi.qualname}: {T}: buffer reset iff a message is emitted ({app} vs {rst})",
                  function=fi.qualname, construct=f"{T}: delta buffer reset {rst} but messages emitted {app}",
                  message="a reset without emission loses time; an emission without reset counts the time twice", file=fi.file, node=loop)
        if T == "WAIT":
            ctx.check(app == (0, 0), "ACC2", f"{fi.qualname}: WAIT emits nothing", function=fi.qualname, construct="WAIT emits a mido message",
                      message="", file=fi.file, node=loop)
        if T in ("NOTE_ON", "NOTE_OFF", "TIME_SIGNATURE", "KEY_SIGNATURE"):
            ctx.check(app == (1, 1), "KINDS", f"{fi.qualname}: {T} is written", function=fi.qualname, construct=f"{T} messages are not written to the file",
                      message=f"{app}", file=fi.file, node=loop)
    for T, (mtype, kws, call) in sorted(wt.items(), key=lambda kv: str(kv[0])):
        t = kws.get("time")
        ok = isinstance(t, ast.Call) and isinstance(t.func, ast.Name) and t.func.id == "int" and isinstance(t.args[0], ast.Name) and t.args[0].id == buf
        ok = ok or (isinstance(t, ast.Name) and t.id == buf)
        ctx.check(ok, "ACC2", f"{fi.qualname}: {T} is written with time=int({buf})", function=fi.qualname,
                  construct=f"{T}: emitted delta time is not the buffer", message=short(t), file=fi.file, node=call)
        # reset after emission in the same block
        emit = _stmt_of(call)
        if isinstance(emit, ast.Assign) and len(emit.targets) == 1 and isinstance(emit.targets[0], ast.Name) and emit.value is call:
            # built into a local first: the emission is where that local is appended
            held = emit.targets[0].id
            apps = [x for x in ast.walk(loop) if isinstance(x, ast.Expr) and isinstance(x.value, ast.Call) and call_method(x.value)[1] == "append"
                    and x.value.args and isinstance(x.value.args[0], ast.Name) and x.value.args[0].id == held]
            if len(apps) == 1:
                emit = apps[0]
        blk = _block_of(emit)
        i = blk.index(emit)
        later = [s for s in blk[i + 1:] if isinstance(s, ast.Assign) and any(isinstance(x, ast.Name) and x.id == buf for x in s.targets)
                 and isinstance(s.value, ast.Constant) and s.value.value == 0]
        ctx.check(bool(later), "ACC2", f"{fi.qualname}: {T}: buffer reset after the emission", function=fi.qualname,
                  construct=f"{T}: delta buffer not reset to 0 after emitting", message="", file=fi.file, node=call)

    # --- KINDS
    rfi, sp, rt = midi.reader_table(p)
    ctx.analysed(rfi)
    ctx.floor("reader dispatch cases decided", midi.parse_rule(ctx), 18)
    from ..engines.structure import times_of_type_rule
    ctx.floor("signature look-up helper obligations", times_of_type_rule(ctx), 4)
    field_map = {
        "NOTE_ON": {"note": "note", "velocity": "velocity"},
        "NOTE_OFF": {"note": "note"},
        "TIME_SIGNATURE": {"numerator": "numerator", "denominator": "denominator"},
        "KEY_SIGNATURE": {"key": "key"},
        "CONTROL_CHANGE": {"control": "control", "value": "velocity"},
    }
    for T, (mtype, kws, call) in sorted(wt.items(), key=lambda kv: str(kv[0])):
        inst = f"writer {T} -> '{mtype}'"
        expected_name = {"NOTE_ON": "note_on", "NOTE_OFF": "note_off", "TIME_SIGNATURE": "time_signature", "KEY_SIGNATURE": "key_signature",
                         "CONTROL_CHANGE": "control_change", "PROGRAM_CHANGE": "program_change"}.get(T)
        ctx.check(mtype == expected_name, "KINDS", inst + " uses the mido kind of the same name", function=fi.qualname,
                  construct=f"{T} written as mido kind '{mtype}'", message="", file=fi.file, node=call)
        readers = rt.get(mtype, [])
        same = [r for r in readers if r[0] == T]
        ctx.check(bool(same), "KINDS", inst + f": reader maps '{mtype}' back to {T}", function=rfi.qualname,
                  construct=f"reader has no branch turning '{mtype}' into {T}", message=f"reader kinds for '{mtype}': {[r[0] for r in readers]}",
                  file=rfi.file, node=rfi.node)
        for kw, attr in field_map.get(T, {}).items():
            w = kws.get(kw)
            wok = w is not None and any(isinstance(a, ast.Attribute) and a.attr == attr and isinstance(a.value, ast.Name) and a.value.id == m for a in ast.walk(w))
            ctx.check(wok, "KINDS", inst + f": field {kw} written from {m}.{attr}", function=fi.qualname,
                      construct=f"{T}: mido field `{kw}` not written from the message's `{attr}`", message=short(w), file=fi.file, node=call)
            for r in same:
                e = r[1].get(attr)
                rok = e is not None and any(isinstance(a, ast.Attribute) and a.attr == kw and isinstance(a.value, ast.Name) and a.value.id == sp for a in ast.walk(e))
                ctx.check(rok, "KINDS", f"reader '{mtype}': {attr} read from mido field {kw}", function=rfi.qualname,
                          construct=f"reader fills `{attr}` of {T} from something other than mido field `{kw}`", message=short(e), file=rfi.file, node=rfi.node)
    # velocity default only for None
    on = wt.get("NOTE_ON")
    if on:
        v = on[1].get("velocity")
        ok = isinstance(v, ast.IfExp) and "is not None" in src(v.test) and src(v.body).endswith(".velocity")
        ok = ok or (isinstance(v, ast.IfExp) and "is None" in src(v.test) and "is not None" not in src(v.test) and src(v.orelse).endswith(".velocity"))
        ok = ok or (isinstance(v, ast.Attribute) and v.attr == "velocity")
        ctx.check(ok, "KINDS", "writer: velocity replaced by a default only when it is None", function=fi.qualname,
                  construct="note-on velocity overridden for non-None values", message=short(v), file=fi.file, node=on[2])
    ks = wt.get("KEY_SIGNATURE")
    if ks:
        k = ks[1].get("key")
        ctx.check(k is not None and src(k) == f"{m}.key.value", "KINDS", "writer: key written as Key.value", function=fi.qualname,
                  construct="key signature not written as the key's name", message=short(k), file=fi.file, node=ks[2])
    # --- TAB
    t = tables.check_tables(ctx, rules=("KKM",))
    names = tables.mido_key_names()
    if names is None:
        ctx.undetermined("TAB-MIDO", "Key.value accepted by mido", "mido source not found")
    else:
        for kname, val in t.key.items():
            ctx.check(val in names, "TAB-MIDO", f"Key.{kname} = {val!r} is a key name mido can encode", function="Key",
                      construct=f"Key.{kname} has a value mido rejects", message=f"{val!r} not in mido's table", file=t.file, node=p.cls("Key").node)
    # --- RES
    sv = p.func("MidiFile.save")
    ctx.analysed(sv)
    res = [s for s in walk_local(sv.node) if isinstance(s, ast.Assign) and any(isinstance(x, ast.Attribute) and x.attr == "ticks_per_beat" for x in s.targets)]
    # ... or hands it to mido's constructor
    ctor_res = [kwarg(c, "ticks_per_beat") for c in walk_local(sv.node) if isinstance(c, ast.Call) and src(c.func) == "mido.MidiFile" and kwarg(c, "ticks_per_beat") is not None]
    ctx.check((len(res) == 1 and not ctor_res and isinstance(res[0].value, ast.Name) and res[0].value.id == "PPQN")
              or (not res and len(ctor_res) == 1 and isinstance(ctor_res[0], ast.Name) and ctor_res[0].id == "PPQN"), "RES", "MidiFile.save sets ticks_per_beat = PPQN",
              function=sv.qualname, construct="file resolution not set from the library resolution", message=f"{[short(s) for s in res]}",
              file=sv.file, node=sv.node)
    # --- WRITE: the file is actually written, to the path that was given, on every call
    from ..astutil import path_conditions, early_exits_before
    ss = p.func("Sequence.sequences_save")
    for f2, recv_is, what in ((sv, "mido.MidiFile", "MidiFile.save hands the assembled mido file to mido's save(path)"),
                              (ss, "MidiFile", "sequences_save writes the assembled MidiFile to the given path")):
        path_p = f2.params[-1] if f2 is ss else f2.params[1]
        built = {a.targets[0].id for a in walk_local(f2.node) if isinstance(a, ast.Assign) and isinstance(a.targets[0], ast.Name) and isinstance(a.value, ast.Call)
                 and src(a.value.func) == recv_is}
        calls = [c for c in walk_local(f2.node) if isinstance(c, ast.Call) and call_method(c)[1] == "save" and isinstance(call_method(c)[0], ast.Name)
                 and call_method(c)[0].id in built]
        ok = len(calls) == 1 and len(calls[0].args) == 1 and isinstance(calls[0].args[0], ast.Name) and calls[0].args[0].id == path_p \
            and not path_conditions(calls[0]) and not early_exits_before(f2.node, calls[0]) and not any(isinstance(a, (ast.For, ast.While)) for a in ancestors(calls[0]))
        ctx.check(ok, "WRITE", f"{f2.qualname}: {what}", function=f2.qualname, construct=f"{f2.qualname} does not write the file to the given path on every call",
                  message=f"save calls on the object built here: {[short(c) for c in calls]}", file=f2.file, node=calls[0] if calls else f2.node)
    # --- ORDER
    for q, itname, what in (("MidiFile.save", ["self", "tracks"], "to_mido_track"), ("MidiFile.parse_mido", None, "parse_mido_track"),
                            ("Sequence.sequences_save", None, "to_midi_track"), ("RelativeSequence.to_midi_track", ["self", "_messages"], "parse_internal_message"),
                            ("MidiTrack.parse_mido_track", None, "parse_mido_message")):
        f2 = p.func(q)
        ctx.analysed(f2)
        lp = next((n for n in walk_local(f2.node) if isinstance(n, ast.For)), None)
        ok = lp is not None
        whole = [c for c in walk_local(f2.node) if isinstance(c, ast.ListComp) and len(c.generators) == 1 and not c.generators[0].ifs
                 and isinstance(c.generators[0].target, ast.Name) and isinstance(c.elt, ast.Call) and call_method(c.elt)[1] == what
                 and (src(call_method(c.elt)[0]) == c.generators[0].target.id or [src(a) for a in c.elt.args] == [c.generators[0].target.id])
                 and (itname is None or attr_chain(c.generators[0].iter) == itname)]
        if lp is None and len(whole) == 1 and not any(isinstance(c, ast.Call) and call_method(c)[1] == what and all(c is not x for x in ast.walk(whole[0]))
                                                        for c in walk_local(f2.node)):
            # the whole list converted in one comprehension -- every element, in order, once -- and handed on as it is
            ctx.ok("ORDER", f"{q}: converts every element, in order, exactly once (`{short(whole[0], 70)}`)")
            continue
        if ok:
            tc = TypeCase(p, f2, set(), None)
            exits = tc.run_body(lp.body)
            rng = events_matching(exits, lambda e: e[0] == "append")
            calls = [c for c in ast.walk(lp) if isinstance(c, ast.Call) and call_method(c)[1] == what]
            ok = rng == (1, 1) and {k for k, _ in exits} == {"end"} and bool(calls) and not isinstance(lp.iter, (ast.ListComp, ast.GeneratorExp)) \
                and not (isinstance(lp.iter, ast.Call) and isinstance(lp.iter.func, ast.Name) and lp.iter.func.id in ("reversed", "sorted", "filter"))
        ctx.check(ok, "ORDER", f"{q}: converts every element, in order, exactly once", function=q,
                  construct=f"{q} filters, reorders or skips elements", message="", file=f2.file, node=lp or f2.node)
    # --- DEFAULT (convert)
    cv = p.func("MidiFile.convert")
    ctx.analysed(cv)
    dflt = [c for c in ast.walk(cv.node) if isinstance(c, ast.Call) and isinstance(c.func, ast.Name) and c.func.id == "Message"
            and enum_member(kwarg(c, "message_type"), "MessageType") == "TIME_SIGNATURE" and isinstance(kwarg(c, "numerator"), ast.Constant)]
    ok = len(dflt) == 1 and kwarg(dflt[0], "numerator").value == 4 and isinstance(kwarg(dflt[0], "denominator"), ast.Constant) and kwarg(dflt[0], "denominator").value == 4 \
        and isinstance(kwarg(dflt[0], "time"), ast.Constant) and kwarg(dflt[0], "time").value == 0
    ctx.check(ok, "DEFAULT", "convert: default signature is 4/4 at tick 0", function=cv.qualname, construct="default time signature is not 4/4 at tick 0",
              message=f"{[short(c, 80) for c in dflt]}", file=cv.file, node=cv.node)
    if dflt:
        g = next((a for a in ancestors(dflt[0]) if isinstance(a, ast.If)), None)
        def no_signature_at_zero(t):
            """`not any(<time of entry> == 0 for entry in <time-signature timings>)` or `all(<time of entry> != 0 for ...)`"""
            neg = False
            if isinstance(t, ast.UnaryOp) and isinstance(t.op, ast.Not):
                neg, t = True, t.operand
            if not (isinstance(t, ast.Call) and isinstance(t.func, ast.Name) and t.func.id in ("any", "all") and len(t.args) == 1
                    and isinstance(t.args[0], ast.GeneratorExp) and len(t.args[0].generators) == 1 and not t.args[0].generators[0].ifs):
                return False
            ge, gen = t.args[0], t.args[0].generators[0]
            if "TIME_SIGNATURE" not in src(gen.iter) or "get_message_times_of_type" not in src(gen.iter):
                return False
            c_ = ge.elt
            if not (isinstance(c_, ast.Compare) and len(c_.ops) == 1 and isinstance(c_.comparators[0], ast.Constant) and c_.comparators[0].value == 0
                    and not isinstance(c_.comparators[0].value, bool)):
                return False
            first = (isinstance(gen.target, ast.Name) and src(c_.left) == f"{gen.target.id}[0]") or \
                (isinstance(gen.target, ast.Tuple) and gen.target.elts and isinstance(gen.target.elts[0], ast.Name) and src(c_.left) == gen.target.elts[0].id)
            if not first:
                return False
            if t.func.id == "any":
                return neg and isinstance(c_.ops[0], ast.Eq)
            return (not neg) and isinstance(c_.ops[0], ast.NotEq)
        ok = g is not None and no_signature_at_zero(g.test)
        from ..astutil import extra_conditions
        ok = ok and not extra_conditions(dflt[0], g.test)
        ctx.check(ok, "DEFAULT", "convert: default added only when no time signature sits at tick 0", function=cv.qualname,
                  construct="default time signature added under another condition", message=short(getattr(g, "test", None), 100), file=cv.file, node=g or cv.node)


def _stmt_of(n: ast.AST) -> ast.stmt:
    while not isinstance(n, ast.stmt):
        n = n._parent
    return n


def _block_of(n: ast.AST) -> list[ast.stmt]:
    par = getattr(n, "_parent", None)
    for fld in ("body", "orelse", "finalbody"):
        b = getattr(par, fld, None)
        if isinstance(b, list) and n in b:
            return b
    return [n]


def check(ctx: Ctx) -> None:
    _main_check(ctx)
    from .common import view_deps
    view_deps(ctx)
