"""C07 -- normalise returns a well-formed sequence with the same duration and sound (structural clauses)."""
from __future__ import annotations

import ast

from ..astutil import attr_chain, call_method, short, src, enum_member, kwarg, ancestors
from ..model import walk_local, AnalysisError
from ..report import Ctx
from ..engines import keykind
from ..engines.typecase import TypeCase, events_matching
from .c05 import message_loop, output_list_name
from .c08 import msg_ctor_calls

FN = "RelativeSequence.normalise_relative"


def find_accumulator(fn: ast.FunctionDef, loop: ast.For) -> str | None:
    m = loop.target.id
    for n in ast.walk(loop):
        if isinstance(n, ast.AugAssign) and isinstance(n.op, ast.Add) and isinstance(n.target, ast.Name) \
                and isinstance(n.value, ast.Attribute) and n.value.attr == "time" and isinstance(n.value.value, ast.Name) and n.value.value.id == m:
            return n.target.id
    return None


def is_flush_append(s: ast.stmt, acc: str, out: str) -> bool:
    """`out.append(Message(message_type=WAIT, ..., time=acc))`"""
    if not (isinstance(s, ast.Expr) and isinstance(s.value, ast.Call)):
        return False
    recv, name = call_method(s.value)
    if not (isinstance(recv, ast.Name) and recv.id == out and name == "append" and s.value.args):
        return False
    a = s.value.args[0]
    if not (isinstance(a, ast.Call) and isinstance(a.func, ast.Name) and a.func.id == "Message"):
        return False
    t = kwarg(a, "time")
    mt = kwarg(a, "message_type")
    return isinstance(t, ast.Name) and t.id == acc and mt is not None and enum_member(mt, "MessageType") == "WAIT"


def check(ctx: Ctx) -> None:
    _check(ctx)
    from ..engines.typestate import check_wrappers
    check_wrappers(ctx, ['normalise'])


def _check(ctx: Ctx) -> None:
    p = ctx.p
    fi = p.func(FN)
    ctx.analysed(fi)
    ctx.explanation = (
        "Structural necessary conditions of C07 on RelativeSequence.normalise_relative: KEY1/KEY2 the open-note stacks are "
        "indexed consistently by channel then pitch, including in the unclosed-note clean-up; ACC1 wait time is conserved: "
        "every WAIT adds its time to the accumulator exactly once and is not copied, the accumulator is reset only right "
        "after a WAIT message carrying its value was emitted, it is never reset on a path that skips a message, it is "
        "flushed before every kept message and once more after the loop; KEEP every non-note, non-signature message is "
        "appended exactly once, notes at most once with both a keep and a skip path; STACK the keep/skip decision of NOTE_ON / NOTE_OFF as a function of the number of open notes of the (channel, pitch) (0, 1, several), decided with the stack length tracked concretely: open / drop re-trigger / drop orphan / close outermost / drop inner; the stack is popped last-in-first-out and what is left on it at the end is removed from the output; SIG the repeated-signature filter "
        "compares the event with the variables that hold the signature in force and updates exactly those on the keep path, "
        "skipping otherwise; OUT the rebuilt list becomes the event list. "
        "Not decided: idempotence, sounding-set equality for paired input.")
    ctx.assumptions += ["message times are non-negative integers"]
    keykind.check_function(ctx, FN, "KEY", expect_min=1)

    loop = message_loop(fi.node)
    out = output_list_name(fi.node)
    if loop is not None and out is None:
        ctx.violation("KEEP", f"{FN}: the result list is installed as the sequence's event list", function=FN,
                      construct="the operation never installs its result (`self._messages = <result list>` is missing)",
                      message="the rebuilt list is dropped on return: the sequence is left exactly as it was", file=fi.file, node=fi.node)
        return
    if loop is None or out is None:
        raise AnalysisError(f"{FN}: message loop / output list not found")
    m = loop.target.id
    # FR: normalising builds a new list; it never writes into the messages it was given (a message object may occur more than
    # once in a sequence -- concatenate shares objects -- so an in-place edit of an input message shows up at every occurrence)
    from ..engines.effects import Effects
    eff = Effects(p)
    ws = eff.writes("RelativeSequence", "normalise_relative")
    attr_ws = [w for w in ws if w.kind == "attr"]
    ctx.check(not attr_ws, "FR", f"{FN}: no attribute of an existing message is written", function=FN,
              construct="normalise writes into the messages of its input",
              message=f"{[(w.attr, short(w.node, 50)) for w in attr_ws][:3]}: an input message that occurs twice (or is shared with another sequence) is "
                      f"changed at every occurrence", file=fi.file, node=attr_ws[0].node if attr_ws else fi.node)
    acc = find_accumulator(fi.node, loop)
    if acc is None:
        ctx.require("ACC1", f"{FN}: every WAIT adds its time to the accumulated wait", 0, 1, function=FN,
                    construct="the normaliser never adds a wait's time to an accumulator",
                    message=f"no `x += {m}.time` in the loop over the messages: the time of the waits is lost (or the waits are handled in a way this rule does not know)",
                    file=fi.file, node=loop)
        return
    ctx.ok("OUT", f"{FN}: `{out}` becomes the event list")

    types = p.enum_order("MessageType")
    for T in types:
        tc = TypeCase(p, fi, {m}, T)
        exits = tc.run_body(loop.body)
        kinds = {k for k, _ in exits}
        app_msg = events_matching(exits, lambda e: e[0] == "append" and e[1] == out and e[2] == "msg", kinds=("end",))
        app_msg_skip = events_matching(exits, lambda e: e[0] == "append" and e[1] == out and e[2] == "msg", kinds=("continue",))
        aug_all = events_matching(exits, lambda e: e[0] == "aug" and e[1] == acc)
        reset_skip = events_matching(exits, lambda e: e[0] == "set" and e[1] == acc, kinds=("continue",))
        inst = f"{FN}: {T}"
        if T == "WAIT":
            ctx.check(aug_all == (1, 1), "ACC1", inst + f": adds its time to `{acc}` exactly once {aug_all}", function=FN,
                      construct="a WAIT does not add its time to the accumulator exactly once",
                      message=f"`{acc} += {m}.time` happens {aug_all} times for a WAIT message: duration not conserved", file=fi.file, node=loop)
            any_app = events_matching(exits, lambda e: e[0] == "append" and e[1] == out)
            ctx.check(any_app in (None, (0, 0)), "ACC1", inst + f": is not copied to the output {any_app}", function=FN,
                      construct="a WAIT is copied to the output as well as accumulated", message=f"{any_app}", file=fi.file, node=loop)
            rs = events_matching(exits, lambda e: e[0] == "set" and e[1] == acc)
            ctx.check(rs in (None, (0, 0)), "ACC1", inst + ": does not reset the accumulator", function=FN,
                      construct="accumulator reset while processing a WAIT", message=f"{rs}", file=fi.file, node=loop)
            continue
        ctx.check(aug_all in (None, (0, 0)), "ACC1", inst + f": does not touch the accumulator's sum {aug_all}", function=FN,
                  construct=f"{T} message changes the wait accumulator", message=f"{aug_all}", file=fi.file, node=loop)
        ctx.check(reset_skip in (None, (0, 0)), "ACC1", inst + ": accumulator not reset on a path that skips the message", function=FN,
                  construct="wait accumulator reset on a skip path",
                  message=f"on a `continue` path the accumulated wait is discarded {reset_skip}: duration shrinks", file=fi.file, node=loop)
        ctx.check(app_msg_skip in (None, (0, 0)), "KEEP", inst + ": a skipped message is not appended", function=FN,
                  construct="message appended on a skip path", message=f"{app_msg_skip}", file=fi.file, node=loop)
        if T in ("NOTE_ON", "NOTE_OFF", "TIME_SIGNATURE", "KEY_SIGNATURE"):
            ctx.check("continue" in kinds and "end" in kinds and app_msg == (1, 1), "KEEP",
                      inst + f": has a skip path and a keep path appending it once {app_msg}", function=FN,
                      construct=f"{T}: keep/skip structure missing",
                      message=f"exits {sorted(kinds)}, appends on keep path {app_msg}", file=fi.file, node=loop)
        else:
            ctx.check("continue" not in kinds and app_msg == (1, 1), "KEEP", inst + f": always kept, appended exactly once {app_msg}",
                      function=FN, construct="non-note, non-signature message not kept exactly once",
                      message=f"exits {sorted(kinds)}, appends {app_msg}", file=fi.file, node=loop)

    stack_rules(ctx, fi, loop, out)

    # --- ACC1: resets are dominated by a flush in the same block; flush precedes the kept message; final flush
    resets = [n for n in ast.walk(loop) if isinstance(n, ast.Assign) and any(isinstance(t, ast.Name) and t.id == acc for t in n.targets)]
    for r in resets:
        blk = _block_of(r)
        i = blk.index(r)
        ok = isinstance(r.value, ast.Constant) and r.value.value == 0 and any(is_flush_append(s, acc, out) for s in blk[:i])
        ctx.check(ok, "ACC1", f"{FN}: `{short(r)}` follows the emission of the accumulated wait", function=FN,
                  construct="wait accumulator reset without emitting its value first",
                  message="the accumulated wait is dropped: total duration shrinks", file=fi.file, node=r)
    flushes = [s for s in ast.walk(loop) if isinstance(s, ast.stmt) and is_flush_append(s, acc, out)]
    ctx.check(bool(flushes), "ACC1", f"{FN}: accumulated wait emitted inside the loop", function=FN,
              construct="accumulated wait never emitted inside the loop", message="", file=fi.file, node=loop)
    # the accumulator starts empty
    inits = [s_ for s_ in fi.node.body if isinstance(s_, ast.Assign) and any(isinstance(t, ast.Name) and t.id == acc for t in s_.targets)
             and s_.lineno < loop.lineno]
    ctx.check(len(inits) == 1 and isinstance(inits[0].value, ast.Constant) and inits[0].value.value == 0 and not isinstance(inits[0].value.value, bool), "ACC1",
              f"{FN}: `{acc}` starts at 0", function=FN, construct="wait accumulator does not start at 0",
              message=f"{[short(x) for x in inits]}: the first emitted wait would be off by the initial value", file=fi.file, node=inits[0] if inits else loop)
    for f in flushes:
        # an emitted wait is taken out of the accumulator before anything else can be added to it
        blk_f = _block_of(f)
        i_f = blk_f.index(f)
        nxt_reset = [s_ for s_ in blk_f[i_f + 1:] if isinstance(s_, ast.Assign) and any(isinstance(t, ast.Name) and t.id == acc for t in s_.targets)
                     and isinstance(s_.value, ast.Constant) and s_.value.value == 0]
        ctx.check(bool(nxt_reset), "ACC1", f"{FN}: the accumulator is emptied right after its value was emitted", function=FN,
                  construct="wait accumulator not reset after an in-loop flush",
                  message="the same ticks would be emitted again with the next event: the sequence grows longer", file=fi.file, node=f)
        g = getattr(f, "_parent", None)
        okg = isinstance(g, ast.If) and _is_positive_test(g.test, acc)
        ctx.check(okg, "ACC1", f"{FN}: in-loop flush guarded only by `{acc} > 0`", function=FN,
                  construct="in-loop flush of the wait accumulator has a different guard", message=f"`{short(getattr(g, 'test', None))}`",
                  file=fi.file, node=f)
        # the flush block precedes the append of the kept message in the same block
        if isinstance(g, ast.If):
            blk = _block_of(g)
            i = blk.index(g)
            later = [s for s in blk[i + 1:] if isinstance(s, ast.Expr) and isinstance(s.value, ast.Call) and call_method(s.value)[1] == "append"
                     and isinstance(call_method(s.value)[0], ast.Name) and call_method(s.value)[0].id == out
                     and s.value.args and isinstance(s.value.args[0], ast.Name) and s.value.args[0].id == m]
            earlier = [s for s in blk[:i] if isinstance(s, ast.Expr) and isinstance(s.value, ast.Call) and call_method(s.value)[1] == "append"
                       and isinstance(call_method(s.value)[0], ast.Name) and call_method(s.value)[0].id == out
                       and s.value.args and isinstance(s.value.args[0], ast.Name) and s.value.args[0].id == m]
            ctx.check(bool(later) and not earlier, "ACC1", f"{FN}: the wait is emitted before the kept message", function=FN,
                      construct="kept message appended before the accumulated wait", message="the event would move earlier in time",
                      file=fi.file, node=g)
    after = [s for s in fi.node.body if getattr(s, "lineno", 0) > loop.end_lineno]
    final = [s for s in after for x in ast.walk(s) if isinstance(x, ast.stmt) and is_flush_append(x, acc, out)]
    okf = False
    for s in after:
        if isinstance(s, ast.If) and _is_positive_test(s.test, acc) and any(is_flush_append(x, acc, out) for x in s.body):
            okf = True
        if is_flush_append(s, acc, out):
            okf = True
    ctx.check(okf, "ACC1", f"{FN}: trailing wait emitted after the loop", function=FN,
              construct="wait accumulated at the end of the sequence is never emitted",
              message="a trailing rest is dropped: total duration shrinks", file=fi.file, node=fi.node)

    sig_rules(ctx, fi, loop, m)


def _nnf(e: ast.AST, neg: bool = False):
    if isinstance(e, ast.UnaryOp) and isinstance(e.op, ast.Not):
        yield from _nnf(e.operand, not neg)
    elif isinstance(e, ast.BoolOp):
        for v in e.values:
            yield from _nnf(v, neg)
    else:
        yield e, neg


SIG_ATTRS = {"TIME_SIGNATURE": ("numerator", "denominator"), "KEY_SIGNATURE": ("key",)}


class _SigInterp:
    """Runs the loop body of the normaliser for a short series of *symbolic* signature events and reports, per path, whether
    the last one is appended to the output.  Values: ("c", const), ("enum", member), ("a", k, attr) the attribute of event k,
    ("t", (...)) tuples, ("d", name) a dict local (contents in `dicts`), ("u", n) unknown.  The only atoms are `event 2's
    component == event 1's component`, fixed by the world; a test the values do not decide forks the path and marks it undecided
    when it compares things the world says nothing about."""

    def __init__(self, m: str, world: dict):
        self.m = m
        self.world = world
        self.fresh = 0

    def unknown(self):
        self.fresh += 1
        return ("u", self.fresh)

    # -- values
    def ev(self, e, st):
        k, T = st["k"], st["T"]
        if isinstance(e, ast.Constant):
            return ("c", e.value)
        if isinstance(e, ast.Name):
            if e.id == self.m:
                return ("m", k)
            return st["env"].get(e.id, self.unknown())
        if isinstance(e, ast.Attribute):
            mem = enum_member(e, "MessageType")
            if mem is not None:
                return ("enum", mem)
            if isinstance(e.value, ast.Name) and e.value.id == self.m and k is not None:
                if e.attr == "message_type":
                    return ("enum", T)
                if e.attr in ("numerator", "denominator", "key"):
                    return ("a", k, e.attr) if e.attr in SIG_ATTRS[T] else ("c", None)
                return ("o", k, e.attr)                       # some other field of the event: opaque
            return self.unknown()
        if isinstance(e, ast.Tuple):
            return ("t", tuple(self.ev(x, st) for x in e.elts))
        if isinstance(e, ast.Call):
            recv, name = call_method(e)
            if isinstance(recv, ast.Name) and st["env"].get(recv.id, (None,))[0] == "d" and name == "get" and 1 <= len(e.args) <= 2 and not e.keywords:
                d = st["dicts"].get(recv.id)
                key = self.ev(e.args[0], st)
                if d is None or self._has_unknown(key):
                    return self.unknown()
                if key in d:
                    return d[key]
                return self.ev(e.args[1], st) if len(e.args) == 2 else ("c", None)
            return self.unknown()
        if isinstance(e, ast.Subscript) and isinstance(e.value, ast.Name) and st["env"].get(e.value.id, (None,))[0] == "d":
            d = st["dicts"].get(e.value.id)
            key = self.ev(e.slice, st)
            if d is not None and not self._has_unknown(key) and key in d:
                return d[key]
            return self.unknown()
        if isinstance(e, ast.Subscript) and isinstance(e.slice, ast.Constant) and isinstance(e.slice.value, int):
            v = self.ev(e.value, st)
            if v[0] == "t" and -len(v[1]) <= e.slice.value < len(v[1]):
                return v[1][e.slice.value]
        return self.unknown()

    def _has_unknown(self, v):
        return v[0] in ("u", "o") or (v[0] == "t" and any(self._has_unknown(x) for x in v[1]))

    def equal(self, a, b, st):
        """True / False / None (not decided); marks the path when undecided"""
        if a == b and not self._has_unknown(a):
            return True
        if a[0] == "t" and b[0] == "t":
            if len(a[1]) != len(b[1]):
                return False
            rs = [self.equal(x, y, st) for x, y in zip(a[1], b[1])]
            return False if any(r is False for r in rs) else (True if all(r is True for r in rs) else None)
        if a[0] == "a" and b[0] == "a":
            if a[2] == b[2] and {a[1], b[1]} == {1, 2}:
                return self.world[a[2]]
            return None
        for x, y in ((a, b), (b, a)):
            if x[0] == "a" and y[0] == "c":
                return False if y[1] is None else None        # a component of a signature event is never None; it may equal another constant
            if x[0] in ("t", "enum", "d", "m") and y[0] == "c":
                return False
        if a[0] == "c" and b[0] == "c":
            return a[1] == b[1]
        if a[0] == "enum" and b[0] == "enum":
            return a[1] == b[1]
        if {a[0], b[0]} <= {"a", "t", "enum", "c", "d", "m"} and a[0] != b[0]:
            return False
        return None

    def truth(self, t, st):
        if isinstance(t, ast.UnaryOp) and isinstance(t.op, ast.Not):
            v = self.truth(t.operand, st)
            return None if v is None else not v
        if isinstance(t, ast.BoolOp):
            vs = [self.truth(v, st) for v in t.values]
            if isinstance(t.op, ast.And):
                return False if any(v is False for v in vs) else (True if all(v is True for v in vs) else None)
            return True if any(v is True for v in vs) else (False if all(v is False for v in vs) else None)
        if isinstance(t, ast.Compare) and len(t.ops) == 1:
            op = t.ops[0]
            if isinstance(op, (ast.Eq, ast.NotEq, ast.Is, ast.IsNot)):
                r = self.equal(self.ev(t.left, st), self.ev(t.comparators[0], st), st)
                return None if r is None else (r == isinstance(op, (ast.Eq, ast.Is)))
            if isinstance(op, (ast.In, ast.NotIn)):
                right = t.comparators[0]
                l_ = self.ev(t.left, st)
                if isinstance(right, (ast.Tuple, ast.List, ast.Set)):
                    rs = [self.equal(l_, self.ev(x, st), st) for x in right.elts]
                    r = True if any(x is True for x in rs) else (False if all(x is False for x in rs) else None)
                    return None if r is None else (r == isinstance(op, ast.In))
                if isinstance(right, ast.Name) and st["env"].get(right.id, (None,))[0] == "d" and st["dicts"].get(right.id) is not None \
                        and not self._has_unknown(l_):
                    return (l_ in st["dicts"][right.id]) == isinstance(op, ast.In)
        if isinstance(t, ast.Constant):
            return bool(t.value)
        return None

    # -- statements
    @staticmethod
    def _copy(st, **kw):
        d = dict(st)
        d["env"] = dict(st["env"])
        d["dicts"] = {k: (None if v is None else dict(v)) for k, v in st["dicts"].items()}
        d.update(kw)
        return d

    def _touches(self, t, st):
        """does an undecided test compare signature material (so that the verdict depends on it)?"""
        for x in ast.walk(t):
            if isinstance(x, ast.Attribute) and x.attr in ("numerator", "denominator", "key"):
                return True
            if isinstance(x, ast.Name) and x.id in st["sig_names"]:
                return True
        return False

    def run(self, stmts, st):
        states = [st]
        for s_ in stmts:
            nxt = []
            for cur in states:
                if cur["status"] != "run":
                    nxt.append(cur)
                    continue
                nxt += self.step(s_, cur)
            states = nxt
            if len(states) > 256:
                raise AnalysisError("SIG: more than 256 paths through the normaliser's loop body")
        return states

    def step(self, s_, st):
        if isinstance(s_, ast.If):
            v = self.truth(s_.test, st)
            if v is None:
                und = st["undecided"] or self._touches(s_.test, st)
                return self.run(s_.body, self._copy(st, undecided=und)) + self.run(s_.orelse, self._copy(st, undecided=und))
            return self.run(s_.body if v else s_.orelse, st)
        if isinstance(s_, ast.Continue):
            return [self._copy(st, status="continue")]
        if isinstance(s_, (ast.Break, ast.Return, ast.Raise)):
            return [self._copy(st, status="left")]
        if isinstance(s_, ast.Assign) and len(s_.targets) == 1:
            t_, v_ = s_.targets[0], s_.value
            if isinstance(t_, ast.Name):
                if (isinstance(v_, ast.Call) and isinstance(v_.func, ast.Name) and v_.func.id == "dict" and not v_.args and not v_.keywords) \
                        or (isinstance(v_, ast.Dict) and not v_.keys):
                    st["env"][t_.id] = ("d", t_.id)
                    st["dicts"][t_.id] = {}
                else:
                    val = self.ev(v_, st)
                    st["env"][t_.id] = val
                    if self._sig_material(val):
                        st["sig_names"] = st["sig_names"] | {t_.id}
                return [st]
            if isinstance(t_, ast.Tuple) and isinstance(v_, ast.Tuple) and len(t_.elts) == len(v_.elts) and all(isinstance(x, ast.Name) for x in t_.elts):
                vals = [self.ev(x, st) for x in v_.elts]
                for x, val in zip(t_.elts, vals):
                    st["env"][x.id] = val
                    if self._sig_material(val):
                        st["sig_names"] = st["sig_names"] | {x.id}
                return [st]
            if isinstance(t_, ast.Subscript) and isinstance(t_.value, ast.Name) and st["env"].get(t_.value.id, (None,))[0] == "d":
                key = self.ev(t_.slice, st)
                val = self.ev(v_, st)
                if st["dicts"].get(t_.value.id) is None or self._has_unknown(key):
                    st["dicts"][t_.value.id] = None
                else:
                    st["dicts"][t_.value.id][key] = val
                if self._sig_material(val):
                    st["sig_names"] = st["sig_names"] | {t_.value.id}
                return [st]
            for x in ast.walk(t_):
                if isinstance(x, ast.Name) and isinstance(x.ctx, ast.Store):
                    st["env"][x.id] = self.unknown()
            return [st]
        if isinstance(s_, (ast.AugAssign, ast.AnnAssign)):
            if isinstance(s_.target, ast.Name):
                st["env"][s_.target.id] = self.ev(s_.value, st) if isinstance(s_, ast.AnnAssign) and s_.value is not None else self.unknown()
            return [st]
        if isinstance(s_, ast.Expr) and isinstance(s_.value, ast.Call):
            recv, name = call_method(s_.value)
            if name == "append" and len(s_.value.args) == 1 and isinstance(s_.value.args[0], ast.Name) and s_.value.args[0].id == self.m:
                st["kept"] = st["kept"] + 1
                return [st]
            if isinstance(recv, ast.Name) and st["env"].get(recv.id, (None,))[0] == "d":
                d = st["dicts"].get(recv.id)
                if name == "setdefault" and len(s_.value.args) == 2 and d is not None:
                    key = self.ev(s_.value.args[0], st)
                    if self._has_unknown(key):
                        return [st]                              # a fresh entry under a key that is no signature type: irrelevant
                    d.setdefault(key, self.ev(s_.value.args[1], st))
                elif name in ("pop", "update", "clear", "popitem", "__setitem__"):
                    st["dicts"][recv.id] = None
            return [st]
        if isinstance(s_, (ast.For, ast.While)):
            for x in ast.walk(s_):
                if isinstance(x, ast.Name) and isinstance(x.ctx, ast.Store):
                    st["env"][x.id] = self.unknown()
            return [st]
        if isinstance(s_, ast.With):
            return self.run(s_.body, st)
        if isinstance(s_, ast.Try):
            return self.run(s_.body + s_.orelse + s_.finalbody, st)
        return [st]

    def _sig_material(self, v):
        return v[0] == "a" or (v[0] == "t" and any(self._sig_material(x) for x in v[1]))


def sig_semantics(ctx: Ctx, fi, loop, m: str):
    """SIG decided by evaluation: for T in (time, key) signature, the series [e1:T, e2:T] and [e1:T, x:other kind, e2:T] are run
    through the loop body symbolically; e1 (nothing in force yet) is kept, and e2 is kept iff one of its components differs from
    e1's -- in every world (assignment of `component equal?`) and on every path.  Returns {T: True (decided, holds) | False
    (decided, reported) | None (some path depends on a test the values do not decide: the shape rules judge)}."""
    import itertools
    verdicts = {}
    pre = [s for s in fi.node.body if s.lineno < loop.lineno and isinstance(s, (ast.Assign, ast.AnnAssign))]
    for T, attrs in SIG_ATTRS.items():
        other = next(x for x in SIG_ATTRS if x != T)
        bad, unsure, npaths = [], False, 0
        for eqs in itertools.product((True, False), repeat=len(attrs)):
            world = dict(zip(attrs, eqs))
            it = _SigInterp(m, world)
            st0 = dict(env={}, dicts={}, k=None, T=None, status="run", kept=0, undecided=False, sig_names=frozenset())
            try:
                inits = it.run(pre, st0)
                for series in ((T, T), (T, other, T)):
                    states = [it._copy(x) for x in inits]
                    for pos, kind in enumerate(series):
                        k = 1 if pos == 0 else (2 if pos == len(series) - 1 else "x")
                        nxt = []
                        for stt in states:
                            nxt += it.run(loop.body, it._copy(stt, k=k, T=kind, status="run", kept=0))
                        last = pos == len(series) - 1
                        want = (1 if not all(eqs) else 0) if last else (1 if pos == 0 else None)
                        for stt in nxt:
                            npaths += 1
                            if want is not None and stt["kept"] != want and stt["status"] != "left":
                                if stt["undecided"]:
                                    unsure = True
                                else:
                                    what = "the first" if pos == 0 else ("a changed" if want else "a repeated")
                                    bad.append(f"{what} {T} event {'after an intervening ' + other + ' event ' if len(series) == 3 and last else ''}"
                                               f"is {'dropped' if want else 'kept'} (components equal to the one in force: {world})")
                        states = [x for x in nxt if x["status"] != "left"]
            except AnalysisError:
                unsure = True
        if bad:
            verdicts[T] = False
            ctx.violation("SIG", f"{FN}: a {T} event is dropped iff it repeats the one in force", function=FN,
                          construct=f"{T} repetition filter: {bad[0].split(' (')[0]}", message="; ".join(sorted(set(bad))[:3]), file=fi.file, node=loop)
        elif unsure:
            verdicts[T] = None
        else:
            verdicts[T] = True
            ctx.ok("SIG", f"{FN}: a {T} event is kept iff a component differs from the {T} in force; the first one is kept; an intervening {other} changes nothing "
                          f"({npaths} symbolic path(s), {2 ** len(attrs)} world(s))")
    return verdicts


def sig_rules(ctx: Ctx, fi, loop, m: str) -> None:
    """SIG: a signature event is dropped iff it repeats the one in force, component by component (shared with C15)."""
    p = ctx.p
    decided = sig_semantics(ctx, fi, loop, m)
    for T, attrs in (("TIME_SIGNATURE", ("numerator", "denominator")), ("KEY_SIGNATURE", ("key",))):
        if decided.get(T) is not None:
            continue                                # decided by evaluation (either way); the shape rules below judge what it could not
        found = False
        for n in ast.walk(loop):
            if not isinstance(n, ast.If):
                continue
            def msg_side(c):
                """(attribute of the message, the other operand) for a comparison that has `m.attr` on one side, else None."""
                for a_, b_ in ((c.left, c.comparators[0]), (c.comparators[0], c.left)):
                    if isinstance(a_, ast.Attribute) and a_.attr in attrs and isinstance(a_.value, ast.Name) and a_.value.id == m:
                        return a_.attr, b_
                return None
            cmps = [c for c in ast.walk(n.test) if isinstance(c, ast.Compare) and len(c.ops) == 1 and msg_side(c) is not None]
            if not cmps or len({msg_side(c)[0] for c in cmps}) != len(attrs):
                continue
            found = True
            inst = f"{FN}: {T} filter `{short(n.test, 80)}`"
            # orientation-independent: the keep branch is the one that records the event's values; its condition is the test
            # or the negation of the test (negation normal form)
            from ..model import _Canon

            def updates(blk):
                out = {}
                for s in blk:
                    if isinstance(s, ast.Assign) and len(s.targets) == 1 and isinstance(s.targets[0], ast.Name) \
                            and isinstance(s.value, ast.Attribute) and isinstance(s.value.value, ast.Name) and s.value.value.id == m:
                        out[s.value.attr] = s.targets[0].id
                return out
            up_body, up_else = updates(n.body), updates(n.orelse)
            keep_in_body = bool(up_body) or not up_else
            keep_blk, skip_blk = (n.body, n.orelse) if keep_in_body else (n.orelse, n.body)
            cond = n.test if keep_in_body else _Canon().visit_UnaryOp(ast.UnaryOp(op=ast.Not(), operand=n.test))
            leaves = cond.values if isinstance(cond, ast.BoolOp) else [cond]
            pairs = {}
            ok = not isinstance(cond, ast.BoolOp) or isinstance(cond.op, ast.Or)
            all_or = ok
            for c in leaves:
                ms = msg_side(c) if isinstance(c, ast.Compare) and len(c.ops) == 1 else None
                good = ms is not None and isinstance(c.ops[0], ast.NotEq) and isinstance(ms[1], ast.Name)
                if good:
                    pairs[ms[0]] = ms[1].id
                else:
                    ok = False
            ok = ok and set(pairs) == set(attrs)
            ctx.check(ok, "SIG", inst + " keeps the event iff some component differs from the value in force", function=FN,
                      construct=f"{T} filter does not compare the event's values with the variables in force"
                      if all_or else f"{T} filter requires all components to differ",
                      message=f"keep condition `{short(cond, 90)}`", file=fi.file, node=n)
            if ok:
                assigned = updates(keep_blk)
                ctx.check(assigned == pairs, "SIG", inst + " updates exactly the compared variables on the keep path", function=FN,
                          construct=f"{T} filter does not update the in-force variables it compares with",
                          message=f"compared {pairs}, updated {assigned}", file=fi.file, node=n)
                ctx.check(len(skip_blk) == 1 and isinstance(skip_blk[0], ast.Continue), "SIG", inst + " skips a repeated signature", function=FN,
                          construct=f"repeated {T} is not skipped", message="", file=fi.file, node=n)
                # in-force variables start out as None (nothing in force)
                for v in pairs.values():
                    inits = [s for s in fi.node.body if isinstance(s, ast.Assign) and any(isinstance(t, ast.Name) and t.id == v for t in s.targets)
                             and s.lineno < loop.lineno]
                    ctx.check(len(inits) == 1 and isinstance(inits[0].value, ast.Constant) and inits[0].value.value is None, "SIG",
                              f"{FN}: `{v}` starts as None", function=FN, construct="in-force signature variable not initialised to None",
                              message="the first signature of a sequence could be dropped as a repetition", file=fi.file,
                              node=inits[0] if inits else fi.node)
        if found:
            ctx.ok("SIG", f"{FN}: {T} repetition filter present")
            continue
        # accept the tuple spelling `(m.a, m.b) != in_force`; anything that compares a *derived* quantity is wrong
        tup = [c for c in ast.walk(loop) if isinstance(c, ast.Compare) and len(c.ops) == 1 and isinstance(c.ops[0], ast.NotEq) and isinstance(c.left, ast.Tuple)
               and [getattr(e, "attr", None) for e in c.left.elts] == list(attrs) and all(isinstance(e.value, ast.Name) and e.value.id == m for e in c.left.elts)]
        if tup:
            ctx.undetermined("SIG", f"{FN}: {T} repetition filter", "tuple comparison recognised, its bookkeeping is not judged")
            continue
        derived_vars = {s_.targets[0].id: s_ for s_ in ast.walk(loop) if isinstance(s_, ast.Assign) and isinstance(s_.targets[0], ast.Name)
                        and isinstance(s_.value, ast.BinOp)
                        and any(isinstance(a, ast.Attribute) and a.attr in attrs and isinstance(a.value, ast.Name) and a.value.id == m for a in ast.walk(s_.value))}
        derived = [c for c in ast.walk(loop) if isinstance(c, ast.Compare)
                   and (any(isinstance(b, ast.BinOp) and any(isinstance(a, ast.Attribute) and a.attr in attrs and isinstance(a.value, ast.Name) and a.value.id == m
                                                             for a in ast.walk(b)) for b in ast.walk(c))
                        or any(isinstance(x, ast.Name) and x.id in derived_vars for x in ast.walk(c)))]
        if derived:
            ctx.violation("SIG", f"{FN}: {T} repetition filter", function=FN,
                          construct=f"{T} repetition filter compares a derived quantity instead of the signature's components",
                          message=f"`{short(derived[0], 80)}`: two different signatures with the same derived value (3/4 and 6/8) count as a repetition and the "
                                  f"second one is dropped", file=fi.file, node=derived[0])
        else:
            ctx.check(False, "SIG", f"{FN}: {T} repetition filter present", function=FN, construct=f"no {T} repetition filter found",
                      message="", file=fi.file, node=loop)




class _LenCase(TypeCase):
    """TypeCase with one list variable whose length is tracked concretely (0, 1, 2 stand for empty / one / several)."""

    def __init__(self, *a, stack, length: int, **kw):
        super().__init__(*a, **kw)
        # one name, or several names that each hold the (channel, pitch) stack in a different branch of the dispatch
        self.stacks = {stack} if isinstance(stack, str) else set(stack)
        self.stack = sorted(self.stacks)[0]
        self.length0 = length

    def _len_of(self, st):
        return st.vals.get("$len", frozenset([self.length0]))

    def truth(self, test, st):
        if isinstance(test, ast.Compare) and len(test.ops) == 1 and isinstance(test.left, ast.Call) and isinstance(test.left.func, ast.Name) \
                and test.left.func.id == "len" and test.left.args and isinstance(test.left.args[0], ast.Name) and test.left.args[0].id in self.stacks \
                and isinstance(test.comparators[0], ast.Constant) and isinstance(test.comparators[0].value, int):
            ls = self._len_of(st)
            if len(ls) == 1:
                n, c = next(iter(ls)), test.comparators[0].value
                op = test.ops[0]
                return {ast.Eq: n == c, ast.NotEq: n != c, ast.Gt: n > c, ast.GtE: n >= c, ast.Lt: n < c, ast.LtE: n <= c}.get(type(op))
            return None
        if isinstance(test, ast.Compare) and len(test.ops) == 1 and isinstance(test.ops[0], (ast.In, ast.NotIn)):
            # `pitch in table[channel]`: a non-empty stack is a stored stack, so its key is present; with no open note the key may or may
            # not exist (a closed note leaves an empty list behind) -- unknown, both branches are followed
            roots = getattr(self, "_table_roots", None)
            if roots is None:
                roots = set()
                for a in ast.walk(self.fi.node):
                    if isinstance(a, ast.Assign) and isinstance(a.value, ast.Name) and a.value.id in self.stacks:
                        for t in a.targets:
                            b = t
                            while isinstance(b, ast.Subscript):
                                b = b.value
                            if b is not t and isinstance(b, ast.Name):
                                roots.add(b.id)
                self._table_roots = roots
            b = test.comparators[0]
            while isinstance(b, ast.Subscript):
                b = b.value
            if isinstance(b, ast.Name) and b.id in roots and b is not test.comparators[0]:
                ls = self._len_of(st)
                if ls and min(ls) >= 1:
                    return isinstance(test.ops[0], ast.In)
                return None
        if isinstance(test, ast.UnaryOp) and isinstance(test.op, ast.Not) and isinstance(test.operand, ast.Name) and test.operand.id in self.stacks:
            ls = self._len_of(st)
            return (next(iter(ls)) == 0) if len(ls) == 1 else None
        if isinstance(test, ast.Name) and test.id in self.stacks:
            ls = self._len_of(st)
            return (next(iter(ls)) != 0) if len(ls) == 1 else None
        if isinstance(test, ast.Name) and "$b:" + test.id in st.vals:
            return next(iter(st.vals["$b:" + test.id]))           # a local that holds the outcome of a test decided above
        if isinstance(test, ast.Constant) and isinstance(test.value, bool):
            return test.value
        return super().truth(test, st)

    def stmt(self, s, st):
        # `stack = <the stack or its table entry>[:-1]` (a copying pop) and `stack = stack[1:]`: one element fewer
        if isinstance(s, ast.Assign) and len(s.targets) == 1 and isinstance(s.targets[0], ast.Name) and s.targets[0].id not in self.stacks \
                and isinstance(s.value, (ast.UnaryOp, ast.Compare, ast.BoolOp, ast.Constant, ast.Name)):
            t_ = self.truth(s.value, st) if not (isinstance(s.value, ast.Constant) and not isinstance(s.value.value, bool)) else None
            if t_ is None:
                st.vals.pop("$b:" + s.targets[0].id, None)
            else:
                st.vals["$b:" + s.targets[0].id] = frozenset([t_])
        if isinstance(s, ast.Assign) and len(s.targets) == 1 and isinstance(s.targets[0], ast.Name) and s.targets[0].id in self.stacks \
                and isinstance(s.value, ast.Subscript) and isinstance(s.value.slice, ast.Slice) and s.value.slice.step is None:
            sl = s.value.slice
            drop_last = sl.lower is None and isinstance(sl.upper, ast.UnaryOp) and isinstance(sl.upper.op, ast.USub) and isinstance(sl.upper.operand, ast.Constant) \
                and sl.upper.operand.value == 1
            drop_first = sl.upper is None and isinstance(sl.lower, ast.Constant) and sl.lower.value == 1
            if drop_last or drop_first:
                st.vals["$len"] = frozenset(max(n - 1, 0) for n in self._len_of(st))
        for c in ast.walk(s):
            if isinstance(c, ast.Call) and isinstance(c.func, ast.Attribute) and isinstance(c.func.value, ast.Name) and c.func.value.id in self.stacks:
                ls = self._len_of(st)
                if c.func.attr == "append":
                    st.vals["$len"] = frozenset(n + 1 for n in ls)
                elif c.func.attr == "pop":
                    st.vals["$len"] = frozenset(max(n - 1, 0) for n in ls)
        return super().stmt(s, st)


def stack_rules(ctx: Ctx, fi, loop, out: str) -> None:
    """STACK: the keep/skip decision as a function of how many notes of the (channel, pitch) were open before the event,
    decided by interpreting the NOTE_ON / NOTE_OFF branches with the stack length tracked concretely (0, 1, 2)."""
    p = ctx.p
    m = loop.target.id
    # the per-(channel, pitch) stack variable: local assigned from `<dict>[...].get(<pitch>, [])` in the note branches
    stacks = {}
    for n in ast.walk(loop):
        if isinstance(n, ast.Assign) and isinstance(n.targets[0], ast.Name) and isinstance(n.value, ast.Call) and call_method(n.value)[1] == "get" \
                and len(n.value.args) == 2 and isinstance(n.value.args[1], ast.List):
            stacks[n.targets[0].id] = n
    if not stacks:
        # the same table entry fetched by `setdefault(pitch, [])` (stored at once) / `get(pitch)` (None when there is none): several
        # locals, one per branch of the dispatch, all standing for the stack of the event's channel and pitch
        for n in ast.walk(loop):
            if isinstance(n, ast.Assign) and isinstance(n.targets[0], ast.Name) and isinstance(n.value, ast.Call) and isinstance(call_method(n.value)[0], ast.Subscript) \
                    and ((call_method(n.value)[1] == "setdefault" and len(n.value.args) == 2 and isinstance(n.value.args[1], ast.List) and not n.value.args[1].elts)
                         or (call_method(n.value)[1] == "get" and len(n.value.args) == 1)) and src(n.value.args[0]).endswith(".note"):
                stacks[n.targets[0].id] = n
        if stacks and len({src(call_method(n.value)[0]) for n in stacks.values()}) != 1:
            stacks = {}
    if not stacks or (len(stacks) != 1 and any(call_method(n.value)[1] == "get" and len(n.value.args) == 2 for n in stacks.values())):
        # the keep / skip decisions of notes are the heart of the property: when the bookkeeping is not a stack per (channel, pitch) in a
        # form read here (another data structure, counters, ...) nothing about notes is decided -- outside the model, not a pass
        ctx.undetermined("STACK", f"{FN}: open-note stack", f"stack variable not recognised ({sorted(stacks)}): not judged")
        ctx.floor(f"{FN}: open-note stack per (channel, pitch) in a recognised form", 0, 1)
        return
    stack = next(iter(stacks)) if len(stacks) == 1 else set(stacks)
    want = {("NOTE_ON", 0): "keep", ("NOTE_ON", 1): "skip", ("NOTE_ON", 2): "skip",
            ("NOTE_OFF", 0): "skip", ("NOTE_OFF", 1): "keep", ("NOTE_OFF", 2): "skip"}
    why = {("NOTE_ON", 0): "a note-on of a silent pitch opens a note", ("NOTE_ON", 1): "re-trigger of a sounding note is dropped",
           ("NOTE_ON", 2): "re-trigger of a sounding note is dropped", ("NOTE_OFF", 0): "a note-off without an open note (orphan) is dropped",
           ("NOTE_OFF", 1): "the note-off closing the outermost note is kept", ("NOTE_OFF", 2): "an inner note-off of nested notes is dropped"}
    for (T, L), w in want.items():
        tc = _LenCase(p, fi, {m}, T, stack=stack, length=L)
        exits = tc.run_body(loop.body)
        kept = events_matching(exits, lambda e: e[0] == "append" and e[1] == out and e[2] == "msg", kinds=("end",))
        kinds = {k for k, _ in exits}
        # skipped: the iteration ends (by `continue`, or by falling off the end of the body) without the message having been appended
        got = "keep" if kinds == {"end"} and kept == (1, 1) else ("skip" if kinds <= {"continue", "end"} and kept in (None, (0, 0)) and kinds
                                                                  else f"mixed({sorted(kinds)}, appended {kept})")
        post = set()
        for k, st_ in exits:
            if k in ("end", "continue"):
                post |= set(st_.vals.get("$len", frozenset([L])))
        want_post = {L + 1} if T == "NOTE_ON" else {max(L - 1, 0)}
        ctx.check(post == want_post, "STACK", f"{FN}: {T} with {L if L < 2 else '2+'} open note(s): afterwards {sorted(post)} are counted as open", function=FN,
                  construct=f"{T} arriving with {L if L < 2 else 'several'} open note(s) leaves the wrong number of open notes"
                  if post != want_post else "ok",
                  message=f"the nesting count after the event is {sorted(post)}, expected {sorted(want_post)}: every note-on (also a dropped re-trigger) "
                          f"must be counted and every note-off of an open note must uncount one, otherwise overlapping notes are closed at the first "
                          f"end instead of the last", file=fi.file, node=loop)
        ctx.check(got == w, "STACK", f"{FN}: {T} with {L if L < 2 else '2+'} open note(s) of its channel and pitch -> {got}", function=FN,
                  construct=f"{T} arriving with {L if L < 2 else 'several'} open note(s) is {'kept' if got == 'keep' else 'not handled as required'}"
                  if got != w else "ok",
                  message=f"expected `{w}` ({why[(T, L)]}), the code does `{got}`", file=fi.file, node=loop)
    for n in ast.walk(loop):
        if isinstance(stack, str) and isinstance(n, ast.Assign) and isinstance(n.targets[0], ast.Name) and n.targets[0].id == stack and isinstance(n.value, ast.Call) \
                and call_method(n.value)[1] == "get" and len(n.value.args) == 2:
            blk = _block_of(n)
            stores = sorted((x for y in blk for x in ast.walk(y) if isinstance(x, ast.Assign) and isinstance(x.targets[0], ast.Subscript) and isinstance(x.value, ast.Name)
                             and x.value.id == stack and x.lineno > n.lineno), key=lambda x: x.lineno)
            muts = [x.lineno for y in blk for x in ast.walk(y) if isinstance(x, ast.Call) and isinstance(x.func, ast.Attribute)
                    and x.func.attr in ("append", "pop", "insert", "remove") and isinstance(x.func.value, ast.Name) and x.func.value.id == stack and x.lineno > n.lineno]
            first_mut = min(muts, default=None)
            if first_mut is None:
                continue
            first_exit = min([x.lineno for y in blk for x in ast.walk(y) if isinstance(x, ast.Continue) and x.lineno > first_mut], default=10**9)
            ctx.check(bool(stores) and stores[0].lineno < first_exit, "STACK", f"{FN}: a stack fetched with .get(key, []) is stored back after it was changed, before the event is decided",
                      function=FN, construct="open-note stack fetched with a fresh default list is not stored back",
                      message="a first note-on / note-off of a pitch would work on a throw-away list", file=fi.file, node=n)
    # LIFO: only the first-pushed note-on is in the output, so it must stay on the stack until the stack empties
    pops = [c for c in ast.walk(loop) if isinstance(c, ast.Call) and isinstance(c.func, ast.Attribute) and c.func.attr == "pop"
            and isinstance(c.func.value, ast.Name) and c.func.value.id == stack]
    for c in pops:
        lifo = not c.args or (isinstance(c.args[0], ast.UnaryOp) and isinstance(c.args[0].op, ast.USub) and isinstance(c.args[0].operand, ast.Constant)
                              and c.args[0].operand.value == 1)
        ctx.check(lifo, "STACK", f"{FN}: the open-note stack is popped from the top (`{short(c)}`)", function=FN,
                  construct="open-note stack not popped last-in-first-out",
                  message="only the first note-on pushed for a (channel, pitch) is in the output; popping it while later ones remain makes the "
                          "final unclosed-note clean-up miss it (an unclosed note survives)", file=fi.file, node=c)
    # the clean-up removes every message still on a stack from the output
    after = [s for s in fi.node.body if getattr(s, "lineno", 0) > loop.end_lineno]
    rem = [c for s in after for c in ast.walk(s) if isinstance(c, ast.Call) and call_method(c)[1] == "remove" and isinstance(call_method(c)[0], ast.Name)
           and call_method(c)[0].id == out]
    ctx.check(bool(rem), "STACK", f"{FN}: notes still open at the end are removed from the output", function=FN,
              construct="no removal of notes left open at the end of the sequence", message="", file=fi.file, node=fi.node)
    # ... and under no condition other than "it is in the output" (the only guard that cannot hide an open note)
    from ..astutil import path_conditions
    for c in rem:
        arg = src(c.args[0]) if c.args else "?"
        extra = []
        for t, holds in path_conditions(c):
            member = isinstance(t, ast.Compare) and len(t.ops) == 1 and src(t.left) == arg and src(t.comparators[0]) == out
            if member and ((isinstance(t.ops[0], ast.In) and holds) or (isinstance(t.ops[0], ast.NotIn) and not holds)):
                continue
            extra.append(f"`{short(t, 60)}` {'holds' if holds else 'does not hold'}")
        ctx.check(not extra, "STACK", f"{FN}: every note still open at the end is removed (`{short(c)}` guarded only by membership in the output)", function=FN,
                  construct="the removal of notes left open at the end is skipped under a condition", message=f"runs only when {', '.join(extra)}: an unclosed note can survive",
                  file=fi.file, node=c)
        lps = [a for a in ancestors(c) if isinstance(a, ast.For)]
        # what is removed are the elements of the stacks themselves: the loop that supplies the removed message walks a list that is
        # read, inside the clean-up, from the table the outer clean-up loops walk
        inner = next((lp_ for lp_ in lps if isinstance(lp_.target, ast.Name) and lp_.target.id == arg), None)
        tables_ = {x.id for lp_ in lps for x in ast.walk(lp_.iter) if isinstance(x, ast.Name)} - {arg}
        okw = False
        if inner is not None:
            it = inner.iter
            if isinstance(it, ast.Name):
                defs_ = [a_ for s_ in after for a_ in ast.walk(s_) if isinstance(a_, ast.Assign) and any(isinstance(t_, ast.Name) and t_.id == it.id for t_ in a_.targets)]
                okw = len(defs_) == 1 and any(isinstance(x, ast.Name) and x.id in tables_ - {it.id} for x in ast.walk(defs_[0].value)) \
                    and any(defs_[0] in ast.walk(lp_) for lp_ in lps)
                # ... or it is what an enclosing clean-up loop hands out (`for stack in entry.values(): for msg in stack:`)
                okw = okw or any(lp_ is not inner and isinstance(lp_.target, ast.Name) and lp_.target.id == it.id
                                 and isinstance(lp_.iter, ast.Call) and call_method(lp_.iter)[1] in ("values",) for lp_ in lps)
            else:
                okw = any(isinstance(x, ast.Name) and x.id in tables_ for x in ast.walk(it))
        ctx.check(okw, "STACK", f"{FN}: the clean-up walks the stacks of the open-note table", function=FN,
                  construct="the clean-up of open notes does not walk the stacks of the open-note table",
                  message=f"`{short(inner.iter) if inner is not None else '?'}` is not read from the table inside the clean-up loops (a list left over from the main loop?)",
                  file=fi.file, node=inner or c)
        ctx.check(not any(isinstance(x, (ast.Break, ast.Continue, ast.Return)) for lp_ in lps for x in ast.walk(lp_)), "STACK",
                  f"{FN}: the clean-up visits every open note (no break / continue / return in its loops)", function=FN,
                  construct="the clean-up of open notes leaves its loops early", message="", file=fi.file, node=c)


def _block_of(n: ast.AST) -> list[ast.stmt]:
    par = getattr(n, "_parent", None)
    for fld in ("body", "orelse", "finalbody"):
        b = getattr(par, fld, None)
        if isinstance(b, list) and n in b:
            return b
    return [n]


def _is_positive_test(t: ast.AST, acc: str) -> bool:
    if isinstance(t, ast.Compare) and len(t.ops) == 1 and isinstance(t.left, ast.Name) and t.left.id == acc \
            and isinstance(t.comparators[0], ast.Constant) and t.comparators[0].value == 0 and isinstance(t.ops[0], (ast.Gt, ast.NotEq)):
        return True
    return isinstance(t, ast.Name) and t.id == acc
