"""C11 -- tick values stay integers through every operation (numeric-kind abstract interpretation)."""
from __future__ import annotations

from ..report import Ctx
from ..astutil import short
from ..engines.kinds import KindEngine, may_float, is_determined_int, show


def run_engine(ctx: Ctx) -> KindEngine:
    eng = KindEngine(ctx.p)
    rounds = eng.solve()
    ctx.counters["fixpoint_rounds"] = rounds
    ctx.counters["calls_resolved"] = eng.resolved_calls
    ctx.counters["calls_unresolved"] = eng.unresolved_calls
    return eng


def judge_sinks(ctx: Ctx, eng: KindEngine, rule: str, only_funcs=None, prefixes=None) -> tuple[int, int]:
    n = det = 0
    for key, s in sorted(eng.sinks.items(), key=lambda kv: (kv[1].file, getattr(kv[1].node, "lineno", 0))):
        if s.rule != rule:
            continue
        if only_funcs is not None and not any(s.func.startswith(f) for f in only_funcs):
            continue
        if prefixes is not None and s.what.split(" ", 1)[0] not in prefixes:
            continue
        n += 1
        inst = f"{s.func}: {s.what} <- {short(s.expr, 70)}"
        ctx.analysed(s.func)
        if may_float(s.kind):
            fi = ctx.p.functions.get(s.func) or ctx.p.functions.get(s.func.rsplit(".", 1)[0])
            path = eng.explain_float(fi, s.expr) if fi is not None else []
            what = "time value" if rule == "NK1" else "numeric token field"
            ctx.violation(rule, inst, function=s.func, construct=f"{s.what} receives {short(s.expr, 70)}",
                          message=f"{what} may be a float (kind {show(s.kind)}): a true division or float source "
                                  f"reaches it without int()/round()/floor division",
                          file=s.file, node=s.node, path=path)
        elif is_determined_int(s.kind):
            det += 1
            ctx.ok(rule, inst, f"kind {show(s.kind)}")
            ctx.sample({"sink": inst, "kind": show(s.kind)})
        else:
            ctx.undetermined(rule, inst, f"kind {show(s.kind)} (an operand could not be resolved; not judged)")
    return n, det


def check(ctx: Ctx) -> None:
    ctx.explanation = (
        "Whole-program numeric-kind abstract interpretation (int vs float lattice, flow-sensitive per function, "
        "parameter/return/attribute summaries iterated to a fixpoint over an over-approximate call graph). "
        "Obligation NK1: every write to a message `time` (attribute store or Message(time=...) argument) receives an "
        "int/None-kinded value; NK2: every numerically formatted token field is int-kinded. Inductive hypothesis: reads "
        "of message fields yield int/None; public entry points receive integer arguments (the property's hypothesis). "
        "Since every write is proved int under that hypothesis, the invariant holds after any history of operations.")
    ctx.assumptions += [
        "caller-supplied numeric arguments and list elements are integers (hypothesis of the property)",
        "mido delivers integer delta times; numpy's digitize(...).item() is an integer index",
        "int ** int with the exponents used in util.py is an int",
    ]
    eng = run_engine(ctx)
    n1, d1 = judge_sinks(ctx, eng, "NK1")
    # tokens that embed a tick value: rest length and note value
    n2, d2 = judge_sinks(ctx, eng, "NK2", only_funcs=["MultiTrackLargeVocabularyNotelikeTokeniser.tokenise"], prefixes={"REST", "VALUE"})
    ctx.floor("time sinks", n1, 24)
    ctx.floor("time sinks determined", d1, 22)
    ctx.floor("tick-bearing token fields (rest value, note value)", n2, 2)       # one REST field, one or two formattings of the note value
