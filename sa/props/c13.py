"""C13 -- loading rescales file ticks exactly and routes every event to the right sequence (structural clauses)."""
from __future__ import annotations

import ast

from ..astutil import attr_chain, call_method, short, src, enum_member, kwarg, ancestors, flatten_boolop, path_conditions
from ..linear import Normaliser, Sym
from ..model import walk_local, AnalysisError
from ..report import Ctx
from ..engines import tables, midi
from ..engines.typecase import TypeCase, events_matching
from ..engines.units import UnitAnalysis, show, TICK, FTICK, QUARTER, inv

FN = "MidiFile.convert"


def _main_check(ctx: Ctx) -> None:
    p = ctx.p
    fi = p.func(FN)
    ctx.analysed(fi)
    ctx.explanation = (
        "Structural necessary conditions of C13 on MidiFile.convert / parse_mido_message: ACCUM the running position is "
        "defined only by `= 0` (per track, before its messages) and `+= msg.time * factor` (once per message, outside the type "
        "dispatch); the rounded value is computed from it with one-argument round() and never flows back (no accumulation of "
        "rounding error); every created event takes the rounded value as its time; UNIT the factor is library resolution / file "
        "resolution (tick/filetick) and is applied to file ticks; ROUTE per message kind: the created event has the same kind and "
        "copies the kind's fields; notes go to the track's own sequence and only under group membership; time/key signatures "
        "(and control changes) go to the meta sequence; tracks in no group and not meta are skipped; VEL0 note_on with velocity 0 is "
        "read as NOTE_OFF and the two branch conditions partition note_on; TAB the reader's key table knows every key name "
        "mido can deliver; MERGE each group is normalised and merged into its first member, the meta sequence is merged into the "
        "range-checked target. Not decided: the half-tick bound (floating point), union-of-tracks equality.")
    ctx.assumptions += ["mido delivers integer delta times >= 0", "float accumulation error over a track stays far below half a tick"]
    params = fi.params
    groups, metas, target = params[1], params[2], params[3]
    track_loop = next((n for n in fi.node.body if isinstance(n, ast.For) and "tracks" in src(n.iter)), None)
    if track_loop is None:
        raise AnalysisError(f"{FN}: track loop not found")
    # canonical form of the track loop: `if <track is used>: <work>` (the guard clause `if <unused>: continue` is read as this);
    # `scope` is the block that does the work for a used track
    msg_loop = next((n for n in ast.walk(track_loop) if isinstance(n, ast.For) and n is not track_loop and "messages" in src(n.iter)), None)
    if msg_loop is None:
        raise AnalysisError(f"{FN}: message loop not found")
    sel_if = next((s_ for s_ in track_loop.body if isinstance(s_, ast.If) and not s_.orelse and any(msg_loop is x for x in s_.body)), None)
    scope = sel_if if sel_if is not None else track_loop
    m = msg_loop.target.elts[1].id if isinstance(msg_loop.target, ast.Tuple) else msg_loop.target.id

    # --- ACCUM
    acc = None
    for n in msg_loop.body:
        if isinstance(n, ast.AugAssign) and isinstance(n.target, ast.Name) and f"{m}.time" in src(n.value):
            acc, aug = n.target.id, n
    if acc is None:
        ctx.require("ACCUM", f"{FN}: every message advances the running position by its scaled time", 0, 1, function=FN,
                    construct="the loader never advances its running position by a message's time",
                    message=f"no `position += {m}.time * factor` at the top of the message loop: every event of a track is placed at tick 0", file=fi.file, node=msg_loop)
        return
    defs = [n for n in ast.walk(fi.node) if (isinstance(n, ast.Assign) and any(isinstance(t, ast.Name) and t.id == acc for t in n.targets))
            or (isinstance(n, ast.AugAssign) and isinstance(n.target, ast.Name) and n.target.id == acc)]
    zero = [d for d in defs if isinstance(d, ast.Assign)]
    augs = [d for d in defs if isinstance(d, ast.AugAssign)]
    ctx.check(len(zero) == 1 and isinstance(zero[0].value, ast.Constant) and zero[0].value.value == 0 and zero[0] in scope.body
              and zero[0].lineno < msg_loop.lineno, "ACCUM", f"{FN}: `{acc}` restarts at 0 for every track", function=FN,
              construct="running position is not reset to 0 exactly once per track", message=f"{[short(d) for d in zero]}", file=fi.file,
              node=zero[0] if zero else track_loop)
    ctx.check(len(augs) == 1 and isinstance(augs[0].op, ast.Add), "ACCUM", f"{FN}: `{acc}` only grows by the message's scaled time", function=FN,
              construct="running position has more than one update", message=f"{[short(d) for d in augs]}", file=fi.file, node=aug)
    nz = Normaliser()
    factor = None
    for s in fi.node.body:
        if isinstance(s, ast.Assign) and isinstance(s.targets[0], ast.Name) and "PPQN" in src(s.value):
            factor = s
    if factor is None:
        raise AnalysisError(f"{FN}: scaling factor not found")
    fname = factor.targets[0].id
    got = nz.norm(aug.value)
    want = Sym.atom(f"{m}.time") * Sym.atom(fname)
    ctx.check(got == want, "ACCUM", f"{FN}: increment = {m}.time * {fname}", function=FN, construct="increment of the running position is not time * factor",
              message=f"`{got.canon()}`", file=fi.file, node=aug)
    ctx.check(not any(isinstance(x, ast.Call) for x in ast.walk(aug.value)), "ACCUM", f"{FN}: the increment is not rounded", function=FN,
              construct="rounded increments are accumulated", message="rounding each delta lets the error grow along the track", file=fi.file, node=aug)
    rounded = [s for s in msg_loop.body if isinstance(s, ast.Assign) and isinstance(s.value, ast.Call) and isinstance(s.value.func, ast.Name)
               and s.value.func.id in ("round", "int") and acc in src(s.value)]
    if not rounded:
        ctx.violation("ACCUM", f"{FN}: rounded position", function=FN, construct="event position is not round(running position)",
                      message="no `x = round(running position)` at the top level of the message loop", file=fi.file, node=msg_loop)
        return
    r = rounded[0]
    rv = r.targets[0].id
    ctx.check(r.value.func.id == "round" and len(r.value.args) == 1 and isinstance(r.value.args[0], ast.Name) and r.value.args[0].id == acc and not r.value.keywords,
              "ACCUM", f"{FN}: `{rv} = round({acc})` (nearest tick)", function=FN, construct="event position is not round(running position)",
              message=short(r), file=fi.file, node=r)
    ctx.check(r.lineno > aug.lineno, "ACCUM", f"{FN}: rounding happens after the message's own time was added", function=FN,
              construct="position rounded before adding the message's delta", message="", file=fi.file, node=r)
    ctx.check(not any(rv in {x.id for x in ast.walk(d.value) if isinstance(x, ast.Name)} for d in defs), "ACCUM",
              f"{FN}: the rounded value never flows back into `{acc}`", function=FN, construct="rounded position fed back into the running position",
              message="", file=fi.file, node=aug)
    in_dispatch = any(isinstance(a, ast.If) for a in ancestors(aug) if a is not fi.node and a in list(ast.walk(msg_loop)))
    ctx.check(not in_dispatch, "ACCUM", f"{FN}: every message advances the position (also ignored kinds)", function=FN,
              construct="position update depends on the message kind", message="", file=fi.file, node=aug)
    ctors = [c for c in ast.walk(msg_loop) if isinstance(c, ast.Call) and isinstance(c.func, ast.Name) and c.func.id == "Message"]
    ctx.floor("events created while loading", len(ctors), 6)
    for c in ctors:
        t = kwarg(c, "time")
        ctx.check(isinstance(t, ast.Name) and t.id == rv, "ACCUM", f"{FN}: `{short(c, 50)}` placed at the rounded position", function=FN,
                  construct="loaded event not placed at the rounded position", message=short(t), file=fi.file, node=c)

    # --- UNIT
    ua = UnitAnalysis(p, fi, attr_seeds={"time": FTICK})
    u = ua.unit(factor.value)
    ctx.check(u == TICK * inv(FTICK), "UNIT", f"{FN}: factor has unit {show(u)} (library ticks per file tick)", function=FN,
              construct=f"rescale factor has unit {show(u)}", message="expected PPQN / self.PPQN", file=fi.file, node=factor)
    gotf = nz.norm(factor.value)
    wantf = Sym.atom("PPQN") * Sym.atom("self.PPQN").inverse()
    ctx.check(gotf == wantf, "UNIT", f"{FN}: factor = PPQN / self.PPQN", function=FN, construct="rescale factor is not library resolution / file resolution",
              message=gotf.canon(), file=fi.file, node=factor)
    pm = p.func("MidiFile.parse_mido")
    ctx.analysed(pm)
    setr = [s for s in walk_local(pm.node) if isinstance(s, ast.Assign) and any(attr_chain(t) == ["self", "PPQN"] for t in s.targets)]
    ctx.check(len(setr) == 1 and src(setr[0].value).endswith(".ticks_per_beat"), "UNIT", "parse_mido: file resolution read from ticks_per_beat",
              function=pm.qualname, construct="file resolution not taken from the file's ticks_per_beat", message="", file=pm.file, node=pm.node)

    # --- ROUTE
    # roles by use: the track's own sequence receives the NOTE_ON events, the meta sequence the TIME_SIGNATURE events
    cur = meta = None
    for c_ in ast.walk(track_loop):
        if isinstance(c_, ast.Call) and call_method(c_)[1] in ("add_absolute_message", "add_message") and isinstance(call_method(c_)[0], ast.Name) and c_.args \
                and isinstance(c_.args[0], ast.Call) and src(c_.args[0].func) == "Message":
            T_ = enum_member(kwarg(c_.args[0], "message_type"), "MessageType")
            if T_ == "NOTE_ON" and cur is None:
                cur = call_method(c_)[0].id
            if T_ == "TIME_SIGNATURE" and meta is None:
                meta = call_method(c_)[0].id
    if cur is None or meta is None:
        # the event may be built first and added later, to a receiver chosen elsewhere: read the roles off the per-kind execution
        for T_ in ("NOTE_ON", "TIME_SIGNATURE"):
            recvs = set()
            for _, st_ in TypeCase(p, fi, {m}, T_).run_body(msg_loop.body):
                recvs |= {e[1] for e, v_ in st_.counts.items() if e[0] == "append" and e[2] == f"new:{T_}" and v_[1] >= 1}
            if len(recvs) == 1:
                if T_ == "NOTE_ON" and cur is None:
                    cur = next(iter(recvs))
                if T_ == "TIME_SIGNATURE" and meta is None:
                    meta = next(iter(recvs))
    if cur is None or meta is None:
        for nm_, T_ in ((cur, "NOTE_ON"), (meta, "TIME_SIGNATURE")):
            ctx.require("ROUTE", f"{FN}: {T_} events of the file become {T_} events of a sequence", 0 if nm_ is None else 1, 1, function=FN,
                        construct=f"the loader never adds a {T_} event to a sequence", message=f"no `add_absolute_message(Message(message_type={T_}, ...))` in the message loop",
                        file=fi.file, node=msg_loop)
        return
    expect = {"NOTE_ON": cur, "NOTE_OFF": cur, "TIME_SIGNATURE": meta, "KEY_SIGNATURE": meta, "CONTROL_CHANGE": meta, "PROGRAM_CHANGE": cur}
    fields = {"NOTE_ON": ("channel", "note", "velocity"), "NOTE_OFF": ("channel", "note"), "TIME_SIGNATURE": ("numerator", "denominator"),
              "KEY_SIGNATURE": ("key",), "CONTROL_CHANGE": ("control",), "PROGRAM_CHANGE": ("program",)}
    for T in p.enum_order("MessageType"):
        tc = TypeCase(p, fi, {m}, T)
        exits = tc.run_body(msg_loop.body)
        evs = {}
        for k, st in exits:
            for e, v in st.counts.items():
                if e[0] == "append" and e[2].startswith("new:"):
                    lo, hi = evs.get(e, (9, 0))
                    evs[e] = (min(lo, v[0]), max(hi, v[1]))
        inst = f"{FN}: {T} -> {sorted((e[1], e[2], v) for e, v in evs.items())}"
        if T in expect:
            good = len(evs) == 1 and all(e[1] == expect[T] and e[2] == f"new:{T}" and v[1] == 1 for e, v in evs.items())
            if T in ("TIME_SIGNATURE", "KEY_SIGNATURE", "CONTROL_CHANGE", "PROGRAM_CHANGE"):
                good = good and all(v == (1, 1) for v in evs.values())
            ctx.check(good, "ROUTE", inst, function=FN, construct=f"{T} events are not routed to `{'meta' if expect[T] == meta else 'track'}` sequence as a {T} event",
                      message=f"{sorted((e[1], e[2], v) for e, v in evs.items())}; expected exactly one {T} event added to `{expect[T]}`", file=fi.file, node=msg_loop)
        else:
            ctx.check(not evs, "ROUTE", inst + " (ignored)", function=FN, construct=f"{T} message creates an event", message="", file=fi.file, node=msg_loop)
    for c in ctors:
        T = enum_member(kwarg(c, "message_type"), "MessageType")
        if T is None:
            # `Message(message_type=msg.message_type, ..)`: the kind is the one the governing test selects
            from ..astutil import path_conditions as _pc
            yes, no = [], []
            for t_, h_ in _pc(c, msg_loop):
                if isinstance(t_, ast.Compare) and len(t_.ops) == 1 and isinstance(t_.ops[0], (ast.Eq, ast.Is)) and enum_member(t_.comparators[0], "MessageType"):
                    (yes if h_ else no).append(enum_member(t_.comparators[0], "MessageType"))
            if len(set(yes)) != 1 or set(yes) & set(no):
                continue                      # no kind, or a path no message can take (a dispatch copied into a branch that fixes the kind)
            T = yes[0]
        for f in fields.get(T, ()):
            v = kwarg(c, f)
            ctx.check(isinstance(v, ast.Attribute) and v.attr == f and isinstance(v.value, ast.Name) and v.value.id == m, "ROUTE",
                      f"{FN}: {T} copies `{f}`", function=FN, construct=f"loaded {T} event does not copy `{f}` from the file message",
                      message=short(v), file=fi.file, node=c)
    # "the track belongs to a group": `any(i in indices for indices in groups)`, or a local of the track loop defined as exactly that
    idxv0 = track_loop.target.elts[0].id if isinstance(track_loop.target, ast.Tuple) else None

    def _member_call(t):
        return isinstance(t, ast.Call) and isinstance(t.func, ast.Name) and t.func.id == "any" and groups in src(t) and idxv0 is not None \
            and any(isinstance(c_, ast.Compare) and isinstance(c_.ops[0], ast.In) and src(c_.left) == idxv0 for c_ in ast.walk(t))
    member_locals = set()
    for s_ in ast.walk(track_loop):
        if isinstance(s_, ast.Assign) and len(s_.targets) == 1 and isinstance(s_.targets[0], ast.Name) and _member_call(s_.value):
            nm_ = s_.targets[0].id
            if sum(1 for x in ast.walk(track_loop) if isinstance(x, ast.Name) and x.id == nm_ and isinstance(x.ctx, ast.Store)) == 1:
                member_locals.add(nm_)

    # the group itself looked up: `g = next((g for g in groups if i in g), None)` -- `g is not None` says the track belongs to a group
    group_locals = set()

    def _group_lookup(e):
        return isinstance(e, ast.Call) and isinstance(e.func, ast.Name) and e.func.id == "next" and len(e.args) == 2 and isinstance(e.args[1], ast.Constant) \
            and e.args[1].value is None and isinstance(e.args[0], ast.GeneratorExp) and len(e.args[0].generators) == 1 and src(e.args[0].generators[0].iter) == groups \
            and len(e.args[0].generators[0].ifs) == 1 and isinstance(e.args[0].generators[0].ifs[0], ast.Compare) and isinstance(e.args[0].generators[0].ifs[0].ops[0], ast.In) \
            and src(e.args[0].generators[0].ifs[0].left) == idxv0 and src(e.args[0].generators[0].ifs[0].comparators[0]) == src(e.args[0].generators[0].target) \
            and src(e.args[0].elt) == src(e.args[0].generators[0].target)
    for s_ in ast.walk(track_loop):
        if isinstance(s_, ast.Assign) and len(s_.targets) == 1 and isinstance(s_.targets[0], ast.Name) and _group_lookup(s_.value) \
                and sum(1 for x in ast.walk(track_loop) if isinstance(x, ast.Name) and x.id == s_.targets[0].id and isinstance(x.ctx, ast.Store)) == 1:
            group_locals.add(s_.targets[0].id)

    def member_polarity(t):
        """True: `t` says the track belongs to a group; False: it says the opposite; None: it says something else."""
        if _member_call(t) or (isinstance(t, ast.Name) and t.id in member_locals):
            return True
        if isinstance(t, ast.Compare) and len(t.ops) == 1 and isinstance(t.comparators[0], ast.Constant) and t.comparators[0].value is None \
                and ((isinstance(t.left, ast.Name) and t.left.id in group_locals) or _group_lookup(t.left)):
            return isinstance(t.ops[0], (ast.IsNot, ast.NotEq))
        return None
    for s_ in ast.walk(track_loop):
        if isinstance(s_, ast.Assign) and len(s_.targets) == 1 and isinstance(s_.targets[0], ast.Name) and member_polarity(s_.value) is True \
                and sum(1 for x in ast.walk(track_loop) if isinstance(x, ast.Name) and x.id == s_.targets[0].id and isinstance(x.ctx, ast.Store)) == 1:
            member_locals.add(s_.targets[0].id)

    def is_member_test(t):
        return member_polarity(t) is True
    # every routing rule below reads "the track belongs to a group" off the code: when no test of the track loop says that in a form
    # known here (`any(i in g for g in groups)`, `next((g for g in groups if i in g), None) is not None`, a local holding either), the
    # function is outside the model -- not a finding
    n_member_tests = sum(1 for x in ast.walk(track_loop) if isinstance(x, ast.expr) and member_polarity(x) is not None)
    ctx.floor(f"{FN}: tests of `the track belongs to a group` in a recognised form", n_member_tests, 1, now=True)

    # notes only under group membership: with "the track belongs to a group" decided either way, a note of a grouped track is added
    # exactly once to the track's own sequence and a note of any other track is not added anywhere
    for T in ("NOTE_ON", "NOTE_OFF"):
        res = {}
        for member in (True, False):
            def decide(test, st, tc, member=member):
                pol = member_polarity(test)
                return None if pol is None else (member if pol else not member)
            evs = {}
            for k, st in TypeCase(p, fi, {m}, T, decide=decide).run_body(msg_loop.body):
                for e, v in st.counts.items():
                    if e[0] == "append" and e[2].startswith("new:"):
                        lo, hi = evs.get(e, (9, 0))
                        evs[e] = (min(lo, v[0]), max(hi, v[1]))
            res[member] = evs
        ok = not any(v[1] > 0 for v in res[False].values()) and len(res[True]) == 1 and all(e[1] == cur and e[2] == f"new:{T}" and v == (1, 1) for e, v in res[True].items())
        ctx.check(ok, "ROUTE", f"{FN}: {T} accepted from exactly the tracks that belong to a group", function=FN,
                  construct=f"{T} taken from tracks outside every group",
                  message=f"grouped track: {sorted((e[1], e[2], v) for e, v in res[True].items())}; other track: {sorted((e[1], e[2], v) for e, v in res[False].items())}",
                  file=fi.file, node=msg_loop)
    # skip rule: the message loop of a track is reached iff the track belongs to a group or is listed as meta -- decided by evaluating
    # the guards on the way to the loop for the four combinations of the two facts
    def _is_meta_atom(t):
        return isinstance(t, ast.Compare) and len(t.ops) == 1 and isinstance(t.ops[0], (ast.In, ast.NotIn)) and src(t.left) == idxv0 and src(t.comparators[0]) == metas

    def _eval(t, member, meta_):
        if isinstance(t, ast.UnaryOp) and isinstance(t.op, ast.Not):
            r_ = _eval(t.operand, member, meta_)
            return None if r_ is None else not r_
        if isinstance(t, ast.BoolOp):
            vs = [_eval(v, member, meta_) for v in t.values]
            if isinstance(t.op, ast.And):
                return False if any(v is False for v in vs) else (True if all(v is True for v in vs) else None)
            return True if any(v is True for v in vs) else (False if all(v is False for v in vs) else None)
        if member_polarity(t) is not None:
            return member if member_polarity(t) else not member
        if _is_meta_atom(t):
            return meta_ if isinstance(t.ops[0], ast.In) else not meta_
        return None

    def _falls(block, member, meta_):
        """Does control fall off the end of `block`?  True / False / None (not decidable from the two facts)."""
        for s_ in block:
            if isinstance(s_, (ast.Continue, ast.Break, ast.Return, ast.Raise)):
                return False
            if isinstance(s_, ast.If):
                t = _eval(s_.test, member, meta_)
                if t is None:
                    a, b = _falls(s_.body, member, meta_), _falls(s_.orelse, member, meta_)
                    if a is True and b is True:
                        continue
                    return False if (a is False and b is False) else None
                r_ = _falls(s_.body if t else s_.orelse, member, meta_)
                if r_ is not True:
                    return r_
        return True

    def _reaches(block, member, meta_):
        for s_ in block:
            if s_ is msg_loop:
                return True
            if any(x is msg_loop for x in ast.walk(s_)):
                if isinstance(s_, ast.If):
                    t = _eval(s_.test, member, meta_)
                    inb = any(x is msg_loop for y in s_.body for x in ast.walk(y))
                    if t is None:
                        return None
                    if t != inb:
                        return False
                    return _reaches(s_.body if inb else s_.orelse, member, meta_)
                return None
            r_ = _falls([s_], member, meta_)
            if r_ is not True:
                return r_
        return None
    table = {(a, b): _reaches(track_loop.body, a, b) for a in (True, False) for b in (True, False)}
    ok = all(table[(a, b)] is (a or b) for a in (True, False) for b in (True, False))
    skip = sel_if or next((s for s in track_loop.body if isinstance(s, ast.If) and any(isinstance(x, ast.Continue) for x in ast.walk(s))), None)
    ctx.check(ok, "ROUTE", f"{FN}: a track is skipped iff it is in no group and not a meta track", function=FN,
              construct="track skip condition is not `in no group and not meta`",
              message=f"messages of a track are read when (in a group, listed as meta) = {sorted(k for k, v in table.items() if v is not False)}"
                      f"{' (undecided: ' + str(sorted(k for k, v in table.items() if v is None)) + ')' if any(v is None for v in table.values()) else ''}; "
                      f"expected every combination but (False, False)", file=fi.file, node=skip or track_loop)
    # current sequence selection: group member -> its own slot
    sel = [s for s in ast.walk(track_loop) if isinstance(s, ast.Assign) and any(isinstance(t, ast.Name) and t.id == cur for t in s.targets)
           and isinstance(s.value, ast.Subscript)]
    ok = len(sel) == 1 and ".index(" in src(sel[0].value)
    ctx.check(ok, "ROUTE", f"{FN}: a grouped track writes into its own slot of its group", function=FN,
              construct="grouped track does not select sequences[group][position]", message=f"{[short(s, 90) for s in sel]}", file=fi.file, node=track_loop)

    from ..astutil import path_conditions
    idxv = track_loop.target.elts[0].id if isinstance(track_loop.target, ast.Tuple) else None

    def _is_member_test(t):
        return is_member_test(t)

    def _is_meta_test(t):
        return isinstance(t, ast.Compare) and len(t.ops) == 1 and isinstance(t.ops[0], ast.In) and src(t.left) == idxv and src(t.comparators[0]) == metas
    for s_ in sel:
        pcs = path_conditions(s_, scope)
        ctx.check(len(pcs) == 1 and pcs[0][1] and _is_member_test(pcs[0][0]), "ROUTE", f"{FN}: the slot is selected exactly for tracks that belong to a group", function=FN,
                  construct="a track's own slot is selected under a condition other than `the track belongs to a group`",
                  message=f"{[(short(t, 50), h) for t, h in pcs]}", file=fi.file, node=s_)
    msel = [s_ for s_ in ast.walk(track_loop) if isinstance(s_, ast.Assign) and any(isinstance(t, ast.Name) and t.id == cur for t in s_.targets)
            and isinstance(s_.value, ast.Name) and s_.value.id == meta]
    ok_m = len(msel) == 1
    if ok_m:
        pcs = path_conditions(msel[0], scope)
        ok_m = len(pcs) == 2 and pcs[0][1] and _is_meta_test(pcs[0][0]) and (not pcs[1][1]) and _is_member_test(pcs[1][0])
        ok_m = ok_m or (len(pcs) == 1 and pcs[0][1] and _is_meta_test(pcs[0][0]) and any(x.lineno > msel[0].lineno for x in sel))
    ctx.check(ok_m, "ROUTE", f"{FN}: a meta-only track (in no group, listed as meta) writes into the meta sequence", function=FN,
              construct="meta-only tracks do not select the meta sequence as their current sequence",
              message=f"{[short(x) for x in msel]}", file=fi.file, node=msel[0] if msel else track_loop)

    # --- VEL0
    rfi, sp, rt = midi.reader_table(p)
    ctx.analysed(rfi)
    n_parse = midi.parse_rule(ctx)
    ctx.floor("reader dispatch cases decided", n_parse, 18)
    on = rt.get("note_on", [])
    kinds = sorted((str(r[0]), " and ".join(src(c) for c in r[2])) for r in on)
    pos = [r for r in on if r[0] == "NOTE_ON" and any(isinstance(c, ast.Compare) and isinstance(c.ops[0], ast.Gt) and "velocity" in src(c.left)
                                                     and isinstance(c.comparators[0], ast.Constant) and c.comparators[0].value == 0 for c in r[2])]
    zero = [r for r in on if r[0] == "NOTE_OFF" and any(isinstance(c, ast.Compare) and isinstance(c.ops[0], (ast.Eq, ast.LtE)) and "velocity" in src(c.left)
                                                       and isinstance(c.comparators[0], ast.Constant) and c.comparators[0].value == 0 for c in r[2])]
    ctx.check(len(on) == 2 and len(pos) == 1 and len(zero) == 1, "VEL0", f"reader: note_on partitions into velocity>0 -> NOTE_ON, velocity==0 -> NOTE_OFF ({kinds})",
              function=rfi.qualname, construct="note_on with velocity 0 is not read as NOTE_OFF (or velocity>0 not as NOTE_ON)", message=f"{kinds}",
              file=rfi.file, node=rfi.node)
    off = rt.get("note_off", [])
    ctx.check(len(off) == 1 and off[0][0] == "NOTE_OFF" and not off[0][2], "VEL0", "reader: note_off -> NOTE_OFF unconditionally", function=rfi.qualname,
              construct="note_off not read as NOTE_OFF", message=f"{[(r[0], [src(c) for c in r[2]]) for r in off]}", file=rfi.file, node=rfi.node)
    for k, T in (("time_signature", "TIME_SIGNATURE"), ("key_signature", "KEY_SIGNATURE")):
        rr = rt.get(k, [])
        ctx.check(len(rr) == 1 and rr[0][0] == T and not rr[0][2], "VEL0", f"reader: {k} -> {T}", function=rfi.qualname,
                  construct=f"{k} not read as {T}", message="", file=rfi.file, node=rfi.node)
    tset = [s for s in walk_local(rfi.node) if isinstance(s, ast.Assign) and any(isinstance(t, ast.Attribute) and t.attr == "time" for t in s.targets)]
    # (decided case by case by PARSE -- `time` is copied in each of the 18 cases -- whether by a store or by the constructor call;
    # the store is looked at only when it is there)
    ctx.check((not tset and n_parse >= 18) or (len(tset) == 1 and src(tset[0].value) == f"{sp}.time"
                                                and not any(isinstance(a, ast.If) for a in ancestors(tset[0]) if a is not rfi.node)),
              "VEL0", "reader: every message keeps its delta time", function=rfi.qualname, construct="delta time not copied for every message kind",
              message="", file=rfi.file, node=rfi.node)

    # --- TAB
    t = tables.Tables(p)
    names = tables.mido_key_names()
    kkm = t.table("KeyKeyMapping")
    if names is None:
        ctx.undetermined("TAB-MIDO", "reader key table covers mido's names", "mido source not found")
    else:
        ctx.floor("mido key names", len(names), 28)
        knm = t.table("KeyNoteMapping")
        tonic = {k[1]: t.note[v[0][0][1]] for k, v in knm.items()}
        letter = {"C": 0, "D": 2, "E": 4, "F": 5, "G": 7, "A": 9, "B": 11}
        for nm in names:
            ctx.check(nm in kkm, "TAB-MIDO", f"reader knows mido key name {nm!r}", function="MusicMapping",
                      construct=f"KeyKeyMapping lacks the mido key name {nm!r}",
                      message=f"loading a file whose key signature is {nm} raises KeyError in parse_mido_message", file=t.file, node=t.nodes["KeyKeyMapping"])
            if nm in kkm:
                minor = nm.endswith("m")
                base = nm[:-1] if minor else nm
                pc = (letter[base[0]] + base.count("#") - base[1:].count("b")) % 12
                want_tonic = (pc + 3) % 12 if minor else pc
                k = kkm[nm]
                ctx.check(tonic.get(k[1]) == want_tonic, "TAB-MIDO", f"{nm!r} maps to a key with the right tonic (Key.{k[1]})", function="MusicMapping",
                          construct=f"KeyKeyMapping sends {nm!r} to a key with the wrong tonic",
                          message=f"{nm} -> Key.{k[1]} (tonic {tonic.get(k[1])}), expected tonic {want_tonic}", file=t.file, node=t.nodes["KeyKeyMapping"])

    # --- MERGE
    after = [s for s in fi.node.body if s.lineno > track_loop.end_lineno]
    txt = "\n".join(src(s) for s in after)
    mg = next((s for s in after if isinstance(s, ast.For)), None)
    ok, why = False, "no loop over the groups after the track loop"
    if mg is not None and isinstance(mg.target, ast.Name):
        grp = mg.target.id
        first, rest = set(), set()          # expressions / names that denote the group's first member and the remaining members
        first.add(f"{grp}[0]")
        rest.add(f"{grp}[1:]")
        for a in ast.walk(mg):
            if isinstance(a, ast.Assign) and len(a.targets) == 1:
                t0, v0 = a.targets[0], a.value
                if isinstance(t0, ast.Name) and src(v0) in first:
                    first.add(t0.id)
                if isinstance(t0, ast.Name) and src(v0) in rest:
                    rest.add(t0.id)
                if isinstance(t0, (ast.Tuple, ast.List)) and len(t0.elts) == 2 and isinstance(t0.elts[0], ast.Name) and isinstance(t0.elts[1], ast.Starred) \
                        and isinstance(t0.elts[1].value, ast.Name) and src(v0) == grp:          # first, *others = group
                    first.add(t0.elts[0].id)
                    rest.add(t0.elts[1].value.id)
        merges = [c for c in ast.walk(mg) if isinstance(c, ast.Call) and call_method(c)[1] == "merge"]
        okm = len(merges) == 1 and src(call_method(merges[0])[0]) in first and len(merges[0].args) == 1 and src(merges[0].args[0]) in rest \
            and not any(isinstance(a, (ast.If, ast.For, ast.While)) for a in ancestors(merges[0]) if a is not mg and any(a is x for x in ast.walk(mg)))
        # every member normalised before the merge: a loop over the whole group calling .normalise() on its element
        norm = [lp for lp in ast.walk(mg) if isinstance(lp, ast.For) and lp is not mg and src(lp.iter) == grp and isinstance(lp.target, ast.Name)
                and any(isinstance(c, ast.Call) and call_method(c)[1] == "normalise" and src(call_method(c)[0]) == lp.target.id and not path_conditions(c, lp)
                        for c in ast.walk(lp))]
        okn = bool(norm) and bool(merges) and all(n_.end_lineno < merges[0].lineno for n_ in norm[:1])
        ok = okm and okn
        why = f"merge calls {[short(c, 60) for c in merges]}; per-member normalisation before it: {okn}"
    ctx.check(ok, "MERGE", f"{FN}: every group is normalised member by member and merged into its first member", function=FN,
              construct="group merge is not `first.merge(rest)` after normalising each member",
              message=why + ": a member that is not normalised on its own lets its dangling or orphan events pair with another track's notes", file=fi.file, node=mg or fi.node)
    if mg is not None:
        tc = TypeCase(p, fi, set(), None)
        exits = tc.run_body(mg.body)
        rng = events_matching(exits, lambda e: e[0] == "append")
        ctx.check(rng == (1, 1), "MERGE", f"{FN}: one result sequence per group {rng}", function=FN, construct="not exactly one sequence per group",
                  message=f"{rng}", file=fi.file, node=mg)
    rc = next((s for s in after if isinstance(s, ast.If) and any(isinstance(x, ast.Raise) for x in s.body) and target in src(s.test)), None)
    mm = [c for s in after for c in ast.walk(s) if isinstance(c, ast.Call) and call_method(c)[1] == "merge" and meta in src(c)]
    ctx.check(rc is not None and bool(mm) and rc.lineno < mm[0].lineno, "MERGE", f"{FN}: meta events merged into the range-checked target", function=FN,
              construct="meta sequence not merged into a range-checked target index", message="", file=fi.file, node=rc or fi.node)
    if rc is not None:
        t_ = rc.test
        from ..linear import Normaliser as _Nz, Sym as _Sym, relation as _rel, same_relation as _same
        ok = False
        if isinstance(t_, ast.BoolOp) and isinstance(t_.op, ast.Or) and len(t_.values) == 2:
            rels_ = [_rel(v, _Nz()) for v in t_.values]
            lens_ = [a for r_ in rels_ if r_ for a in r_[0].atoms() if a.startswith("len(")]
            low = any(r_ is not None and _same(r_, _Sym.atom(target), "<") for r_ in rels_)
            high = bool(lens_) and any(r_ is not None and _same(r_, _Sym.atom(target) - _Sym.atom(lens_[0]), ">=") for r_ in rels_)
            ok = low and high
        ctx.check(ok, "MERGE", f"{FN}: target index must satisfy 0 <= index < number of groups", function=FN,
                  construct="meta target range check is not `index < 0 or index >= len`", message=short(t_), file=fi.file, node=rc)


def _parse_path(ctx: Ctx) -> None:
    """ORDER (parse side): opening a file converts every mido track and every mido message, once, in order, into lists."""
    from ..engines.typecase import TypeCase, events_matching
    p = ctx.p
    for q, what in (("MidiFile.parse_mido", "parse_mido_track"), ("MidiTrack.parse_mido_track", "parse_mido_message")):
        f2 = p.func(q)
        ctx.analysed(f2)
        lp = next((n for n in walk_local(f2.node) if isinstance(n, ast.For)), None)
        if lp is None:
            # another spelling: a list comprehension / list(map(...)) over the source converts everything in order as well;
            # a bare map(...) is reported by LAZY; anything else is not judged
            whole = [e for e in walk_local(f2.node) if (isinstance(e, ast.ListComp) and len(e.generators) == 1 and not e.generators[0].ifs
                                                       and any(isinstance(c, ast.Call) and call_method(c)[1] == what for c in ast.walk(e.elt)))
                     or (isinstance(e, ast.Call) and isinstance(e.func, ast.Name) and e.func.id == "list" and e.args and isinstance(e.args[0], ast.Call)
                         and isinstance(e.args[0].func, ast.Name) and e.args[0].func.id == "map" and what in src(e.args[0]))]
            if whole:
                ctx.ok("ORDER", f"{q}: converts every element, in order, exactly once, into a list (comprehension form)")
            else:
                ctx.undetermined("ORDER", f"{q}: conversion of every element", "no loop / comprehension over the source: idiom not judged")
            continue
        ok = True
        if ok:
            tc = TypeCase(p, f2, set(), None)
            exits = tc.run_body(lp.body)
            rng = events_matching(exits, lambda e: e[0] == "append")
            calls = [c for c in ast.walk(lp) if isinstance(c, ast.Call) and call_method(c)[1] == what]
            ok = rng == (1, 1) and {k for k, _ in exits} == {"end"} and bool(calls) and isinstance(lp.iter, (ast.Name, ast.Attribute))
        ctx.check(ok, "ORDER", f"{q}: converts every element, in order, exactly once, into a list", function=q,
                  construct="parsing does not convert every element exactly once in order into a list",
                  message="tracks / messages of the file would be missing, repeated, reordered or only iterable once", file=f2.file, node=f2.node)


def _is_none_test(t: ast.AST, name: str):
    """True if `t` holds exactly when `name` is None, False if exactly when it is not None, else None."""
    if isinstance(t, ast.Compare) and len(t.ops) == 1 and isinstance(t.left, ast.Name) and t.left.id == name \
            and isinstance(t.comparators[0], ast.Constant) and t.comparators[0].value is None:
        if isinstance(t.ops[0], (ast.Is, ast.Eq)):
            return True
        if isinstance(t.ops[0], (ast.IsNot, ast.NotEq)):
            return False
    return None


def _entry(ctx: Ctx) -> None:
    """ENTRY: the two short routines every load goes through.  `MidiFile.open` parses the named file into an object created by
    this very call, on every call; `Sequence.sequences_load` opens the file exactly when no parsed file was handed in, fills a
    missing grouping with one group per track (in file order) and a missing meta list with every track, and returns what
    `convert` produced for exactly these arguments."""
    from ..astutil import path_conditions, early_exits_before
    p = ctx.p
    q = "MidiFile.open"
    fo = p.functions.get(q)
    if fo is None:
        ctx.undetermined("ENTRY", f"{q}", "routine not found: not judged")
    else:
        ctx.analysed(fo)
        rets = [r for r in walk_local(fo.node) if isinstance(r, ast.Return)]
        rv = rets[0].value.id if len(rets) == 1 and isinstance(rets[0].value, ast.Name) else None
        defs = [a for a in walk_local(fo.node) if isinstance(a, ast.Assign) and any(isinstance(t, ast.Name) and t.id == rv for t in a.targets)] if rv else []
        fresh = len(defs) == 1 and isinstance(defs[0].value, ast.Call) and isinstance(defs[0].value.func, ast.Name) and defs[0].value.func.id == "MidiFile" \
            and not defs[0].value.args and not defs[0].value.keywords and not path_conditions(defs[0])
        ctx.check(fresh, "ENTRY", f"{q}: returns an object created by this call", function=q,
                  construct="open can return a file object that was not created (and parsed) by this call",
                  message=f"definitions of the result: {[short(d, 60) for d in defs]}: a result kept from an earlier call does not show what the file holds now",
                  file=fo.file, node=defs[0] if defs else fo.node)
        parses = [c for c in walk_local(fo.node) if isinstance(c, ast.Call) and call_method(c)[1] == "parse_mido" and isinstance(call_method(c)[0], ast.Name)
                  and call_method(c)[0].id == rv]
        okp = len(parses) == 1 and not path_conditions(parses[0]) and not early_exits_before(fo.node, parses[0])
        ctx.check(okp, "ENTRY", f"{q}: the file is parsed into the result on every call", function=q,
                  construct="open does not parse the file on every call",
                  message=f"parse calls {len(parses)}, conditions {[short(t, 50) for c in parses for t, _ in path_conditions(c)]}", file=fo.file,
                  node=parses[0] if parses else fo.node)
        if parses:
            a0 = parses[0].args[0] if parses[0].args else None
            srcs = {n.id for n in ast.walk(a0) if isinstance(n, ast.Name)} if a0 is not None else set()
            # the argument (directly or through one local) is mido.MidiFile(<the file name parameter>)
            ctor = [c for c in walk_local(fo.node) if isinstance(c, ast.Call) and src(c.func) == "mido.MidiFile"]
            okc = len(ctor) == 1 and ctor[0].args and isinstance(ctor[0].args[0], ast.Name) and ctor[0].args[0].id == fo.params[0] \
                and (ctor[0] is a0 or any(isinstance(a, ast.Assign) and a.value is ctor[0] and isinstance(a.targets[0], ast.Name) and a.targets[0].id in srcs
                                          for a in walk_local(fo.node)))
            ctx.check(okc, "ENTRY", f"{q}: what is parsed is the file named by the argument", function=q,
                      construct="open parses something other than the file named by its argument", message=short(parses[0], 80), file=fo.file, node=parses[0])
    q = "Sequence.sequences_load"
    fl = p.functions.get(q)
    if fl is None:
        ctx.undetermined("ENTRY", f"{q}", "routine not found: not judged")
        return
    ctx.analysed(fl)
    pr = fl.params
    path_p, file_p = pr[0], pr[1]
    opens = [c for c in walk_local(fl.node) if isinstance(c, ast.Call) and src(c.func) == "MidiFile.open"]
    oko = len(opens) == 1 and opens[0].args and isinstance(opens[0].args[0], ast.Name) and opens[0].args[0].id == path_p
    if oko:
        st = next((a for a in ancestors(opens[0]) if isinstance(a, ast.Assign)), None)
        pcs = path_conditions(st) if st is not None else []
        oko = st is not None and isinstance(st.targets[0], ast.Name) and st.targets[0].id == file_p and len(pcs) == 1 \
            and _is_none_test(pcs[0][0], file_p) is pcs[0][1]
    ctx.check(oko, "ENTRY", f"{q}: the file is opened exactly when no parsed file was handed in", function=q,
              construct="sequences_load does not open the named file exactly when `midi_file` is None",
              message=f"{[short(c, 60) for c in opens]}", file=fl.file, node=opens[0] if opens else fl.node)
    conv = [c for c in walk_local(fl.node) if isinstance(c, ast.Call) and call_method(c)[1] == "convert"]
    okc = len(conv) == 1 and isinstance(call_method(conv[0])[0], ast.Name) and call_method(conv[0])[0].id == file_p and not path_conditions(conv[0])
    if okc:
        c = conv[0]
        got = [src(a) for a in c.args] + [f"{k.arg}={src(k.value)}" for k in c.keywords]
        want_pos = [pr[2], pr[3]]
        flat = {**{i: src(a) for i, a in enumerate(c.args)}, **{k.arg: src(k.value) for k in c.keywords}}
        cv = p.functions.get("MidiFile.convert")
        names = cv.params[1:] if cv is not None else ["track_indices", "meta_track_indices", "meta_track_index"]
        bound = {}
        for i, nme in enumerate(names):
            if i in flat:
                bound[nme] = flat[i]
            elif nme in flat:
                bound[nme] = flat[nme]
        okc = [bound.get(n_) for n_ in names[:3]] == [pr[2], pr[3], pr[4]]
        rets = [r for r in walk_local(fl.node) if isinstance(r, ast.Return)]
        res = next((a.targets[0].id for a in walk_local(fl.node) if isinstance(a, ast.Assign) and a.value is c and isinstance(a.targets[0], ast.Name)), None)
        okr = len(rets) == 1 and (rets[0].value is c or (isinstance(rets[0].value, ast.Name) and rets[0].value.id == res))
        ctx.check(okc and okr, "ENTRY", f"{q}: returns convert(groups, meta tracks, meta target) unchanged ({got})", function=q,
                  construct="sequences_load does not hand its three selections to convert in their places and return the result",
                  message=f"bound {bound}, returned directly {okr}", file=fl.file, node=c)
    else:
        ctx.check(False, "ENTRY", f"{q}: one unconditional convert call on the parsed file", function=q,
                  construct="sequences_load does not convert the parsed file exactly once, unconditionally", message=f"{[short(c, 60) for c in conv]}",
                  file=fl.file, node=conv[0] if conv else fl.node)
    # defaults of the two selections
    for sel, per_track in ((pr[2], "[i]"), (pr[3], "i")):
        defs = [a for a in walk_local(fl.node) if isinstance(a, ast.Assign) and isinstance(a.targets[0], ast.Name) and a.targets[0].id == sel]
        ok = len(defs) == 1
        why = f"{[short(d, 70) for d in defs]}"
        if ok:
            d = defs[0]
            pcs = path_conditions(d)
            ok = len(pcs) == 1 and _is_none_test(pcs[0][0], sel) is pcs[0][1]
            v = d.value
            if ok and isinstance(v, ast.ListComp) and len(v.generators) == 1:
                g = v.generators[0]
                it = src(g.iter)
                idx = None
                if it == f"enumerate({file_p}.tracks)" and isinstance(g.target, ast.Tuple) and isinstance(g.target.elts[0], ast.Name):
                    idx = g.target.elts[0].id
                elif it == f"range(len({file_p}.tracks))" and isinstance(g.target, ast.Name):
                    idx = g.target.id
                ok = idx is not None and src(v.elt) == per_track.replace("i", idx) and not g.ifs
            elif ok and per_track == "i" and src(v) == f"list(range(len({file_p}.tracks)))":
                ok = True
            elif ok:
                ctx.undetermined("ENTRY", f"{q}: default of `{sel}`", "not a comprehension over the file's tracks: not judged")
                continue
        ctx.check(ok, "ENTRY", f"{q}: a missing `{sel}` becomes every track of the file, in file order" + (", one group each" if per_track == "[i]" else ""), function=q,
                  construct=f"default of `{sel}` is not `every track, in order`", message=why, file=fl.file, node=defs[0] if defs else fl.node)


def check(ctx: Ctx) -> None:
    _main_check(ctx)
    _parse_path(ctx)
    _entry(ctx)
    from .common import view_deps
    view_deps(ctx)
