"""C19 -- token annotations agree with the detokenised timeline (clock-effect agreement get_info <-> detokenise)."""
from __future__ import annotations

import ast

from ..astutil import ancestors, attr_chain, call_method, enum_member, short, src
from ..linear import Normaliser, Sym
from ..model import walk_local, AnalysisError
from ..report import Ctx
from ..engines import tokeniser as T
from ..engines.templates import TOK, parse_parts
from ..engines.typecase import TypeCase, events_matching

CLOCK_PREFIXES = ("BAR", "REST", "TIME_SIGNATURE")


def clock_summaries(ctx: Ctx, q: str, fallback: dict | None = None):
    """prefix -> (core effect dict, guarded?, skip-noop?) for the three clock-relevant prefixes; others -> effect."""
    p = ctx.p
    fi = p.func(q)
    chain = T.dispatch_chain(fi.node)
    out = {}
    bodies = {m: body for m, _, body in chain if m is not None}
    # an earlier branch selected by `is not prefix X` is taken for every other prefix: the branches after it are dead for them
    negs = []
    for m, test, _ in chain:
        if isinstance(m, str) and m.startswith("not:"):
            negs.append((m[4:], test))
        elif m is not None:
            sh = [t_ for x, t_ in negs if x != m]
            ctx.check(not sh, "CHAIN", f"{q}: the branch of {m} is not shadowed by an earlier branch", function=q,
                      construct=f"the {m} branch of the prefix dispatch is unreachable",
                      message=f"an earlier branch `{short(sh[0], 60) if sh else ''}` is taken for every prefix but one: {m} parts never reach their own branch",
                      file=fi.file, node=test)
    roles = None
    if "REST" in bodies and "BAR" in bodies:
        from ..linear import Sym
        roles = T.roles_from_effects(T.branch_effect(bodies["REST"], p.settings), T.branch_effect(bodies["BAR"], p.settings), Sym.atom("FIELD(1)"))
    if roles is None:
        # the REST/BAR handling does not have the canonical shape: fall back to the sibling's variable names so that the
        # comparison below reports the deviation; if those names do not exist here either, the function is outside the model
        fb = fallback or {r: r for r in T.ROLE_NAMES}
        names = {n.id for n in ast.walk(fi.node) if isinstance(n, ast.Name)}
        if not all(a in names for a in fb.values()):
            raise AnalysisError(f"{q}: the four clock variables could not be identified from the REST/BAR branches")
        roles = dict(fb)
    ctx.extra.setdefault("clock_roles", {})[q.split(".")[-1]] = roles
    for m, test, body in chain:
        key = m if m is not None else "<else>"
        if m == "TIME_SIGNATURE":
            guarded, noop, stmts, gnode = T.ts_guard_split(body, roles["cur_time_bar"])
            eff = T.core_effect(T.branch_effect(stmts, p.settings), roles)
            out[key] = (eff, guarded, noop)
        else:
            eff = T.core_effect(T.branch_effect(body, p.settings), roles)
            out[key] = (eff, None, None)
    return fi, chain, out


def check(ctx: Ctx) -> None:
    p = ctx.p
    ctx.explanation = (
        "Clock-effect agreement between MultiTrack...Tokeniser.get_info and detokenise: for every prefix branch the net "
        "effect on the timing core (cur_time, cur_time_bar, remaining and total bar capacity) is computed by forward "
        "substitution into a rational normal form with token fields canonicalised to FIELD(k). CLK1 the summaries of BAR, REST "
        "and TIME_SIGNATURE are identical in both functions and every other prefix leaves the core untouched in both; CLK3 the "
        "bar-capacity formula is the same normal form int(ppqn*4*N/D) at all sites; CLK4 on every path through get_info's loop "
        "each of the five annotation lists receives exactly one entry and the position counter grows by one; the time and bar "
        "time are recorded before the token's own effect; positions start at 0; CLK5 the mid-bar time-signature guard is present "
        "and skips without side effect in both; INIT both clocks start from the same initial values; PITCH pitch and "
        "circle-of-fifths annotations derive from the same parsed PITCH field, and detokenise places the note-on at the clock "
        "value annotated; TPL6 no vocabulary token combines two clock-relevant parts (so dispatching on the first part suffices). "
        "Not decided: monotonicity / in-bar time of tokenise-produced streams as numeric facts.")
    ctx.assumptions += ["tokens are vocabulary members (C02)", "DEFAULT_TIME_SIGNATURE numerator and denominator are the configured integers"]
    try:
        fd, chain_d, sum_d = clock_summaries(ctx, f"{TOK}.detokenise")
        fg, chain_g, sum_g = clock_summaries(ctx, f"{TOK}.get_info", fallback=ctx.extra["clock_roles"]["detokenise"])
    except AnalysisError:
        fg, chain_g, sum_g = clock_summaries(ctx, f"{TOK}.get_info")
        fd, chain_d, sum_d = clock_summaries(ctx, f"{TOK}.detokenise", fallback=ctx.extra["clock_roles"]["get_info"])
    ctx.analysed(fd)
    ctx.analysed(fg)
    ctx.floor("detokenise dispatch branches", len(chain_d), 7)       # the seven prefixes that do something; PAD, START, STOP may be skipped by one membership test
    ctx.floor("get_info dispatch branches", len(chain_g), 4)       # BAR, REST, PITCH, TIME_SIGNATURE (a final else is optional)

    # --- CLK1
    for pr in CLOCK_PREFIXES:
        d, g = sum_d.get(pr), sum_g.get(pr)
        inst = f"{pr}: detokenise {d[0] if d else None} vs get_info {g[0] if g else None}"
        if d is None or g is None:
            ctx.violation("CLK1", inst, function=(fg if g is None else fd).qualname, construct=f"no {pr} branch in {'get_info' if g is None else 'detokenise'}",
                          message=f"{pr} tokens would not advance the {'annotation' if g is None else 'detokenise'} clock", file=fg.file, node=fg.node)
            continue
        ctx.check(d[0] == g[0], "CLK1", inst, function=fg.qualname, construct=f"{pr} token changes the clock differently in get_info and detokenise",
                  message=f"detokenise: {d[0]}; get_info: {g[0]}", file=fg.file, node=fg.node)
        ctx.sample({"prefix": pr, "detokenise": d[0], "get_info": g[0]})
    for key, (eff, _, _) in sorted(sum_d.items()):
        if key in CLOCK_PREFIXES:
            continue
        ctx.check(not eff, "CLK1", f"detokenise: {key} leaves the clock untouched", function=fd.qualname,
                  construct=f"detokenise: {key} branch changes the clock", message=f"{eff}", file=fd.file, node=fd.node)
    for key, (eff, _, _) in sorted(sum_g.items()):
        if key in CLOCK_PREFIXES:
            continue
        ctx.check(not eff, "CLK1", f"get_info: {key} leaves the clock untouched", function=fg.qualname,
                  construct=f"get_info: {key} branch changes the clock", message=f"{eff}", file=fg.file, node=fg.node)
    # get_info dispatches on the first part / PITCH membership; branch order must not shadow a clock prefix
    order_g = [m for m, _, _ in chain_g]
    ctx.check(all(pr in order_g for pr in CLOCK_PREFIXES), "CLK1", f"get_info handles {CLOCK_PREFIXES} (order {order_g})", function=fg.qualname,
              construct="get_info lacks a branch for a clock-relevant prefix", message=f"{order_g}", file=fg.file, node=fg.node)

    # --- CLK5
    for name, summ, f in (("detokenise", sum_d, fd), ("get_info", sum_g, fg)):
        s = summ.get("TIME_SIGNATURE")
        if s is None:
            continue
        ctx.check(s[1] is True and s[2] is True, "CLK5", f"{name}: a time signature in mid-bar is ignored without side effect", function=f.qualname,
                  construct=f"{name}: mid-bar time-signature guard missing or not side-effect free",
                  message="a signature token inside a partly filled bar must not change the capacity", file=f.file, node=f.node)

    # --- CLK3
    sites = T.capacity_sites(p)
    ctx.floor("bar-capacity formula sites", len(sites), 6)
    ref = "4*D^-1*N*self.ppqn"
    for q, node, canon, wrapped in sites:
        ctx.check(canon == ref and wrapped, "CLK3", f"{q}:{short(node.targets[0])} = int({canon})", function=q,
                  construct="bar capacity formula deviates from int(ppqn*4*numerator/denominator)",
                  message=f"normal form `{canon}`{'' if wrapped else ' (not wrapped in int())'}, expected `{ref}`", file=p.func(q).file, node=node)
    # remaining is reset to total together with total (every site is followed by remaining = total)
    # --- INIT
    def inits(f):
        out = {}
        nz = Normaliser(atom_hook=T.field_hook(p.settings))
        for s in f.node.body:
            if isinstance(s, ast.For):
                break
            if isinstance(s, ast.Assign) and isinstance(s.targets[0], ast.Name):
                nz.assign(s.targets[0], s.value)
        roles = ctx.extra["clock_roles"][f.name]
        sub = {a: Sym.atom(r) for r, a in roles.items()}
        for r, a in roles.items():
            if a in nz.env:
                c = nz.env[a].subst(sub).canon()
                out[r] = T.rename_sig(c) if "capacity" in r else c
        return out
    id_, ig = inits(fd), inits(fg)
    ctx.check(id_ == ig and len(id_) >= 4, "INIT", f"both clocks start at {id_}", function=fg.qualname,
              construct="get_info and detokenise start from different clock values", message=f"detokenise {id_}; get_info {ig}", file=fg.file, node=fg.node)
    ctx.check(id_.get("cur_time") == "0" and id_.get("cur_time_bar") == "0", "INIT", "clocks start at tick 0, bar time 0", function=fd.qualname,
              construct="detokenise clock does not start at 0", message=f"{id_}", file=fd.file, node=fd.node)

    # --- CLK4
    loop = next((n for n in fg.node.body if isinstance(n, ast.For)), None)
    ret = next((n for n in walk_local(fg.node) if isinstance(n, ast.Return) and isinstance(n.value, ast.Dict)), None)
    if loop is None or ret is None:
        raise AnalysisError("get_info: token loop / result dictionary not found")
    lists = [v.id for v in ret.value.values if isinstance(v, ast.Name)]
    ctx.floor("annotation lists", len(lists), 5)
    tc = TypeCase(p, fg, set(), None)
    exits = tc.run_body(loop.body)
    kinds = {k for k, _ in exits}
    ctx.check(kinds == {"end"}, "CLK4", f"get_info: every token reaches the end of the loop body (exits {sorted(kinds)})", function=fg.qualname,
              construct="get_info can skip a token (continue/break/raise inside the loop)", message=f"{sorted(kinds)}", file=fg.file, node=loop)
    for L in lists:
        rng = events_matching(exits, lambda e: e[0] == "append" and e[1] == L, kinds=("end", "continue"))
        ctx.check(rng == (1, 1), "CLK4", f"get_info: `{L}` gets exactly one entry per token {rng}", function=fg.qualname,
                  construct="an annotation list does not get exactly one entry per token on every path",
                  message=f"`{L}` receives {rng} entries for some token: the lists would go out of step with the token stream", file=fg.file, node=loop)
    pos = None
    for s in fg.node.body:
        if isinstance(s, ast.Assign) and isinstance(s.targets[0], ast.Name) and "pos" in s.targets[0].id and isinstance(s.value, ast.Constant):
            pos = s
    counted = None
    if pos is None and isinstance(loop.iter, ast.Call) and src(loop.iter.func) == "enumerate" and isinstance(loop.target, ast.Tuple) and len(loop.target.elts) == 2 \
            and isinstance(loop.target.elts[0], ast.Name):
        counted = loop.target.elts[0].id            # the position is the loop's own count: 0, 1, 2, ... by construction
    if pos is None and counted is None:
        raise AnalysisError("get_info: position counter not found")
    if counted is not None:
        pv = counted
        start = loop.iter.args[1] if len(loop.iter.args) > 1 else next((k.value for k in loop.iter.keywords if k.arg == "start"), None)
        ctx.check(start is None or (isinstance(start, ast.Constant) and start.value == 0), "CLK4", "get_info: positions start at 0", function=fg.qualname,
                  construct="position counter does not start at 0", message=short(loop.iter), file=fg.file, node=loop)
        rebinds = [x for x in ast.walk(ast.Module(body=loop.body, type_ignores=[])) if isinstance(x, ast.Name) and x.id == pv and isinstance(x.ctx, ast.Store)]
        ctx.check(not rebinds, "CLK4", "get_info: position grows by exactly one per token (enumerate)", function=fg.qualname,
                  construct="position counter does not grow by exactly one per token", message="the loop's count is overwritten in the body", file=fg.file, node=loop)
        incs = []
    else:
        pv = pos.targets[0].id
        ctx.check(pos.value.value == 0, "CLK4", "get_info: positions start at 0", function=fg.qualname, construct="position counter does not start at 0",
                  message="", file=fg.file, node=pos)
        rng = events_matching(exits, lambda e: e[0] == "aug" and e[1] == pv, kinds=("end", "continue"))
        incs = [s for s in ast.walk(loop) if isinstance(s, ast.AugAssign) and isinstance(s.target, ast.Name) and s.target.id == pv]
        ctx.check(rng == (1, 1) and all(isinstance(s.op, ast.Add) and isinstance(s.value, ast.Constant) and s.value.value == 1 for s in incs), "CLK4",
                  f"get_info: position grows by exactly one per token {rng}", function=fg.qualname,
                  construct="position counter does not grow by exactly one per token", message=f"{rng}", file=fg.file, node=loop)
    # recorded before the token's own effect: appends of position/time/bar-time precede the dispatch chain
    first_if = next((s for s in loop.body if isinstance(s, ast.If) and T.enum_member_in_test(s.test) is not None), None)
    recorded = {}
    for s in loop.body:
        if isinstance(s, ast.Expr) and isinstance(s.value, ast.Call) and call_method(s.value)[1] == "append" and isinstance(call_method(s.value)[0], ast.Name):
            recorded[call_method(s.value)[0].id] = (s, src(s.value.args[0]) if s.value.args else "")
    keys = {k.value: v.id for k, v in zip(ret.value.keys, ret.value.values) if isinstance(k, ast.Constant) and isinstance(v, ast.Name)}
    groles = ctx.extra["clock_roles"]["get_info"]
    for key, var in (("info_position", pv), ("info_time", groles["cur_time"]), ("info_time_bar", groles["cur_time_bar"])):
        L = keys.get(key)
        rec = recorded.get(L)
        ok = rec is not None and rec[1] == var and first_if is not None and rec[0].lineno < first_if.lineno
        ctx.check(ok, "CLK4", f"get_info: `{key}` records `{var}` before the token's own clock effect", function=fg.qualname,
                  construct=f"`{key}` does not record `{var}` before the token is applied",
                  message=f"recorded `{rec[1] if rec else None}`", file=fg.file, node=rec[0] if rec else loop)
    inc_last = counted is not None or (incs and incs[0] in loop.body and (first_if is None or incs[0].lineno > first_if.lineno))
    ctx.check(bool(inc_last), "CLK4", "get_info: the position is incremented after it was recorded", function=fg.qualname,
              construct="position incremented before it is recorded", message="", file=fg.file, node=loop)

    # --- PITCH
    pb = next((b for m, t, b in chain_g if m == "PITCH"), None)
    if pb is None:
        ctx.violation("PITCH", "get_info PITCH branch", function=fg.qualname, construct="get_info has no PITCH branch", message="", file=fg.file, node=fg.node)
    else:
        nz = Normaliser(atom_hook=T.field_hook(p.settings))
        nz.run_block(pb)
        apps = {}
        for s in ast.walk(ast.Module(body=pb, type_ignores=[])):
            if isinstance(s, ast.Call) and call_method(s)[1] == "append" and isinstance(call_method(s)[0], ast.Name) and s.args:
                apps[call_method(s)[0].id] = s.args[0]
        if not apps:
            # the branch only notes the pitch (`p = int(part[1])`, p being None for every other token); the lists are written after the
            # dispatch, under `p is not None`
            locs = {a.targets[0].id for a in pb if isinstance(a, ast.Assign) and len(a.targets) == 1 and isinstance(a.targets[0], ast.Name)}
            for s in loop.body:
                if isinstance(s, ast.If) and isinstance(s.test, ast.Compare) and len(s.test.ops) == 1 and isinstance(s.test.ops[0], (ast.IsNot, ast.NotEq)) \
                        and isinstance(s.test.left, ast.Name) and s.test.left.id in locs and isinstance(s.test.comparators[0], ast.Constant) and s.test.comparators[0].value is None \
                        and any(isinstance(d, ast.Assign) and isinstance(d.targets[0], ast.Name) and d.targets[0].id == s.test.left.id and isinstance(d.value, ast.Constant)
                                and d.value.value is None and d.lineno < s.lineno for d in loop.body):
                    for c in ast.walk(ast.Module(body=s.body, type_ignores=[])):
                        if isinstance(c, ast.Call) and call_method(c)[1] == "append" and isinstance(call_method(c)[0], ast.Name) and c.args:
                            apps[call_method(c)[0].id] = c.args[0]
        pl, cl = keys.get("info_pitch"), keys.get("info_circle_of_fifths")
        pe, ce = apps.get(pl), apps.get(cl)
        okp = pe is not None and nz.norm(pe).canon() == "FIELD(1)"
        okc = isinstance(ce, ast.Call) and attr_chain(ce.func) == ["CircleOfFifths", "get_position"] and ce.args and nz.norm(ce.args[0]).canon() == "FIELD(1)"
        ctx.check(okp, "PITCH", "get_info: pitch annotation = the parsed PITCH field", function=fg.qualname,
                  construct="pitch annotation is not the PITCH field of the token", message=short(pe), file=fg.file, node=pe or fg.node)
        ctx.check(okc, "PITCH", "get_info: circle-of-fifths annotation = get_position(the same PITCH field)", function=fg.qualname,
                  construct="circle-of-fifths annotation is not derived from the token's PITCH field", message=short(ce), file=fg.file, node=ce or fg.node)
        # the part consulted is the PITCH part
        gens = [g for s in pb for g in ast.walk(s) if isinstance(g, ast.GeneratorExp)]
        # ... or looked up before the dispatch into a local the branch reads
        used = {x.id for s in pb for x in ast.walk(s) if isinstance(x, ast.Name) and isinstance(x.ctx, ast.Load)}
        gens += [g for s in loop.body if isinstance(s, ast.Assign) and len(s.targets) == 1 and isinstance(s.targets[0], ast.Name) and s.targets[0].id in used
                 for g in ast.walk(s.value) if isinstance(g, ast.GeneratorExp)]
        ok = any(enum_member(c.comparators[0], "TokenisationPrefixes") == "PITCH" and isinstance(c.ops[0], ast.Eq) and len(c.ops) == 1
                 and isinstance(c.left, ast.Subscript) and isinstance(c.left.slice, ast.Constant) and c.left.slice.value == 0
                 and not any(isinstance(a, ast.UnaryOp) and isinstance(a.op, ast.Not) for a in ancestors(c) if a in list(ast.walk(g)))
                 for g in gens for c in ast.walk(g) if isinstance(c, ast.Compare))
        if not ok:
            # ... or by position in the list of the parts' prefixes: `parts[prefixes.index(PITCH)]` with `prefixes = [q[0] for q in parts]`
            prefix_lists = {}
            for s in ast.walk(loop):
                if isinstance(s, ast.Assign) and len(s.targets) == 1 and isinstance(s.targets[0], ast.Name) and isinstance(s.value, ast.ListComp) \
                        and len(s.value.generators) == 1 and not s.value.generators[0].ifs and isinstance(s.value.generators[0].target, ast.Name) \
                        and src(s.value.elt) == f"{s.value.generators[0].target.id}[0]":
                    prefix_lists[s.targets[0].id] = src(s.value.generators[0].iter)
            for x in ast.walk(loop):
                if isinstance(x, ast.Subscript) and isinstance(x.slice, ast.Call) and call_method(x.slice)[1] == "index" and len(x.slice.args) == 1 \
                        and enum_member(x.slice.args[0], "TokenisationPrefixes") == "PITCH" and isinstance(call_method(x.slice)[0], ast.Name) \
                        and prefix_lists.get(call_method(x.slice)[0].id) == src(x.value):
                    st_ = next((a for a in ancestors(x) if isinstance(a, ast.stmt)), None)
                    if st_ is not None and (any(st_ is y or any(st_ is z for z in ast.walk(y)) for y in pb)):
                        ok = True
        ctx.check(ok, "PITCH", "get_info: the PITCH part of a fused token is looked up by its prefix", function=fg.qualname,
                  construct="get_info does not select the PITCH part by prefix", message="", file=fg.file, node=fg.node)
    pd = next((b for m, t, b in chain_d if m == "PITCH"), None)
    if pd is not None:
        ons = [c for s in pd for c in ast.walk(s) if isinstance(c, ast.Call) and isinstance(c.func, ast.Name) and c.func.id == "Message"]
        nzd = Normaliser(atom_hook=T.field_hook(p.settings))
        nzd.run_block(pd)
        for c in ons:
            kw = {k.arg: k.value for k in c.keywords}
            mt = enum_member(kw.get("message_type"), "MessageType")
            if mt == "NOTE_ON":
                ctx.check(nzd.norm(kw.get("time")).canon() == ctx.extra["clock_roles"]["detokenise"]["cur_time"] and nzd.norm(kw.get("note")).canon() == "FIELD(1)", "PITCH",
                          "detokenise: note-on placed at the current clock with the token's pitch", function=fd.qualname,
                          construct="detokenise does not place the note-on at cur_time with the PITCH field",
                          message=f"time={short(kw.get('time'))} note={short(kw.get('note'))}", file=fd.file, node=c)

    # --- the circle-of-fifths position used for the annotation (exhaustive over pitch classes, as in C20)
    from ..engines import tables as _tables
    _t = _tables.Tables(p)
    _ev = _tables.IntEval(p, _t)
    badpos = []
    for a in range(12):
        pa = _ev.call("CircleOfFifths.get_position", [a])
        want = [_t.note[n[1]] for n in _t.table("circle_of_fifths_order")].index(a) - 5
        if pa != want:
            badpos.append((a, pa, want))
    ctx.check(not badpos, "PITCH", "get_position(pitch) = index of the pitch class in the circle-of-fifths order, minus 5 (all 12 classes)",
              function="CircleOfFifths.get_position", construct="circle-of-fifths position of a pitch class is wrong",
              message=f"(pitch class, got, expected): {badpos[:4]}", file=_t.file, node=p.func("CircleOfFifths.get_position").node)

    # --- TPL6 (one clock-relevant part per vocabulary token)
    bad = []
    n_tok = 0
    for fl in T.all_flag_assignments():
        for t in T.vocabulary_templates(p, fl):
            pp = parse_parts(t, {})
            if not pp or pp[0] == "TRAILING-SEPARATOR":
                pp = pp[1] if pp else ()
            n_tok += 1
            clock_parts = [x[0] for x in pp if x[0] in CLOCK_PREFIXES]
            if len(pp) > 1 and clock_parts:
                bad.append(pp)
    ctx.check(not bad, "TPL6", f"no vocabulary token fuses a clock-relevant part with others ({n_tok} token shapes, all flag assignments)",
              function=f"{TOK}._construct_dictionary", construct="a vocabulary token combines a clock-relevant part with other parts",
              message=f"{bad[:2]}", file=fd.file, node=fd.node)
