"""C02 -- vocabulary is closed under tokenise; encode and decode are inverse bijections."""
from __future__ import annotations

import ast

from ..astutil import attr_chain, call_method, enum_member, short, src, ancestors
from ..model import walk_local, AnalysisError
from ..report import Ctx
from ..engines import tokeniser as T
from ..engines.templates import parse_parts, show, TOK
from ..engines.kinds import KindEngine, may_float, is_determined_int, show as kshow, elem


def fmt_parts(parts) -> str:
    if isinstance(parts, tuple) and parts and parts[0] == "TRAILING-SEPARATOR":
        return fmt_parts(parts[1]) + "-"
    return "-".join(p + "".join(f"_{{{d}:{s}}}" if not d.startswith("CONST(") else "_" + d[6:-1] for d, s in f) for p, f in parts)


def check(ctx: Ctx) -> None:
    p = ctx.p
    fv = p.func(f"{TOK}._construct_dictionary")
    fe = p.func(f"{TOK}.tokenise")
    fd = p.func(f"{TOK}.detokenise")
    for f in (fv, fe, fd):
        ctx.analysed(f)
    ctx.explanation = (
        "Template analysis of the tokeniser's two string builders, for all 16 assignments of the fuse/running flags: "
        "TPL1 every token shape the emitter (tokenise + _apply_rest) can append -- prefix, field order, format spec and the "
        "domain each field ranges over -- is a shape the vocabulary builder inserts; the emitter's domains are established by "
        "the raising guards that dominate the emission (pitch range, note values, signature range, track count + set_channel) "
        "or by provenance (an element of the very list the vocabulary iterates); TPL2 every vocabulary insertion stores the "
        "running size and is followed by exactly one `+= 1` before the next insertion (ids 0..size-1, size = entries); TPL3 the "
        "inverse map is the exact inversion comprehension built after the last insertion; encode/decode are plain look-ups in "
        "the two maps; TPL4 every vocabulary part kind has a detokenise branch that reads only the fields the part provides, "
        "each through int(); NK2 every numeric field formatted into a token is int-kinded on both sides (so `int(field)` "
        "parses and no decimal point is rendered); DISTINCT the velocity values the vocabulary iterates are de-duplicated (the bin "
        "producer clamps to the maximum, so several bins can carry the same value). Assumes duplicate-free user-supplied lists.")
    ctx.assumptions += ["user-supplied step sizes / note values contain no duplicates and are non-negative integers",
                        "velocities of the input do not exceed the configured maximum"]
    from ..engines.velbins import distinct_rule
    distinct_rule(ctx)

    # ---------------- TPL1 over all flag assignments
    n_assign = 0
    reported = set()
    all_vocab_parts = set()
    for fl in T.all_flag_assignments():
        n_assign += 1
        label = T.flag_label(fl)
        vocab = T.vocabulary_templates(p, fl)
        emit, doms = T.emitter_templates(p, fl)
        vparts = {}
        for t, node in vocab.items():
            pp = parse_parts(t, {})
            if pp is None or any(sp == "!cut" for seg in t if seg[0] == "fld" for sp in [seg[2]]):
                key = ("grammar", show(t))
                if key not in reported:
                    reported.add(key)
                    ctx.violation("TPL1", f"[{label}] vocabulary key `{show(t)}`", function=fv.qualname,
                                  construct=f"vocabulary key shape `{show(t)}` does not follow the token grammar",
                                  message="part ('-' part)* with part = prefix('_'field)* expected: tokenise emits no such token and detokenise cannot split it",
                                  file=fv.file, node=node)
                continue
            vparts[pp] = node
            if isinstance(pp, tuple) and pp and pp[0] == "TRAILING-SEPARATOR":
                key = ("trail", fmt_parts(pp))
                ctx.violation("TPL1", f"[{label}] vocabulary key `{fmt_parts(pp)}`", function=fv.qualname,
                              construct=f"vocabulary key shape `{fmt_parts(pp)}` ends with a separator",
                              message=f"with {label} the vocabulary builder inserts note tokens that keep a trailing '-' "
                                      f"(the last fused part is absent); tokenise strips it, so its tokens are not members",
                              file=fv.file, node=node)
            else:
                all_vocab_parts.update(pp)
        ok_all = True
        for t, node in emit.items():
            pp = parse_parts(t, {})
            if pp is None or (pp and pp[0] == "TRAILING-SEPARATOR"):
                ok_all = False
                ctx.violation("TPL1", f"[{label}] emitted `{show(t)}`", function=fe.qualname,
                              construct=f"emitted token shape `{show(t)}` does not follow the token grammar",
                              message="part ('-' part)* with part = prefix('_'field)* expected", file=fe.file, node=node)
                continue
            if pp in vparts:
                continue
            ok_all = False
            # diagnose
            why = "no vocabulary key has this shape"
            for vp in vparts:
                if isinstance(vp, tuple) and vp and vp[0] != "TRAILING-SEPARATOR" and [x[0] for x in vp] == [x[0] for x in pp]:
                    diffs = []
                    for (pa, fa), (pb, fb) in zip(pp, vp):
                        if fa != fb:
                            diffs.append(f"{pa}: emitter fields {list(fa)} vs vocabulary {list(fb)}")
                    why = "; ".join(diffs) or why
            ctx.violation("TPL1", f"[{label}] emitted `{fmt_parts(pp)}`", function=fe.qualname,
                          construct=f"emitted token shape `{fmt_parts(pp)}` is not a vocabulary key shape",
                          message=f"with {label}: {why}", file=fe.file, node=node)
        if ok_all:
            ctx.ok("TPL1", f"[{label}] {len(emit)} emitted shapes subset of {len(vparts)} vocabulary shapes")
            ctx.sample({"flags": label, "emitted": sorted(fmt_parts(parse_parts(t, {})) for t in emit),
                        "vocabulary": sorted(fmt_parts(v) for v in vparts)})
    ctx.floor("flag assignments enumerated", n_assign, 16)
    ctx.extra["exhaustive"] = True
    for v, (d, how) in sorted(doms.items()):
        ctx.ok("TPL5", f"emitter field `{v}` ranges over {d}", how)
    ctx.floor("emitter field domains established", len(doms), 6)

    # ---------------- TPL2 counter discipline (flag independent, structural)
    n_ins = [0]
    ds = p.func(f"{TOK}.dictionary_size")
    ds_ret = [n for n in walk_local(ds.node) if isinstance(n, ast.Return)]
    # the other common idiom: no counter at all, the size *is* the number of entries (`d[k] = len(d)`); ids are then fresh
    # exactly when every inserted key is new, which DISTINCT (velocity values), the ranges and the duplicate-free user lists give
    len_mode = len(ds_ret) == 1 and src(ds_ret[0].value) == "len(self.dictionary)"

    def is_insert(s):
        return isinstance(s, ast.Assign) and len(s.targets) == 1 and isinstance(s.targets[0], ast.Subscript) and \
            attr_chain(s.targets[0].value) == ["self", "dictionary"]

    def is_incr(s):
        return isinstance(s, ast.AugAssign) and attr_chain(s.target) in (["self", "_dictionary_size"],)

    def walk_block(body, pending, top_count, index_name=None):
        for s in body:
            if is_insert(s):
                n_ins[0] += 1
                ctx.check(not pending or len_mode, "TPL2", f"insertion `{short(s, 60)}` follows a completed increment", function=fv.qualname,
                          construct="two vocabulary insertions without an increment of the size in between",
                          message="two tokens would receive the same id", file=fv.file, node=s)
                v = s.value
                okv = attr_chain(v) in (["self", "dictionary_size"], ["self", "_dictionary_size"])
                if len_mode:
                    okv = src(v) in ("self.dictionary_size", "len(self.dictionary)")
                if isinstance(v, ast.Constant) and isinstance(v.value, int) and top_count[0] is not None:
                    okv = v.value == top_count[0]
                if index_name is not None and isinstance(v, ast.Name) and v.id == index_name:
                    okv = True          # the count of an `enumerate` that started at the size reached so far, one insertion per round
                ctx.check(okv, "TPL2", f"insertion `{short(s, 60)}` stores the running size", function=fv.qualname,
                          construct="vocabulary insertion stores something other than the running size",
                          message=f"value `{short(v)}` (entries inserted before: {top_count[0]})", file=fv.file, node=s)
                pending = not len_mode
                if len_mode and top_count[0] is not None:
                    top_count[0] += 1          # without a counter the number of entries grows with the insertion itself
            elif is_incr(s):
                ok = pending and isinstance(s.op, ast.Add) and isinstance(s.value, ast.Constant) and s.value.value == 1
                ctx.check(ok, "TPL2", f"`{short(s)}` follows exactly one insertion", function=fv.qualname,
                          construct="size incremented without a preceding insertion or by something other than 1",
                          message="ids would have a gap / the reported size would differ from the number of entries", file=fv.file, node=s)
                pending = False
                if top_count[0] is not None:
                    top_count[0] += 1
            elif isinstance(s, (ast.For, ast.While)):
                idx = None
                if isinstance(s, ast.For) and isinstance(s.iter, ast.Call) and src(s.iter.func) == "enumerate" and isinstance(s.target, ast.Tuple) \
                        and len(s.target.elts) == 2 and isinstance(s.target.elts[0], ast.Name) and top_count[0] is not None and not pending:
                    start = s.iter.args[1] if len(s.iter.args) > 1 else next((k.value for k in s.iter.keywords if k.arg == "start"), None)
                    start_v = 0 if start is None else (start.value if isinstance(start, ast.Constant) else None)
                    one_each = sum(1 for x in s.body if is_insert(x)) == 1 and sum(1 for x in s.body if is_incr(x)) == 1 \
                        and not any(is_insert(y) or is_incr(y) for x in s.body if not (is_insert(x) or is_incr(x)) for y in ast.walk(x)) \
                        and not any(isinstance(y, (ast.Continue, ast.Break)) for x in s.body for y in ast.walk(x))
                    if start_v == top_count[0] and one_each:
                        idx = s.target.elts[0].id
                top_count[0] = None
                end = walk_block(s.body, pending, top_count, idx)
                ctx.check(end == pending, "TPL2", f"loop body at line {s.lineno} keeps insertion/increment balanced", function=fv.qualname,
                          construct="loop body leaves an insertion without its increment", message="", file=fv.file, node=s)
            elif isinstance(s, ast.If):
                save = top_count[0]
                a = walk_block(s.body, pending, top_count)
                top_count[0] = None if save is None else None
                b = walk_block(s.orelse, pending, top_count)
                ctx.check(a == b == pending, "TPL2", f"branch at line {s.lineno} keeps insertion/increment balanced", function=fv.qualname,
                          construct="conditional branch leaves an insertion without its increment", message="", file=fv.file, node=s)
                top_count[0] = None
        return pending
    endp = walk_block(fv.node.body, False, [0])
    ctx.check(not endp, "TPL2", "last insertion is followed by its increment", function=fv.qualname,
              construct="last vocabulary insertion not followed by an increment", message="", file=fv.file, node=fv.node)
    ctx.floor("vocabulary insertion statements", n_ins[0], 6)          # special tokens (one site or four), REST, TRACK, VALUE, VELOCITY, note, TIME_SIGNATURE
    r = ds_ret
    init = p.func(f"{TOK}.__init__")
    if len_mode:
        ctx.ok("TPL2", "dictionary_size is the number of entries (`len(self.dictionary)`): ids are fresh because every inserted key is new (DISTINCT, ranges, duplicate-free user lists)")
        z0 = [s for s in walk_local(init.node) if isinstance(s, ast.Assign) and any(attr_chain(t) == ["self", "dictionary"] for t in s.targets)]
        ctx.check(len(z0) == 1 and ((isinstance(z0[0].value, ast.Dict) and not z0[0].value.keys) or src(z0[0].value) == "dict()"), "TPL2", "the vocabulary starts empty",
                  function=init.qualname, construct="vocabulary does not start empty", message="", file=init.file, node=init.node)
    else:
        ctx.check(len(r) == 1 and attr_chain(r[0].value) == ["self", "_dictionary_size"], "TPL2", "dictionary_size reports the counter", function=ds.qualname,
                  construct="dictionary_size does not return the counter", message="", file=ds.file, node=ds.node)
        z = [s for s in walk_local(init.node) if isinstance(s, ast.Assign) and any(attr_chain(t) == ["self", "_dictionary_size"] for t in s.targets)]
        ctx.check(len(z) == 1 and isinstance(z[0].value, ast.Constant) and z[0].value.value == 0, "TPL2", "counter starts at 0", function=init.qualname,
                  construct="vocabulary counter does not start at 0", message="", file=init.file, node=init.node)

    # ---------------- TPL3 inverse map
    inv = [s for s in fv.node.body if isinstance(s, ast.Assign) and any(attr_chain(t) == ["self", "inverse_dictionary"] for t in s.targets)]
    ok = False
    if len(inv) == 1 and isinstance(inv[0].value, ast.DictComp):
        dc = inv[0].value
        g = dc.generators[0]
        ok = len(dc.generators) == 1 and not g.ifs and isinstance(g.iter, ast.Call) and attr_chain(g.iter.func) == ["self", "dictionary", "items"] \
            and isinstance(g.target, ast.Tuple) and len(g.target.elts) == 2 and isinstance(dc.key, ast.Name) and isinstance(dc.value, ast.Name) \
            and dc.key.id == g.target.elts[1].id and dc.value.id == g.target.elts[0].id
        last_ins = max((s.lineno for s in ast.walk(fv.node) if is_insert(s)), default=0)
        ok = ok and inv[0].lineno > last_ins
    ctx.check(ok, "TPL3", "inverse_dictionary = {id: token} over the complete dictionary, after the last insertion", function=fv.qualname,
              construct="inverse dictionary is not the exact inversion of the finished dictionary", message=f"{[short(s, 80) for s in inv]}",
              file=fv.file, node=inv[0] if inv else fv.node)
    for q, attr in ((f"{TOK}.encode", "dictionary"), (f"{TOK}.decode", "inverse_dictionary")):
        f2 = p.func(q)
        ctx.analysed(f2)
        r = [n for n in walk_local(f2.node) if isinstance(n, ast.Return)]
        ok = len(r) == 1 and isinstance(r[0].value, ast.ListComp) and isinstance(r[0].value.elt, ast.Subscript) and \
            attr_chain(r[0].value.elt.value) == ["self", attr] and not r[0].value.generators[0].ifs and \
            isinstance(r[0].value.elt.slice, ast.Name) and r[0].value.elt.slice.id == r[0].value.generators[0].target.id
        ctx.check(ok, "TPL3", f"{q} is a plain element-wise look-up in self.{attr}", function=q,
                  construct=f"{q.split('.')[-1]} is not an element-wise look-up in {attr}", message="", file=f2.file, node=f2.node)

    # ---------------- TPL4 parser coverage
    chain = T.dispatch_chain(fd.node)
    branches = {m: body for m, _, body in chain if m is not None}
    kinds = {}
    for pr, flds in all_vocab_parts:
        kinds.setdefault(pr, set()).add(len(flds))
    ctx.floor("vocabulary part kinds", len(kinds), 9)
    # parts skipped by one membership test -- `if prefix in (PAD.value, START.value, STOP.value): continue`, the tuple possibly named
    # first -- have a branch too: the empty one
    subject = next((src(t.left) for _, t, _ in chain if isinstance(t, ast.Compare) and enum_member(t.comparators[0], "TokenisationPrefixes")), None)

    def _members_of(e):
        if isinstance(e, ast.Name):
            d = [a for a in walk_local(fd.node) if isinstance(a, ast.Assign) and len(a.targets) == 1 and isinstance(a.targets[0], ast.Name) and a.targets[0].id == e.id]
            e = d[0].value if len(d) == 1 else e
        if isinstance(e, (ast.Tuple, ast.List, ast.Set)):
            ms = [enum_member(x, "TokenisationPrefixes") for x in e.elts]
            return ms if all(ms) else None
        return None
    from ..astutil import _always_leaves
    for n_ in walk_local(fd.node):
        if isinstance(n_, ast.If) and isinstance(n_.test, ast.Compare) and len(n_.test.ops) == 1 and isinstance(n_.test.ops[0], (ast.In, ast.NotIn)) \
                and subject is not None and src(n_.test.left) == subject:
            ms = _members_of(n_.test.comparators[0])
            skip_body = n_.body if isinstance(n_.test.ops[0], ast.In) else n_.orelse
            work_body = n_.orelse if isinstance(n_.test.ops[0], ast.In) else n_.body
            in_work = any(chain[0][1] is x for y in work_body for x in ast.walk(y))
            if ms and in_work and not any(isinstance(x, (ast.Raise, ast.Call)) for y in skip_body for x in ast.walk(y) if not (isinstance(x, ast.Call) and "LOGGER" in src(x))):
                for m_ in ms:
                    branches.setdefault(m_, list(skip_body))
    for pr in sorted(kinds):
        nf = max(kinds[pr])
        inst = f"vocabulary part <{pr}> with {nf} field(s)"
        if pr not in branches:
            ctx.violation("TPL4", inst, function=fd.qualname, construct=f"no detokenise branch for prefix {pr}",
                          message=f"a vocabulary token with part {pr} raises `Invalid token`", file=fd.file, node=fd.node)
            continue
        reads = []
        for n in ast.walk(ast.Module(body=branches[pr], type_ignores=[])):
            if isinstance(n, ast.Subscript) and isinstance(n.slice, ast.Constant) and isinstance(n.slice.value, int) \
                    and ((isinstance(n.value, ast.Subscript) and "part" in src(n.value.value)) or (isinstance(n.value, ast.Name) and "part" in n.value.id)):
                par = getattr(n, "_parent", None)
                wrapped = isinstance(par, ast.Call) and isinstance(par.func, ast.Name) and par.func.id == "int"
                reads.append((n.slice.value, wrapped, n))
        bad = [r for r in reads if r[0] > nf or r[0] < 1]
        ctx.check(not bad, "TPL4", inst + f": branch reads fields {sorted({r[0] for r in reads})}", function=fd.qualname,
                  construct=f"detokenise reads a field the {pr} part does not have",
                  message=f"reads index {[r[0] for r in bad]} of a part with {nf} field(s)", file=fd.file, node=bad[0][2] if bad else fd.node)
        ctx.check(all(r[1] for r in reads), "TPL4", inst + ": fields parsed through int()", function=fd.qualname,
                  construct=f"detokenise uses a {pr} field without int()", message="", file=fd.file, node=fd.node)
        if nf > 0 and pr not in ("PAD", "START", "STOP", "BAR"):
            ctx.check(bool(reads), "TPL4", inst + ": the field is used", function=fd.qualname, construct=f"detokenise ignores the field of {pr}",
                      message="", file=fd.file, node=fd.node)
    # final else raises
    last = chain[-1]
    ctx.check(last[0] is None and any(isinstance(x, ast.Raise) for x in last[2]), "TPL4", "unknown prefixes are rejected", function=fd.qualname,
              construct="detokenise silently accepts unknown prefixes", message="", file=fd.file, node=fd.node)
    # the split function agrees with the separators the builders use
    sp = p.func(f"{TOK}._split_token")
    ctx.analysed(sp)
    # structurally: the token parameter (or a local holding it) is split on '-', and each resulting part on '_'
    splits = [(c, c.args[0].value) for c in ast.walk(sp.node) if isinstance(c, ast.Call) and call_method(c)[1] == "split" and len(c.args) == 1
              and isinstance(c.args[0], ast.Constant) and isinstance(c.args[0].value, str)]
    seps = sorted(v for _, v in splits)
    tok_p = sp.params[-1] if sp.params else "token"
    outer = [c for c, v in splits if v == "-" and isinstance(call_method(c)[0], ast.Name) and call_method(c)[0].id == tok_p]
    ctx.check(seps == ["-", "_"] and len(outer) == 1, "TPL4", "_split_token splits the token on '-' and every part on '_'", function=sp.qualname,
              construct="token splitting does not use the builders' separators", message=f"separators used: {seps}", file=sp.file, node=sp.node)
    # sort_order: TRACK, VALUE, VELOCITY before PITCH
    so = p.cls(TOK).class_attrs.get("sort_order")
    order = [enum_member(e, "TokenisationPrefixes") for e in so.elts] if isinstance(so, ast.List) else []
    ok = "PITCH" in order and all(x in order and order.index(x) < order.index("PITCH") for x in ("TRACK", "VALUE", "VELOCITY"))
    ctx.check(ok, "TPL6", f"sort_order {order}: TRACK, VALUE, VELOCITY are processed before PITCH", function=TOK,
              construct="sort_order lets PITCH be processed before the running values of its own token",
              message="a fused token's note would be built with the previous note's track/value/velocity", file=fd.file, node=so or fd.node)

    # ---------------- NK2
    eng = KindEngine(p)
    eng.solve()
    n2 = 0
    for key, s in sorted(eng.sinks.items(), key=lambda kv: (kv[1].file, getattr(kv[1].node, "lineno", 0))):
        if s.rule != "NK2" or not s.func.startswith(f"{TOK}.tokenise"):
            continue
        n2 += 1
        inst = f"{s.func}: {s.what}"
        if may_float(s.kind):
            ctx.violation("NK2", inst, function=s.func, construct=f"{s.what.split(' ', 1)[0]} token field may be a float",
                          message=f"`{short(s.expr)}` has kind {kshow(s.kind)}: it would be rendered with a decimal point "
                                  f"(e.g. `vel_096.0`) and `int(...)` in detokenise raises ValueError", file=s.file, node=s.node,
                          path=eng.explain_float(p.functions.get(s.func) or fe, s.expr))
        elif is_determined_int(s.kind):
            ctx.ok("NK2", inst, kshow(s.kind))
        else:
            ctx.undetermined("NK2", inst, kshow(s.kind))
    ctx.floor("emitter numeric token fields", n2, 6)          # TRACK, PITCH, VALUE, VELOCITY, REST, TIME_SIGNATURE (a part formatted once or twice)
    # NK2 without the integer-tick hypothesis: tokenise must emit vocabulary members for *every* input it accepts, and it accepts
    # float-valued ticks (`24.0 in note_values` holds; `Sequence.scale(0.5)` produces them) -- a field that is an integer only
    # because the ticks happen to be integers is rendered `val_24.0`
    engf = KindEngine(p, float_ticks=True)
    engf.solve()
    nf = 0
    for key, s in sorted(engf.sinks.items(), key=lambda kv: (kv[1].file, getattr(kv[1].node, "lineno", 0))):
        if s.rule != "NK2" or not s.func.startswith(f"{TOK}.tokenise"):
            continue
        nf += 1
        inst = f"{s.func}: {s.what} is an integer whatever the numeric type of the ticks (line {getattr(s.node, 'lineno', 0)})"
        if may_float(s.kind):
            ctx.violation("NK2", inst, function=s.func, construct=f"{s.what.split(' ', 1)[0]} token field is an integer only if the ticks of the input are integers",
                          message=f"`{short(s.expr)}` has kind {kshow(s.kind)} when times may be floats: tokenise accepts such a sequence (a float equal to an "
                                  f"allowed value passes the membership guard; `Sequence.scale(0.5)` yields float ticks) and renders `val_24.0`, which is not in "
                                  f"the vocabulary -- encode raises KeyError on tokenise output", file=s.file, node=s.node)
        else:
            ctx.ok("NK2", inst, kshow(s.kind))
    ctx.floor("emitter numeric token fields (float-tick run)", nf, 6)
    for attr, dom in (("step_sizes", "REST"), ("note_values", "VALUE"), ("velocity_bins", "VELOCITY")):
        k = eng.attr_lookup(TOK, attr)
        ek = elem(k) if k else None
        inst = f"vocabulary {dom} fields range over self.{attr}: element kind {kshow(ek) if ek is not None else '?'}"
        if ek is None or not ek:
            ctx.undetermined("NK2", inst)
        elif may_float(ek):
            ctx.violation("NK2", inst, function=fv.qualname, construct=f"vocabulary {dom} field values may be floats",
                          message=f"self.{attr} may hold floats ({kshow(ek)}): tokens like `vel_96.0` are inserted and cannot be parsed back",
                          file=fv.file, node=fv.node)
        else:
            ctx.ok("NK2", inst)
    config_rules(ctx)
    from .common import view_deps
    view_deps(ctx)


def config_rules(ctx: Ctx) -> None:
    """CONFIG: the constructor stores every configuration parameter in the attribute the vocabulary builder and the emitter read
    (`self.x = ... x ...`, unconditionally), installs a default exactly when the stored value is None, starts from two empty maps
    and builds the vocabulary once, unconditionally, after all of that."""
    from ..astutil import path_conditions
    p = ctx.p
    init = p.func(f"{TOK}.__init__")
    ctx.analysed(init)
    body = init.node.body
    calls = [c for c in walk_local(init.node) if isinstance(c, ast.Call) and call_method(c)[1] == "_construct_dictionary" and attr_chain(call_method(c)[0]) == ["self"]]
    okc = len(calls) == 1 and not path_conditions(calls[0]) and not any(isinstance(a, (ast.For, ast.While)) for a in ancestors(calls[0]))
    ctx.check(okc, "CONFIG", "the vocabulary is built exactly once, unconditionally, by the constructor", function=init.qualname,
              construct="the constructor does not build the vocabulary exactly once on every path", message=f"{len(calls)} call(s) of _construct_dictionary",
              file=init.file, node=calls[0] if calls else init.node)
    build_line = calls[0].lineno if calls else 10**9
    stores = [a for a in walk_local(init.node) if isinstance(a, ast.Assign) and any(isinstance(t, ast.Attribute) and attr_chain(t) and attr_chain(t)[0] == "self" for t in a.targets)]
    late = [a for a in stores if a.lineno > build_line and not any(attr_chain(t)[-1].startswith("cur_") for t in a.targets if isinstance(t, ast.Attribute))]
    ctx.check(not late, "CONFIG", "every configuration attribute is set before the vocabulary is built", function=init.qualname,
              construct="a configuration attribute is assigned after the vocabulary was built", message=f"{[short(a) for a in late]}", file=init.file,
              node=late[0] if late else init.node)
    n = 0
    rebound = {x.id for x in walk_local(init.node) if isinstance(x, ast.Name) and isinstance(x.ctx, ast.Store)}
    local_defs = {}
    for a in walk_local(init.node):
        if isinstance(a, ast.Assign) and len(a.targets) == 1 and isinstance(a.targets[0], ast.Name):
            local_defs.setdefault(a.targets[0].id, []).append(a)

    def mentions(e, prm):
        """`e` is computed from the parameter: it names it, or names a local whose one definition (unconditional, earlier) names it."""
        for x in ast.walk(e):
            if isinstance(x, ast.Name) and x.id == prm:
                return True
            if isinstance(x, ast.Name) and len(local_defs.get(x.id, [])) == 1 and not path_conditions(local_defs[x.id][0]) \
                    and any(isinstance(y, ast.Name) and y.id == prm for y in ast.walk(local_defs[x.id][0].value)):
                return True
        return False
    for prm in init.params[1:]:
        mine = [a for a in stores if any(attr_chain(t) == ["self", prm] for t in a.targets)]
        direct = [a for a in mine if mentions(a.value, prm) and not path_conditions(a) and a.lineno < build_line]
        n += 1
        ctx.check(len(direct) == 1, "CONFIG", f"parameter `{prm}` is stored in `self.{prm}` unconditionally, before the vocabulary is built", function=init.qualname,
                  construct=f"constructor parameter `{prm}` does not reach `self.{prm}`", message=f"{[short(a, 70) for a in mine]}: the vocabulary and the emitter read "
                  f"`self.{prm}`; without the store they use a stale or missing value", file=init.file, node=mine[0] if mine else init.node)
        for a in mine:
            if a in direct:
                continue
            pcs = path_conditions(a)
            # (the parameter itself says the same as the attribute it was just stored in, as long as it is never rebound)
            ok = len(pcs) == 1 and pcs[0][1] and isinstance(pcs[0][0], ast.Compare) \
                and (attr_chain(pcs[0][0].left) == ["self", prm] or (isinstance(pcs[0][0].left, ast.Name) and pcs[0][0].left.id == prm and prm not in rebound
                                                                    and any(d.lineno < a.lineno for d in direct))) \
                and isinstance(pcs[0][0].ops[0], (ast.Is, ast.Eq)) and isinstance(pcs[0][0].comparators[0], ast.Constant) and pcs[0][0].comparators[0].value is None
            ctx.check(ok, "CONFIG", f"the default of `self.{prm}` is installed exactly when no value was given", function=init.qualname,
                      construct=f"default of `self.{prm}` installed under a condition other than `self.{prm} is None`",
                      message=f"`{short(a, 60)}` under {[(short(t, 40), h) for t, h in pcs]}: a configuration the caller supplied is overwritten (or a missing one stays None)",
                      file=init.file, node=a)
    ctx.floor("constructor parameters stored", n, 10)
    for m in ("dictionary", "inverse_dictionary"):
        z = [a for a in stores if any(attr_chain(t) == ["self", m] for t in a.targets)]
        ok = len(z) == 1 and not path_conditions(z[0]) and z[0].lineno < build_line and ((isinstance(z[0].value, ast.Dict) and not z[0].value.keys) or src(z[0].value) == "dict()")
        ctx.check(ok, "CONFIG", f"`self.{m}` starts as an empty map of this instance", function=init.qualname, construct=f"`self.{m}` is not a fresh empty map per instance",
                  message=f"{[short(a) for a in z]}", file=init.file, node=z[0] if z else init.node)


def thorough(ctx: Ctx) -> None:
    """Thorough tier: the remaining boolean configuration/call parameters are enumerated too -- `flag_simplify_time_signature`
    (must not influence any template: it occurs in neither builder) and `insert_bar_token` (the emitter then produces no BAR token;
    every other shape must still be a vocabulary shape)."""
    import ast as _ast
    p = ctx.p
    fv = p.func(f"{TOK}._construct_dictionary")
    fe = p.func(f"{TOK}.tokenise")
    uses = [n for f in (fv, fe) for n in _ast.walk(f.node) if isinstance(n, _ast.Attribute) and n.attr == "flag_simplify_time_signature"]
    ctx.check(not uses, "TPL1", "flag_simplify_time_signature influences neither string builder", function=fv.qualname,
              construct="flag_simplify_time_signature is read by a token string builder", message="", file=fv.file, node=uses[0] if uses else fv.node)
    from ..engines.templates import StringInterp, emitter_domains
    n = 0
    bad = 0
    for fl in T.all_flag_assignments():
        vocab = {parse_parts(t, {}) for t in T.vocabulary_templates(p, fl)}
        doms = emitter_domains(p, fe)

        def fd(e, interp, st, doms=doms):
            import ast as a_
            if src(e) in doms:
                return doms[src(e)][0]
            return f"UNKNOWN({short(e, 30)})"
        si = StringInterp(p, fe, fl, fd, out_lists=T.output_lists(fe.node), extra={"insert_bar_token": False, "flag_running_time_signature": True})
        si.run_function(fe.node, {})
        for t in si.emitted:
            n += 1
            if parse_parts(t, {}) not in vocab:
                bad += 1
                ctx.violation("TPL1", f"[{T.flag_label(fl)}, insert_bar_token=False] emitted `{show(t)}`", function=fe.qualname,
                              construct=f"emitted token shape `{show(t)}` is not a vocabulary key shape (bar tokens off)", message="", file=fe.file, node=si.emitted[t])
    if not bad:
        ctx.ok("TPL1", f"insert_bar_token=False: {n} emitted shapes over 16 flag assignments all in the vocabulary")
    ctx.extra["thorough_assignments"] = 32
