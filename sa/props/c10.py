"""C10 -- a Bar always lasts exactly its time signature, or its construction fails (structural clauses)."""
from __future__ import annotations

import ast
import copy

from ..astutil import clone, attr_chain, call_method, short, src, enum_member, ancestors
from ..linear import Normaliser, Sym
from ..model import walk_local, AnalysisError
from ..report import Ctx
from ..engines import units
from ..engines.units import UnitAnalysis, show, TICK, QUARTER, ONE

FN = "Bar.__init__"


def strip_int(e: ast.AST) -> ast.AST:
    while isinstance(e, ast.Call) and isinstance(e.func, ast.Name) and e.func.id in ("int", "round", "float") and len(e.args) == 1:
        e = e.args[0]
    return e


def _main_check(ctx: Ctx) -> None:
    bar_rules(ctx, explain=True)
    # the bar's duration is made by RelativeSequence.pad: its measuring/padding rules (same as C18)
    from .c18 import _check as c18_rules
    c18_rules(ctx, only={"pad"})


def bar_rules(ctx: Ctx, explain: bool = False) -> None:
    p = ctx.p
    fi = p.func(FN)
    ctx.analysed(fi)
    if explain:
      ctx.explanation = (
        "Structural necessary conditions of C10 on Bar.__init__: UNIT1 both capacity comparisons relate quantities of the "
        "same unit (dimension analysis: ticks vs quarters); CAP the compared/padded capacity is symbolically "
        "numerator*4/denominator quarters (times PPQN when in ticks) -- rational normal form; the over-capacity test uses >, "
        "raises, and precedes the padding; UNIT2 the pad argument is in ticks, the unit pad() compares it with; "
        "SIG on the only normal exit all TIME_SIGNATURE events were filtered out and exactly one, carrying the bar's "
        "numerator/denominator, was inserted at index 0, after both rejection tests (count > 1, not all equal to the bar's); "
        "COPY Bar.copy passes sequence copy, numerator, denominator and key (OWN2); PAD/MEASURE the padding routine measures the sum of "
        "all waits and appends requested - measured under measured < requested (the rules of C18 on RelativeSequence.pad). "
        "Not decided: the exact resulting duration as a number; behaviour for equal repeated signatures (normalise removes them).")
    if explain:
        ctx.assumptions += ["integer numerator/denominator"]
    params = fi.params
    num_attr, den_attr = "self.time_signature_numerator", "self.time_signature_denominator"
    ua = UnitAnalysis(p, fi)
    # a constructor argument stored once, unconditionally, in a field and never rebound is that field: `numerator` reads
    # `self.time_signature_numerator`
    stores = [s_ for s_ in walk_local(fi.node) if isinstance(s_, ast.Assign) for t in s_.targets if attr_chain(t) and attr_chain(t)[0] == "self" and len(attr_chain(t)) == 2]
    rebound = {x.id for x in walk_local(fi.node) if isinstance(x, ast.Name) and isinstance(x.ctx, ast.Store)}
    fields = {}
    for s_ in fi.node.body:
        if isinstance(s_, (ast.Assign, ast.AnnAssign)) and isinstance(s_.value, ast.Name) and s_.value.id in params and s_.value.id not in rebound:
            t = s_.targets[0] if isinstance(s_, ast.Assign) else s_.target
            ch = attr_chain(t)
            if ch and len(ch) == 2 and ch[0] == "self" and sum(1 for o in stores if any(attr_chain(t2) == ch for t2 in o.targets)) <= 1:
                fields[s_.value.id] = ".".join(ch)
    nz = Normaliser(env={k: Sym.atom(v) for k, v in fields.items()})
    # local definitions (e.g. a `capacity` variable computed once) are substituted into the expressions judged below
    nz.run_block([s_ for s_ in fi.node.body if isinstance(s_, ast.Assign) and len(s_.targets) == 1 and isinstance(s_.targets[0], ast.Name)])
    # symbolic capacity
    cap_q = Normaliser().norm(ast.parse(f"{num_attr} * 4 / {den_attr}", mode="eval").body)
    ppqn = Sym.atom("PPQN")

    compares = []

    def _is_duration(x):
        return isinstance(x, ast.Call) and call_method(x)[1] in ("get_sequence_duration_relation", "get_sequence_duration")
    # a temporary holding the measured duration counts as the duration
    dur_names = {s_.targets[0].id for s_ in walk_local(fi.node) if isinstance(s_, ast.Assign) and len(s_.targets) == 1 and isinstance(s_.targets[0], ast.Name)
                 and any(_is_duration(x) for x in ast.walk(s_.value))}

    def _mentions_duration(e):
        return any(_is_duration(x) or (isinstance(x, ast.Name) and x.id in dur_names) for x in ast.walk(e))
    for n in walk_local(fi.node):
        if isinstance(n, ast.Compare) and len(n.ops) == 1 and isinstance(n.ops[0], (ast.Gt, ast.Lt, ast.GtE, ast.LtE)):
            l, r = n.left, n.comparators[0]
            if _mentions_duration(n):
                compares.append(n)
    ctx.floor("capacity comparisons in Bar.__init__", len(compares), 1)
    reject_seen = False
    for c in compares:
        a, b = ua.judge_compare(c)
        inst = f"{FN}: `{short(c, 90)}`"
        if a is None or b is None:
            ctx.undetermined("UNIT1", inst, f"units {show(a)} vs {show(b)}")
            continue
        ctx.check(a == b, "UNIT1", inst + f" [{show(a)} vs {show(b)}]", function=FN,
                  construct=f"capacity comparison relates {show(a)} with {show(b)}",
                  message=f"left side is measured in {show(a)}, right side in {show(b)}: the test compares quantities of different "
                          f"units (a sequence of N quarters is compared with N*PPQN)", file=fi.file, node=c)
        # value of the capacity side
        dur_left = _mentions_duration(c.left)
        cap_side = c.comparators[0] if dur_left else c.left
        dur_side = c.left if dur_left else c.comparators[0]
        dur_unit = a if dur_left else b
        expect = cap_q * ppqn if dur_unit == TICK else cap_q
        got = nz.norm(strip_int(cap_side))
        # allow the duration side to be scaled instead (duration * PPQN > ticks)
        dsym = nz.norm(dur_side)
        ctx.check(got == expect or (dur_unit == TICK and got == cap_q * ppqn), "CAP", inst + " capacity value", function=FN,
                  construct="capacity expression is not numerator*4/denominator in the unit of the measured duration",
                  message=f"capacity side normalises to `{got.canon()}`, expected `{expect.canon()}` for a duration in {show(dur_unit)}",
                  file=fi.file, node=c)
        # which test is it?
        par = getattr(c, "_parent", None)
        if isinstance(par, ast.If) and par.test is c and any(isinstance(s, ast.Raise) for s in par.body):
            op = c.ops[0]
            strict_over = (isinstance(op, ast.Gt) and dur_left) or (isinstance(op, ast.Lt) and not dur_left)
            reject_seen = True
            ctx.check(strict_over, "CAP", f"{FN}: over-capacity rejection uses a strict `duration > capacity`", function=FN,
                      construct="over-capacity rejection does not test duration > capacity",
                      message=f"`{short(c)}`: a bar exactly at capacity must be accepted, anything longer rejected", file=fi.file, node=c)
    ctx.check(reject_seen, "CAP", f"{FN}: an over-capacity test raises", function=FN, construct="no capacity test that raises",
              message="a sequence longer than the bar is not rejected", file=fi.file, node=fi.node)

    # pad call
    pads = [n for n in walk_local(fi.node) if isinstance(n, ast.Call) and call_method(n)[1] == "pad"]
    ctx.require("CAP", f"{FN}: a sequence shorter than the bar is padded", len(pads), 1, function=FN,
                construct="Bar.__init__ never pads its sequence", message="a sequence shorter than the capacity stays short: the bar does not last its signature",
                file=fi.file, node=fi.node)
    pad_fi = p.func("RelativeSequence.pad")
    pad_unit = units.infer_param_unit(p, pad_fi, pad_fi.params[1])
    for c in pads:
        arg = c.args[0] if c.args else None
        if arg is None:
            continue
        u = ua.unit(arg)
        inst = f"{FN}: `{short(c, 90)}`"
        if u is None or pad_unit is None:
            ctx.undetermined("UNIT2", inst, f"argument unit {show(u)}, parameter unit {show(pad_unit)}")
        else:
            ctx.check(u == pad_unit, "UNIT2", inst + f" [{show(u)} into a {show(pad_unit)} parameter]", function=FN,
                      construct=f"pad() receives {show(u)} but measures in {show(pad_unit)}",
                      message=f"argument in {show(u)}, pad() compares it with accumulated {show(pad_unit)}", file=fi.file, node=c)
        got = nz.norm(strip_int(arg))
        expect = cap_q * ppqn
        ctx.check(got == expect, "CAP", inst + " padded length = capacity in ticks", function=FN,
                  construct="pad() length is not numerator*PPQN*4/denominator",
                  message=f"normalises to `{got.canon()}`, expected `{expect.canon()}`", file=fi.file, node=c)
        # every bar shorter than its capacity reaches the pad call: only "duration below capacity" tests may govern it
        from ..astutil import path_conditions
        wrong = []
        for t, holds in path_conditions(c):
            if t not in compares:
                wrong.append(f"`{short(t, 60)}` {'holds' if holds else 'does not hold'}")
                continue
            dl = _mentions_duration(t.left)
            below = isinstance(t.ops[0], (ast.Lt, ast.LtE)) if dl else isinstance(t.ops[0], (ast.Gt, ast.GtE))
            above = isinstance(t.ops[0], (ast.Gt, ast.GtE)) if dl else isinstance(t.ops[0], (ast.Lt, ast.LtE))
            if not ((holds and below) or (not holds and above)):
                wrong.append(f"`{short(t, 60)}` {'holds' if holds else 'does not hold'}")
        ctx.check(not wrong, "CAP", f"{FN}: every sequence shorter than the capacity is padded", function=FN,
                  construct="padding of a short bar depends on a condition other than `duration below capacity`",
                  message=f"pad() is reached only when {', '.join(wrong)}: a shorter sequence outside that condition keeps its length", file=fi.file, node=c)
        # the rejection precedes the padding
        rejs = [x for x in compares if isinstance(getattr(x, "_parent", None), ast.If) and any(isinstance(s, ast.Raise) for s in x._parent.body)]
        ctx.check(bool(rejs) and all(r.lineno < c.lineno for r in rejs), "CAP", f"{FN}: capacity rejection precedes padding", function=FN,
                  construct="padding happens before the capacity rejection", message="", file=fi.file, node=c)

    signature_rewrite(ctx, fi, fields)
    duration_measure(ctx)

    from .c16 import own2
    from ..engines import ownership
    # COPY: field coverage of Bar.copy (same rule as C16/OWN2, restricted to Bar)
    bar_copy(ctx)


_WHOLE_WRAPPERS = {"list", "tuple", "iter", "reversed", "sorted"}


def _whole_iter(e: ast.AST) -> bool:
    """The iterable visits every message of the sequence: an accessor (attribute chain, zero-argument method call) possibly wrapped in
    list/tuple/iter/reversed/sorted -- no slice, no takewhile/islice/filter or other call that receives it as an argument."""
    while isinstance(e, ast.Call) and isinstance(e.func, ast.Name) and e.func.id in _WHOLE_WRAPPERS and len(e.args) == 1 and not e.keywords:
        e = e.args[0]
    if isinstance(e, ast.Call):
        return isinstance(e.func, ast.Attribute) and not e.args and not e.keywords and _whole_iter(e.func.value)
    if isinstance(e, ast.Attribute):
        return _whole_iter(e.value)
    return isinstance(e, ast.Name)


def _partition_selects(fi, name: str):
    """How the list `name` is filled by a loop over the sequence's messages: the polarity of the `message_type ? TIME_SIGNATURE` test
    that governs `name.append(<loop variable>)` -- "ts" (exactly the signatures), "rest" (exactly the others), or None."""
    from ..astutil import path_conditions
    inits = [a for a in walk_local(fi.node) if isinstance(a, ast.Assign) and any(isinstance(t, ast.Name) and t.id == name for t in a.targets)]
    apps = [c for c in walk_local(fi.node) if isinstance(c, ast.Call) and call_method(c)[1] in ("append", "extend", "insert", "remove", "pop", "clear")
            and isinstance(call_method(c)[0], ast.Name) and call_method(c)[0].id == name]
    if len(inits) != 1 or not (isinstance(inits[0].value, ast.List) and not inits[0].value.elts) or len(apps) != 1 or call_method(apps[0])[1] != "append":
        return None
    lp = next((a for a in ancestors(apps[0]) if isinstance(a, ast.For)), None)
    if lp is None or not isinstance(lp.target, ast.Name) or src(apps[0].args[0]) != lp.target.id or lp.lineno < inits[0].lineno \
            or any(isinstance(x, (ast.Break, ast.Continue, ast.Return)) for x in ast.walk(lp)):
        return None
    if not _whole_iter(lp.iter):
        return None
    pcs = [(t, h) for t, h in path_conditions(apps[0]) if any(a is lp for a in ancestors(t))]
    if len(pcs) != 1:
        return None
    t, holds = pcs[0]
    if not (isinstance(t, ast.Compare) and len(t.ops) == 1 and isinstance(t.ops[0], (ast.Eq, ast.NotEq)) and isinstance(t.left, ast.Attribute)
            and t.left.attr == "message_type" and src(t.left.value) == lp.target.id and enum_member(t.comparators[0], "MessageType") == "TIME_SIGNATURE"):
        return None
    return "ts" if isinstance(t.ops[0], ast.Eq) == holds else "rest"


def signature_rewrite(ctx: Ctx, fi, fields: dict | None = None) -> None:
    p = ctx.p
    fields = fields or {}
    body = fi.node.body
    top = {id(s): i for i, s in enumerate(body)}

    def top_index(n: ast.AST) -> int | None:
        x = n
        while x is not None and id(x) not in top:
            x = getattr(x, "_parent", None)
        return top.get(id(x)) if x is not None else None

    def unconditional(n: ast.AST) -> bool:
        x = n
        while x is not None and id(x) not in top:
            x = getattr(x, "_parent", None)
            if isinstance(x, (ast.If, ast.For, ast.While, ast.Try)):
                return False
        return True

    filters, inserts, raises = [], [], []
    for n in walk_local(fi.node):
        if isinstance(n, ast.Call):
            recv, name = call_method(n)
            if name == "overwrite_relative_messages" and n.args:
                a = n.args[0]
                ok = False
                if isinstance(a, (ast.ListComp, ast.GeneratorExp)) and len(a.generators) == 1:
                    conds = a.generators[0].ifs
                    if len(conds) == 1 and isinstance(conds[0], ast.Compare) and isinstance(conds[0].ops[0], (ast.NotEq, ast.IsNot)) \
                            and enum_member(conds[0].comparators[0], "MessageType") == "TIME_SIGNATURE" \
                            and isinstance(conds[0].left, ast.Attribute) and conds[0].left.attr == "message_type" \
                            and isinstance(a.elt, ast.Name) and isinstance(a.generators[0].target, ast.Name) \
                            and a.elt.id == a.generators[0].target.id and _whole_iter(a.generators[0].iter):
                        ok = True
                elif isinstance(a, ast.Name) and _partition_selects(fi, a.id) == "rest":
                    ok = True                  # the other half of a loop that sets the signatures aside
                filters.append((n, ok))
            arg0 = n.args[0] if n.args else None
            if name == "add_relative_message" and isinstance(arg0, ast.Name):
                # the event built into a local first (the constructor has no effects): its one definition
                defs = [a for a in walk_local(fi.node) if isinstance(a, ast.Assign) and len(a.targets) == 1 and isinstance(a.targets[0], ast.Name) and a.targets[0].id == arg0.id]
                if len(defs) == 1 and isinstance(defs[0].value, ast.Call) and call_method(defs[0].value)[1] == "Message" and defs[0].lineno < n.lineno and unconditional(defs[0]):
                    arg0 = defs[0].value
            if name == "add_relative_message" and isinstance(arg0, ast.Call) and call_method(arg0)[1] == "Message":
                m = arg0
                kws = {k.arg: k.value for k in m.keywords}
                if enum_member(kws.get("message_type"), "MessageType") == "TIME_SIGNATURE" if kws.get("message_type") is not None else False:
                    idx = next((k.value for k in n.keywords if k.arg == "index"), n.args[1] if len(n.args) > 1 else None)
                    inserts.append((n, kws, idx))
        if isinstance(n, ast.Raise):
            raises.append(n)
    inst = f"{FN}: signature rewrite"
    ctx.check(len(filters) == 1 and filters[0][1] and unconditional(filters[0][0]), "SIG", inst + " filters all TIME_SIGNATURE events",
              function=FN, construct="existing TIME_SIGNATURE events are not all removed unconditionally",
              message="expected one unconditional overwrite_relative_messages([m for m in ... if m.message_type != TIME_SIGNATURE])",
              file=fi.file, node=filters[0][0] if filters else fi.node)
    good_ins = len(inserts) == 1 and unconditional(inserts[0][0])
    ctx.check(good_ins, "SIG", inst + " inserts exactly one TIME_SIGNATURE event", function=FN,
              construct="not exactly one unconditional TIME_SIGNATURE insertion", message=f"{len(inserts)} insertion(s)", file=fi.file,
              node=inserts[0][0] if inserts else fi.node)
    if inserts:
        n, kws, idx = inserts[0]
        ctx.check(isinstance(idx, ast.Constant) and idx.value == 0, "SIG", inst + " at index 0", function=FN,
                  construct="TIME_SIGNATURE event not inserted at index 0", message=f"index `{short(idx)}`", file=fi.file, node=n)
        ctx.check(attr_chain(kws.get("numerator")) == ["self", "time_signature_numerator"] and
                  attr_chain(kws.get("denominator")) == ["self", "time_signature_denominator"], "SIG",
                  inst + " carries the bar's numerator/denominator", function=FN,
                  construct="inserted TIME_SIGNATURE event does not carry the bar's own numerator and denominator",
                  message=f"numerator=`{short(kws.get('numerator'))}` denominator=`{short(kws.get('denominator'))}`", file=fi.file, node=n)
        if filters:
            ctx.check(top_index(filters[0][0]) is not None and top_index(n) is not None and top_index(filters[0][0]) < top_index(n), "SIG",
                      inst + " insertion follows the filter", function=FN, construct="TIME_SIGNATURE inserted before the filter removes signatures",
                      message="the filter would delete the bar's own signature again", file=fi.file, node=n)
    # rejection tests: (a) more than one signature, (b) a signature differing from the bar's
    sig_rejects = []
    for r in raises:
        g = next((a for a in ancestors(r) if isinstance(a, ast.If)), None)
        if g is None:
            continue
        txt = src(g.test)
        if "len(" in txt and any(isinstance(x, ast.Compare) for x in ast.walk(g.test)):
            cmpn = next(x for x in ast.walk(g.test) if isinstance(x, ast.Compare))
            if isinstance(cmpn.ops[0], ast.Gt) and isinstance(cmpn.comparators[0], ast.Constant) and cmpn.comparators[0].value == 1:
                sig_rejects.append(("count", g))
            elif isinstance(cmpn.ops[0], ast.GtE) and isinstance(cmpn.comparators[0], ast.Constant) and cmpn.comparators[0].value == 2:
                sig_rejects.append(("count", g))
        if "numerator" in txt and "denominator" in txt and "all(" in txt and isinstance(g.test, ast.UnaryOp):
            sig_rejects.append(("uniform", g))
        elif "numerator" in txt and "denominator" in txt and isinstance(g.test, ast.Call) and src(g.test.func) == "any":
            sig_rejects.append(("uniform", g))
    # polarity and content of the two rejection tests
    from .c07 import _nnf
    for kind_, g in sig_rejects:
        leaves = list(_nnf(g.test))
        if kind_ == "count":
            ok_ = False
            for leaf, neg in leaves:
                if isinstance(leaf, ast.Compare) and isinstance(leaf.comparators[0], ast.Constant):
                    c0, op = leaf.comparators[0].value, type(leaf.ops[0])
                    more_than_one = (op is ast.Gt and c0 == 1) or (op is ast.GtE and c0 == 2) or (op is ast.NotEq and False)
                    at_most_one = (op is ast.LtE and c0 == 1) or (op is ast.Lt and c0 == 2)
                    ok_ = (more_than_one and not neg) or (at_most_one and neg)
            ctx.check(ok_ and len(leaves) == 1, "SIG", inst + f" raises when more than one signature is present (`{short(g.test, 60)}`)", function=FN,
                      construct="signature-count rejection fires for the wrong count", message=f"`{short(g.test, 80)}`", file=fi.file, node=g)
        else:
            alls = [(leaf, neg) for leaf, neg in leaves if isinstance(leaf, ast.Call) and isinstance(leaf.func, ast.Name) and leaf.func.id == "all"]
            if not alls and len(leaves) == 1 and isinstance(leaves[0][0], ast.Call) and src(leaves[0][0].func) == "any" and leaves[0][0].args \
                    and isinstance(leaves[0][0].args[0], ast.GeneratorExp):
                # any(A for ...)  is  not all(not A for ...)
                from ..model import _Canon
                ge0 = leaves[0][0].args[0]
                flipped = ast.GeneratorExp(elt=_Canon().visit_UnaryOp(ast.UnaryOp(op=ast.Not(), operand=clone(ge0.elt))), generators=ge0.generators)
                call = ast.copy_location(ast.Call(func=ast.Name(id="all", ctx=ast.Load()), args=[ast.copy_location(flipped, ge0)], keywords=[]), leaves[0][0])
                alls = [(call, not leaves[0][1])]
            ok_ = len(alls) == 1 and len(leaves) == 1 and alls[0][1] is True and alls[0][0].args and isinstance(alls[0][0].args[0], ast.GeneratorExp)
            detail = ""
            if ok_:
                ge = alls[0][0].args[0]
                tv = ge.generators[0].target.id if isinstance(ge.generators[0].target, ast.Name) else None
                inner = list(_nnf(ge.elt))
                seen = set()
                conj = not any(isinstance(x, ast.BoolOp) and isinstance(x.op, ast.Or) for x in ast.walk(ge.elt))
                for leaf, neg in inner:
                    if isinstance(leaf, ast.Compare) and len(leaf.ops) == 1 and isinstance(leaf.ops[0], (ast.Eq, ast.NotEq)) \
                            and not (isinstance(leaf.left, ast.Attribute) and isinstance(leaf.left.value, ast.Name) and leaf.left.value.id == tv):
                        leaf = ast.copy_location(ast.Compare(left=leaf.comparators[0], ops=leaf.ops, comparators=[leaf.left]), leaf)    # == is symmetric
                    good = isinstance(leaf, ast.Compare) and len(leaf.ops) == 1 and isinstance(leaf.ops[0], (ast.Eq, ast.NotEq)) \
                        and (isinstance(leaf.ops[0], ast.Eq) != neg) and isinstance(leaf.left, ast.Attribute) and isinstance(leaf.left.value, ast.Name) \
                        and leaf.left.value.id == tv and leaf.left.attr in (fields.get(src(leaf.comparators[0])) or (
                            src(leaf.comparators[0]) if isinstance(leaf.comparators[0], ast.Attribute) and attr_chain(leaf.comparators[0])[0] == "self" else "#"))
                    if good:
                        seen.add(leaf.left.attr)
                    else:
                        detail += f" `{short(leaf, 50)}`"
                ok_ = conj and seen == {"numerator", "denominator"} and not detail and not ge.generators[0].ifs
            ctx.check(ok_, "SIG", inst + " raises iff some signature differs from the bar's in numerator or denominator", function=FN,
                      construct="uniformity rejection does not test `every signature equals the bar's numerator and denominator`",
                      message=f"`{short(g.test, 100)}`{'; unexpected:' + detail if detail else ''}", file=fi.file, node=g)
    # the list the two tests look at holds exactly the TIME_SIGNATURE events of the sequence
    tested = set()
    for _, g in sig_rejects:
        tested |= {x.id for x in ast.walk(g.test) if isinstance(x, ast.Name)}
    for a in walk_local(fi.node):
        if isinstance(a, ast.Assign) and isinstance(a.targets[0], ast.Name) and a.targets[0].id in tested and isinstance(a.value, ast.List) and not a.value.elts:
            ctx.check(_partition_selects(fi, a.targets[0].id) == "ts", "SIG", inst + f" `{a.targets[0].id}` collects the TIME_SIGNATURE events", function=FN,
                      construct="the list tested by the signature rejections is not `the TIME_SIGNATURE events of the sequence`",
                      message="filled by a loop that does not select exactly the TIME_SIGNATURE events", file=fi.file, node=a)
        if isinstance(a, ast.Assign) and isinstance(a.targets[0], ast.Name) and a.targets[0].id in tested and isinstance(a.value, ast.ListComp):
            ifs = a.value.generators[0].ifs
            okl = len(ifs) == 1 and isinstance(ifs[0], ast.Compare) and isinstance(ifs[0].ops[0], ast.Eq) \
                and "TIME_SIGNATURE" in {enum_member(ifs[0].left, "MessageType"), enum_member(ifs[0].comparators[0], "MessageType")}
            ctx.check(okl, "SIG", inst + f" `{a.targets[0].id}` collects the TIME_SIGNATURE events", function=FN,
                      construct="the list tested by the signature rejections is not `the TIME_SIGNATURE events of the sequence`",
                      message=short(a.value, 100), file=fi.file, node=a)
            # ... of the *whole* sequence: the iterable is the sequence's message accessor itself, not a prefix, slice or filtered view of it
            it = a.value.generators[0].iter
            ctx.check(_whole_iter(it), "SIG", inst + f" `{a.targets[0].id}` is drawn from the whole sequence", function=FN,
                      construct="the list tested by the signature rejections is drawn from a part of the sequence only",
                      message=f"iterates `{short(it, 100)}`: a signature outside that part is neither counted nor compared, the bar is accepted", file=fi.file, node=a)
    # the bar remembers the signature and key it was built with
    stored = {t.attr: src(a.value) for a in walk_local(fi.node) if isinstance(a, ast.Assign) for t in a.targets
              if isinstance(t, ast.Attribute) and isinstance(t.value, ast.Name) and t.value.id == "self" and isinstance(a.value, ast.Name)}
    prm = fi.params
    want_ = {prm[2]: None, prm[3]: None, prm[4]: None} if len(prm) >= 5 else {}
    for pn in want_:
        ctx.check(pn in stored.values(), "SIG", f"{FN}: parameter `{pn}` is stored on the bar", function=FN,
                  construct="a constructor argument of Bar is not stored", message=f"stored: {stored}", file=fi.file, node=fi.node)
    kinds = {k for k, _ in sig_rejects}
    ctx.check("count" in kinds, "SIG", inst + " rejects a second signature", function=FN,
              construct="no rejection of sequences carrying more than one TIME_SIGNATURE", message="expected `if len(signatures) > 1: raise`",
              file=fi.file, node=fi.node)
    ctx.check("uniform" in kinds, "SIG", inst + " rejects a conflicting signature", function=FN,
              construct="no rejection of a TIME_SIGNATURE that differs from the bar's", message="expected `if not all(n == bar.n and d == bar.d): raise`",
              file=fi.file, node=fi.node)
    if filters and sig_rejects:
        ctx.check(all(top_index(g) is not None and top_index(g) < top_index(filters[0][0]) for _, g in sig_rejects), "SIG",
                  inst + " rejection tests precede the rewrite", function=FN, construct="signature rejection tests run after the rewrite",
                  message="after the rewrite there is always exactly one matching signature: the tests could never fail", file=fi.file,
                  node=filters[0][0])


def duration_measure(ctx: Ctx) -> None:
    """MEASURE: the duration the capacity tests read -- `get_sequence_duration_relation` -- is the sum of all WAIT times (and
    of nothing else), from 0, divided by PPQN (quarters); the Sequence wrapper passes it through unchanged."""
    from ..engines.typecase import TypeCase, events_matching
    from .c05 import message_loop
    p = ctx.p
    q = "RelativeSequence.get_sequence_duration_relation"
    fi = p.func(q)
    ctx.analysed(fi)
    lp = message_loop(fi.node)
    # the accumulator by role: the local the returned quotient is made of
    rets0 = [r for r in walk_local(fi.node) if isinstance(r, ast.Return) and r.value is not None]
    acc = None
    if len(rets0) == 1:
        cands = [x.id for x in ast.walk(rets0[0].value) if isinstance(x, ast.Name) and x.id not in p.settings and x.id not in ("int", "float", "round")]
        acc = cands[0] if len(set(cands)) == 1 else None
    if lp is None or acc is None:
        ctx.undetermined("MEASURE", f"{q}: measuring loop", "no loop over the messages feeding one returned local: idiom not judged")
        return
    for T in p.enum_order("MessageType"):
        tc = TypeCase(p, fi, {lp.target.id}, T)
        exits = tc.run_body(lp.body)
        rng = events_matching(exits, lambda e: e[0] == "aug" and e[1] == acc and e[2] == "Add" and str(e[3]).endswith(".time"), kinds=("end", "continue", "break"))
        oth = events_matching(exits, lambda e: (e[0] == "aug" and e[1] == acc and not (e[2] == "Add" and str(e[3]).endswith(".time"))) or (e[0] == "set" and e[1] == acc),
                              kinds=("end", "continue", "break"))
        kinds_ = {k for k, _ in exits}
        want = (1, 1) if T == "WAIT" else (0, 0)
        ctx.check((rng or (0, 0)) == want and (oth or (0, 0)) == (0, 0) and "break" not in kinds_, "MEASURE", f"{q}: {T} contributes {rng} to the duration", function=q,
                  construct=f"sequence duration counts {T} messages wrongly", message=f"adds of its time {rng}, expected {want}; other changes of the sum {oth}; exits {sorted(kinds_)}",
                  file=fi.file, node=lp)
    init = [s_ for s_ in fi.node.body if isinstance(s_, ast.Assign) and any(isinstance(t, ast.Name) and t.id == acc for t in s_.targets)]
    ctx.check(len(init) == 1 and isinstance(init[0].value, ast.Constant) and init[0].value.value == 0 and not isinstance(init[0].value.value, bool), "MEASURE",
              f"{q}: the sum starts at 0", function=q, construct="sequence duration does not start at 0", message="", file=fi.file, node=fi.node)
    rets = [r for r in walk_local(fi.node) if isinstance(r, ast.Return)]
    nz = Normaliser()
    okr = len(rets) == 1 and rets[0].value is not None and nz.norm(rets[0].value) == Sym.atom(acc) * Sym.atom("PPQN").inverse()
    ctx.check(okr, "MEASURE", f"{q}: returns the tick sum divided by PPQN", function=q, construct="sequence duration in quarters is not (sum of waits) / PPQN",
              message=f"{[short(r) for r in rets]}", file=fi.file, node=rets[0] if rets else fi.node)
    w = p.func("Sequence.get_sequence_duration_relation")
    ctx.analysed(w)
    wr = [r for r in walk_local(w.node) if isinstance(r, ast.Return)]
    okw = len(wr) == 1 and isinstance(wr[0].value, ast.Call) and call_method(wr[0].value)[1] == "get_sequence_duration_relation" \
        and attr_chain(call_method(wr[0].value)[0]) == ["self", "rel"] and not wr[0].value.args
    ctx.check(okw, "MEASURE", "Sequence.get_sequence_duration_relation returns the relative view's value unchanged", function=w.qualname,
              construct="Sequence-level duration (in quarters) is not the relative view's", message=f"{[short(r) for r in wr]}", file=w.file, node=w.node)


def bar_copy(ctx: Ctx) -> None:
    p = ctx.p
    cp = p.func("Bar.copy")
    ctx.analysed(cp)
    from .c16 import stored_params, _mentions_attr
    init = p.func("Bar.__init__")
    params = init.params[1:]
    sp = stored_params(ctx, "Bar")
    ctor = next((c for c in walk_local(cp.node) if isinstance(c, ast.Call) and ((attr_chain(c.func) or [""])[-1] == "__class__" or
                 (isinstance(c.func, ast.Name) and c.func.id == "Bar"))), None)
    if ctor is None:
        ctx.violation("COPY", "Bar.copy", function=cp.qualname, construct="copy() does not rebuild the bar through its constructor", message="",
                      file=cp.file, node=cp.node)
        return
    supplied = {params[i]: a for i, a in enumerate(ctor.args) if i < len(params)}
    supplied.update({k.arg: k.value for k in ctor.keywords if k.arg})
    for prm, attr in sp.items():
        e = supplied.get(prm)
        ctx.check(e is not None and _mentions_attr(cp.node, e, attr, "Bar"), "COPY", f"Bar.copy passes {attr}", function=cp.qualname,
                  construct=f"Bar.copy does not pass `{attr}` on", message=f"supplied: `{short(e)}`", file=cp.file, node=ctor)


def check(ctx: Ctx) -> None:
    _main_check(ctx)
    from .common import view_deps
    view_deps(ctx)
