"""C14 -- transposition shifts each pitch class by the interval, keeping pitches in range (structural clauses)."""
from __future__ import annotations

import ast

from ..astutil import attr_chain, call_method, short, src, ancestors
from ..model import walk_local, AnalysisError
from ..report import Ctx
from ..engines import tables
from ..engines.effects import Effects
from ..engines.typecase import TypeCase, TCState, events_matching

FN = "RelativeSequence.transpose"


def check(ctx: Ctx) -> None:
    _check(ctx)
    from ..engines.typestate import check_wrappers
    check_wrappers(ctx, ['transpose'])


def _check(ctx: Ctx) -> None:
    p = ctx.p
    fi = p.func(FN)
    ctx.analysed(fi)
    ctx.explanation = (
        "Structural necessary conditions of C14: RET1/RET2/VS-KEY Key.transpose_key is total and shifts the tonic by the "
        "interval (shared with C20); SHIFT per message type: NOTE_ON and NOTE_OFF both get `note += interval` exactly once, "
        "no other type is touched, KEY_SIGNATURE gets its key from transpose_key with the same interval; WRAP the two "
        "octave loops compare the pitch with the range bounds, move by exactly one octave in the right direction, and the "
        "returned flag is set to True in and only in those loops (initialised False); FR only `note` and `key` are written; "
        "RANGE the configured range spans at least an octave (so the wrap loops terminate inside it); DELEG Sequence.transpose "
        "invalidates, re-normalises iff the flag is set and returns it; Bar.transpose transposes its key with the same interval "
        "and delegates. Not decided: pitch-class arithmetic on concrete notes, transpose-back equality.")
    ctx.assumptions += ["integer interval", "pitches of the input lie inside the configured range"]
    t = tables.Tables(p)
    tables.check_transpose_key(ctx)
    tables.check_tables_immutable(ctx)
    ev = tables.IntEval(p, t)
    tables.check_transpose_exhaustive(ctx, t, ev)

    interval = fi.params[1] if len(fi.params) > 1 else None
    if interval is None:
        raise AnalysisError(f"{FN}: interval parameter not found")
    loop = next((n for n in fi.node.body if isinstance(n, ast.For) and attr_chain(n.iter) == ["self", "_messages"]), None)
    if loop is None or not isinstance(loop.target, ast.Name):
        raise AnalysisError(f"{FN}: message loop not found")
    m = loop.target.id

    # --- SHIFT per type
    for T in p.enum_order("MessageType"):
        tc = TypeCase(p, fi, {m}, T)
        exits = tc.run_body(loop.body)
        note_rng = events_matching(exits, lambda e: e[0] == "attrstore" and e[1] == "msg" and e[2] == "note")
        key_rng = events_matching(exits, lambda e: e[0] == "attrstore" and e[1] == "msg" and e[2] == "key")
        oth_rng = events_matching(exits, lambda e: e[0] == "attrstore" and e[2] not in ("note", "key"))
        inst = f"{FN}: {T}: note stores {note_rng}, key stores {key_rng}"
        if T in ("NOTE_ON", "NOTE_OFF"):
            ctx.check(note_rng is not None and note_rng[0] >= 1, "SHIFT", inst, function=FN,
                      construct=f"{T} messages are not pitch-shifted on every path",
                      message=f"for {T} the pitch is written {note_rng} times: note-on and note-off must be shifted alike", file=fi.file, node=loop)
        else:
            ctx.check(note_rng in (None, (0, 0)), "SHIFT", inst, function=FN, construct=f"{T} message gets its note field rewritten",
                      message=f"{T} is not a note message but its `note` is written {note_rng}", file=fi.file, node=loop)
        if T == "KEY_SIGNATURE":
            ctx.check(key_rng == (1, 1), "SHIFT", f"{FN}: KEY_SIGNATURE key rewritten exactly once {key_rng}", function=FN,
                      construct="KEY_SIGNATURE message not re-keyed exactly once", message=f"key written {key_rng} times", file=fi.file, node=loop)
        else:
            ctx.check(key_rng in (None, (0, 0)), "SHIFT", f"{FN}: {T}: key untouched", function=FN,
                      construct=f"{T} message gets its key rewritten", message=f"key written {key_rng}", file=fi.file, node=loop)
        ctx.check(oth_rng in (None, (0, 0)), "FR", f"{FN}: {T}: no other attribute written", function=FN,
                  construct="transpose writes an attribute other than note/key", message=f"{oth_rng}", file=fi.file, node=loop)

    # first pitch store adds the interval
    first_shift = None
    for n in ast.walk(loop):
        if isinstance(n, ast.AugAssign) and isinstance(n.target, ast.Attribute) and n.target.attr == "note" \
                and not any(isinstance(a, ast.While) for a in ancestors(n) if a is not fi.node):
            first_shift = n
            break
        if isinstance(n, ast.Assign) and any(isinstance(t, ast.Attribute) and t.attr == "note" for t in n.targets) \
                and not any(isinstance(a, ast.While) for a in ancestors(n)):
            first_shift = n
            break
    # logic moved into a helper that receives the message: the per-kind counts above still see its writes, but the shape rules
    # below (first shift, wrap loops, flag) are written for the in-line form and are not judged then
    _tc0 = TypeCase(p, fi, {loop.target.id}, "NOTE_ON")
    delegated = [c for c in ast.walk(loop) if isinstance(c, ast.Call) and _tc0._helper(c, TCState()) is not None]
    if first_shift is None and delegated:
        ctx.undetermined("SHIFT", f"{FN}: interval applied", f"the pitch is written inside `{short(delegated[0], 50)}`: in-line shape rules not judged")
    elif first_shift is None:
        ctx.violation("SHIFT", f"{FN}: interval applied", function=FN, construct="no unconditional pitch shift by the interval found",
                      message="no `note += interval` outside the wrap loops", file=fi.file, node=loop)
    else:
        from ..linear import Normaliser
        nz = Normaliser()
        blk = next((getattr(first_shift._parent, f) for f in ("body", "orelse") if first_shift in getattr(first_shift._parent, f, [])), [])
        nz.run_block([x for x in blk[:blk.index(first_shift)] if isinstance(x, ast.Assign) and isinstance(x.targets[0], ast.Name)] if blk else [])
        if isinstance(first_shift, ast.AugAssign):
            delta = nz.norm(first_shift.value) if isinstance(first_shift.op, ast.Add) else -nz.norm(first_shift.value)
        else:
            delta = nz.norm(first_shift.value) - nz.norm(first_shift.targets[0])
        ctx.check(delta.canon() == interval, "SHIFT", f"{FN}: pitch shift = +{interval} (got {delta.canon()})", function=FN,
                  construct="pitch shifted by something other than the interval",
                  message=f"`{short(first_shift)}` changes the pitch by `{delta.canon()}`, expected `{interval}`", file=fi.file, node=first_shift)
    # key transposed with the same interval
    for c in ast.walk(loop):
        if isinstance(c, ast.Call) and attr_chain(c.func) and attr_chain(c.func)[-1] == "transpose_key":
            ok = len(c.args) == 2 and isinstance(c.args[1], ast.Name) and c.args[1].id == interval \
                and isinstance(c.args[0], ast.Attribute) and c.args[0].attr == "key"
            ctx.check(ok, "SHIFT", f"{FN}: key signature transposed by the same interval", function=FN,
                      construct="key signature transposed with a different interval or source",
                      message=f"`{short(c)}`", file=fi.file, node=c)

    # --- WRAP loops and the flag
    rets = [n for n in walk_local(fi.node) if isinstance(n, ast.Return) and n.value is not None]
    flag = rets[-1].value.id if rets and isinstance(rets[-1].value, ast.Name) else None
    if flag is None:
        ctx.violation("WRAP", f"{FN}: returned flag", function=FN, construct="transpose does not return a flag variable",
                      message="return value is not a simple flag", file=fi.file, node=fi.node)
    else:
        whiles = [n for n in ast.walk(loop) if isinstance(n, ast.While)]
        # `flag = flag or <test>` / `flag |= <test>`: a different (accumulating) idiom, recognised but not judged
        accumulating = [n for n in ast.walk(loop)
                        if (isinstance(n, ast.Assign) and any(isinstance(t, ast.Name) and t.id == flag for t in n.targets)
                            and any(isinstance(x, ast.Name) and x.id == flag for x in ast.walk(n.value)))
                        or (isinstance(n, ast.AugAssign) and isinstance(n.target, ast.Name) and n.target.id == flag and isinstance(n.op, ast.BitOr))]
        lower = p.settings.get("NOTE_LOWER_BOUND")
        upper = p.settings.get("NOTE_UPPER_BOUND")
        # a per-note relay: `w = False` ... `w = True` in the wrap loops ... `if w: flag = True` -- the flag is set exactly when w was
        relays = set()
        for n in ast.walk(loop):
            if isinstance(n, ast.If) and isinstance(n.test, ast.Name) and not n.orelse and len(n.body) == 1 and isinstance(n.body[0], ast.Assign) \
                    and any(isinstance(t, ast.Name) and t.id == flag for t in n.body[0].targets) and isinstance(n.body[0].value, ast.Constant) and n.body[0].value.value is True:
                w_ = n.test.id
                asg = [a for a in ast.walk(loop) if isinstance(a, ast.Assign) and any(isinstance(t, ast.Name) and t.id == w_ for t in a.targets)]
                if asg and all(isinstance(a.value, ast.Constant) and isinstance(a.value.value, bool) for a in asg) \
                        and any(a.value.value is False and a.lineno < n.lineno and not any(isinstance(x, ast.While) for x in ancestors(a) if x is not loop and x in list(ast.walk(loop)))
                                for a in asg):
                    relays.add(w_)
        # the other place for the flag: next to the two loops, under `low test or high test` -- true exactly when one of them runs
        joint = None
        for g in ast.walk(loop):
            if isinstance(g, ast.If) and isinstance(g.test, ast.BoolOp) and isinstance(g.test.op, ast.Or) and len(g.test.values) == 2 and not g.orelse:
                ws = [x for x in g.body if isinstance(x, ast.While)]
                if len(ws) == 2 and sorted(ast.dump(x.test) for x in ws) == sorted(ast.dump(v) for v in g.test.values):
                    first = min(g.body.index(x) for x in ws)
                    before = [y for st_ in g.body[:first] for y in ast.walk(st_)]
                    if not any(isinstance(y, ast.Attribute) and y.attr == "note" and isinstance(y.ctx, ast.Store) for y in before) \
                            and not any(isinstance(y, ast.Call) for y in before):
                        joint = g
        kinds = {}
        for w in whiles:
            tst = w.test
            k = None
            if isinstance(tst, ast.Compare) and len(tst.ops) == 1 and isinstance(tst.left, ast.Attribute) and tst.left.attr == "note":
                b = tst.comparators[0]
                bname = b.id if isinstance(b, ast.Name) else None
                if isinstance(tst.ops[0], ast.Lt) and bname == "NOTE_LOWER_BOUND":
                    k = "low"
                elif isinstance(tst.ops[0], ast.Gt) and bname == "NOTE_UPPER_BOUND":
                    k = "high"
                elif isinstance(tst.ops[0], (ast.LtE, ast.GtE, ast.Lt, ast.Gt)) and bname in ("NOTE_LOWER_BOUND", "NOTE_UPPER_BOUND"):
                    k = "off-by-one:" + type(tst.ops[0]).__name__ + ":" + bname
            kinds[id(w)] = k
            if k in ("low", "high"):
                steps = [n for n in ast.walk(w) if isinstance(n, ast.AugAssign) and isinstance(n.target, ast.Attribute) and n.target.attr == "note"]
                good = len(steps) == 1 and isinstance(steps[0].value, ast.Constant) and steps[0].value.value == 12 and \
                    isinstance(steps[0].op, ast.Add if k == "low" else ast.Sub)
                ctx.check(good, "WRAP", f"{FN}: {k} wrap loop moves by one octave towards the range", function=FN,
                          construct=f"{k} wrap loop does not move the pitch by exactly one octave in the right direction",
                          message=f"`{short(w)}`", file=fi.file, node=w)
                sets = [n for n in ast.walk(w) if isinstance(n, ast.Assign) and any(isinstance(t, ast.Name) and (t.id == flag or t.id in relays) for t in n.targets)
                        and isinstance(n.value, ast.Constant) and n.value.value is True]
                if not sets and joint is not None and w in joint.body:
                    sets = [n for n in joint.body if isinstance(n, ast.Assign) and any(isinstance(t, ast.Name) and t.id == flag for t in n.targets)
                            and isinstance(n.value, ast.Constant) and n.value.value is True]
                if not sets and accumulating:
                    ctx.undetermined("WRAP", f"{FN}: {k} wrap loop sets the flag",
                                     f"the flag is accumulated by `{short(accumulating[0])}` instead of being set in the loop: idiom not judged")
                else:
                    ctx.check(bool(sets), "WRAP", f"{FN}: {k} wrap loop sets the flag", function=FN,
                              construct=f"{k} wrap loop does not set the returned flag",
                              message="a note moved by octaves would not be reported", file=fi.file, node=w)
            elif k is not None:
                ctx.violation("WRAP", f"{FN}: wrap loop condition", function=FN, construct=f"wrap loop compares with the wrong strictness ({k})",
                              message=f"`{short(w.test)}`: a pitch exactly on the range bound is inside the range", file=fi.file, node=w)
        if not any(k is not None for k in kinds.values()):
            ctx.undetermined("WRAP", f"{FN}: range wrapping", "no `while note </> bound` loop: wrapping idiom not recognised, not judged")
        else:
            ctx.check(sorted(k for k in kinds.values() if k in ("low", "high")) == ["high", "low"], "WRAP", f"{FN}: one low and one high wrap loop",
                      function=FN, construct="the low/high octave wrap loops are not both present",
                      message=f"found {sorted(str(k) for k in kinds.values())}", file=fi.file, node=loop)
        # flag assignments: False before the loop; True only inside wrap loops
        for n in walk_local(fi.node):
            if isinstance(n, ast.Assign) and any(isinstance(t, ast.Name) and t.id == flag for t in n.targets):
                inside = any(isinstance(a, ast.While) and kinds.get(id(a)) in ("low", "high") for a in ancestors(n))
                par = getattr(n, "_parent", None)
                if not inside and joint is not None and par is joint and n in joint.body and all(kinds.get(id(x)) in ("low", "high") for x in joint.body if isinstance(x, ast.While)):
                    inside = True
                if not inside and isinstance(par, ast.If) and isinstance(par.test, ast.Name) and par.test.id in relays:
                    # set through the relay: the relay itself becomes True only inside the wrap loops
                    inside = all(any(isinstance(a, ast.While) and kinds.get(id(a)) in ("low", "high") for a in ancestors(x))
                                 for x in ast.walk(loop) if isinstance(x, ast.Assign) and any(isinstance(t, ast.Name) and t.id == par.test.id for t in x.targets)
                                 and isinstance(x.value, ast.Constant) and x.value.value is True)
                if isinstance(n.value, ast.Constant) and n.value.value is True and delegated and not any(k in ("low", "high") for k in kinds.values()):
                    ctx.undetermined("WRAP", f"{FN}: `{flag} = True`", "the wrap loops live in a helper: flag placement not judged")
                elif isinstance(n.value, ast.Constant) and n.value.value is True:
                    ctx.check(inside, "WRAP", f"{FN}: `{flag} = True` at line offset inside a wrap loop", function=FN,
                              construct="returned flag set to True outside the octave wrap loops",
                              message="transpose would report an octave move although none was needed", file=fi.file, node=n)
                elif isinstance(n.value, ast.Constant) and n.value.value is False:
                    ctx.check(not any(isinstance(a, (ast.For, ast.While)) for a in ancestors(n) if a is not fi.node), "WRAP",
                              f"{FN}: flag initialised False before the loop", function=FN,
                              construct="returned flag reset inside the message loop", message="an earlier octave move would be forgotten",
                              file=fi.file, node=n)
                elif n in accumulating:
                    ctx.undetermined("WRAP", f"{FN}: flag assignment `{short(n)}`", "accumulating assignment: idiom recognised, its test is not judged")
                elif any(isinstance(a, (ast.For, ast.While)) for a in ancestors(n) if a is not fi.node):
                    ctx.violation("WRAP", f"{FN}: flag assignment `{short(n)}`", function=FN,
                                  construct="returned flag overwritten for every message",
                                  message=f"`{short(n)}` replaces the flag inside the message loop: an octave move of an earlier note is forgotten "
                                          f"(the result reflects only the last note)", file=fi.file, node=n)
                else:
                    ctx.undetermined("WRAP", f"{FN}: flag assignment `{short(n)}`", "non-constant initial value: not judged")

    # --- FR (whole function, through the effects engine)
    eff = Effects(p)
    attrs = sorted({w.attr for w in eff.writes("RelativeSequence", "transpose") if w.kind == "attr"})
    structural = [w for w in eff.writes("RelativeSequence", "transpose") if w.kind in ("rebind", "listmut")]
    ctx.check(set(attrs) <= {"note", "key"} and not structural, "FR", f"{FN}: writes only note/key ({attrs})", function=FN,
              construct="transpose writes more than pitch and key", message=f"attribute writes {attrs}, structural writes {len(structural)}",
              file=fi.file, node=fi.node)

    # --- RANGE
    lo, hi = p.settings.get("NOTE_LOWER_BOUND"), p.settings.get("NOTE_UPPER_BOUND")
    if isinstance(lo, int) and isinstance(hi, int):
        ctx.check(hi - lo >= 11, "RANGE", f"configured range {lo}..{hi} spans an octave", function="settings",
                  construct="playable range narrower than an octave", message=f"{lo}..{hi}: the wrap loops would oscillate",
                  file="scoda/config/default_settings.json")
    else:
        ctx.undetermined("RANGE", "configured range", "NOTE_LOWER_BOUND/NOTE_UPPER_BOUND not resolvable")

    # --- DELEG
    st = p.func("Sequence.transpose")
    ctx.analysed(st)
    body = st.node.body
    shifted_var = None
    for n in walk_local(st.node):
        if isinstance(n, ast.Assign) and isinstance(n.value, ast.Call):
            recv, name = call_method(n.value)
            if name == "transpose" and attr_chain(recv) in (["self", "rel"],) and isinstance(n.targets[0], ast.Name):
                shifted_var = n.targets[0].id
                ok = len(n.value.args) == 1 and isinstance(n.value.args[0], ast.Name) and n.value.args[0].id == st.params[1]
                ctx.check(ok, "DELEG", "Sequence.transpose passes its interval through", function=st.qualname,
                          construct="Sequence.transpose calls the view's transpose with a different interval", message=short(n), file=st.file, node=n)
    if shifted_var is None:
        ctx.violation("DELEG", "Sequence.transpose delegates to the relative view", function=st.qualname,
                      construct="Sequence.transpose does not capture the view's octave flag", message="no `x = self.rel.transpose(...)`",
                      file=st.file, node=st.node)
    else:
        norm_calls = []
        for n in walk_local(st.node):
            if isinstance(n, ast.Call):
                recv, name = call_method(n)
                if isinstance(recv, ast.Name) and recv.id == "self" and name in ("normalise", "quantise_and_normalise"):
                    guard = next((a for a in ancestors(n) if isinstance(a, ast.If)), None)
                    norm_calls.append((n, guard))
        from ..astutil import guarded_conditions

        def exactly_under_flag(n_):
            # the only condition on the way to the call is `the flag holds` (as the test of an if, or as a passed guard `if not flag: return`)
            pcs = []
            for t, h in guarded_conditions(n_):
                while isinstance(t, ast.UnaryOp) and isinstance(t.op, ast.Not):
                    t, h = t.operand, not h
                pcs.append((t, h))
            return len(pcs) == 1 and isinstance(pcs[0][0], ast.Name) and pcs[0][0].id == shifted_var and pcs[0][1]
        ok = bool(norm_calls) and all(exactly_under_flag(n_) for n_, g in norm_calls)
        ctx.check(ok, "DELEG", "Sequence.transpose re-normalises iff notes were moved by octaves", function=st.qualname,
                  construct="re-normalisation after transposition is missing or not tied to the octave flag",
                  message="octave-wrapped notes can overlap existing ones; normalise() must run exactly then (and not otherwise, "
                          "or transpose-back would not restore the original)", file=st.file, node=st.node)
        r = [n for n in walk_local(st.node) if isinstance(n, ast.Return)]
        ctx.check(bool(r) and all(isinstance(x.value, ast.Name) and x.value.id == shifted_var for x in r), "DELEG",
                  "Sequence.transpose returns the octave flag", function=st.qualname,
                  construct="Sequence.transpose does not return the view's octave flag", message="", file=st.file, node=st.node)
    bt = p.func("Bar.transpose")
    ctx.analysed(bt)
    iparam = bt.params[1]
    key_ok = deleg_ok = False
    for n in walk_local(bt.node):
        if isinstance(n, ast.Assign) and any(attr_chain(t) == ["self", "key_signature"] for t in n.targets) and isinstance(n.value, ast.Call):
            c = n.value
            if attr_chain(c.func) and attr_chain(c.func)[-1] == "transpose_key" and len(c.args) == 2 \
                    and attr_chain(c.args[0]) == ["self", "key_signature"] and isinstance(c.args[1], ast.Name) and c.args[1].id == iparam:
                key_ok = True
        if isinstance(n, ast.Return) and isinstance(n.value, ast.Call):
            recv, name = call_method(n.value)
            if name == "transpose" and attr_chain(recv) == ["self", "sequence"] and len(n.value.args) == 1 \
                    and isinstance(n.value.args[0], ast.Name) and n.value.args[0].id == iparam:
                deleg_ok = True
    if key_ok:
        from ..astutil import path_conditions
        ks = next(n for n in walk_local(bt.node) if isinstance(n, ast.Assign) and any(attr_chain(t) == ["self", "key_signature"] for t in n.targets))
        pcs = path_conditions(ks)
        okp = all(holds is (isinstance(t.ops[0], (ast.IsNot, ast.NotEq))) and isinstance(t, ast.Compare) and attr_chain(t.left) == ["self", "key_signature"]
                  and isinstance(t.comparators[0], ast.Constant) and t.comparators[0].value is None for t, holds in pcs if isinstance(t, ast.Compare)) \
            and all(isinstance(t, ast.Compare) for t, _ in pcs) and len(pcs) <= 1
        ctx.check(okp, "DELEG", "Bar.transpose transposes its key whenever the bar has one", function=bt.qualname,
                  construct="Bar.transpose updates the bar's key under a condition other than `the bar has a key`",
                  message=f"{[(short(t, 50), h) for t, h in pcs]}: a bar that has a key keeps it while its notes (and the key events in its sequence) move",
                  file=bt.file, node=ks)
        rets_ = [n for n in walk_local(bt.node) if isinstance(n, ast.Return)]
        ctx.check(len(rets_) == 1 and not path_conditions(rets_[0]), "DELEG", "Bar.transpose always transposes its sequence", function=bt.qualname,
                  construct="Bar.transpose does not transpose its sequence on every path", message=f"{len(rets_)} return statement(s)", file=bt.file, node=bt.node)
    ctx.check(key_ok, "DELEG", "Bar.transpose transposes its key by the same interval", function=bt.qualname,
              construct="Bar.transpose does not update the bar's key with the interval", message="", file=bt.file, node=bt.node)
    ctx.check(deleg_ok, "DELEG", "Bar.transpose delegates to its sequence with the same interval", function=bt.qualname,
              construct="Bar.transpose does not return its sequence's transpose(interval)", message="", file=bt.file, node=bt.node)
