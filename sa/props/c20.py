"""C20 -- key and circle-of-fifths tables are algebraically consistent (finite, exhaustive)."""
from __future__ import annotations

from ..report import Ctx
from ..engines import tables


def check(ctx: Ctx) -> None:
    ctx.explanation = (
        "The hand-written tables of scoda/misc/music_theory.py are read from their literals and checked completely: "
        "Note = Z12; every KeyNoteMapping scale is a major scale on the tonic its key is named after, with the right "
        "accidental count; key_transpose_order[i] has tonic i; key_transpose_mapping maps exactly the keys missing from "
        "the order to an entry with the same tonic; circle_of_fifths_order is a permutation in ascending fifths with C at "
        "index 5; KeyKeyMapping inverts Key.value. RET1: Key.transpose_key returns a value on every path (structured "
        "reachability). VS: CircleOfFifths.get_position/get_distance/from_distance and Key.transpose_key are evaluated "
        "by an interpreter of their AST over the complete finite input space (all 128 MIDI pitches for positions, Z12 x Z12 for distances; 15 keys x 49 intervals); tables a "
        "class body computes (loops, comprehensions) are executed by the same interpreter.")
    ctx.assumptions += ["integer arguments", "Python's % on negative numbers (floor semantics) as specified by the language"]
    from ..model import AnalysisError
    t = tables.check_tables(ctx)
    tables.check_tables_immutable(ctx)
    for name, run in (("Key.transpose_key", lambda: tables.check_transpose_key(ctx)), ("CircleOfFifths", lambda: tables.check_circle(ctx, t))):
        try:
            run()
        except AnalysisError as e:
            # the exhaustive evaluator does not model mutation of the tables; when a rule has already reported why (IMMUT: a table is
            # changed at run time) the evaluation is moot -- otherwise an evaluator that cannot follow the code is analysis-broken
            if not ctx.findings:
                raise
            ctx.undetermined("VS", f"{name}: exhaustive evaluation", f"not completed ({str(e)[:100]}); a finding above already explains the behaviour")
